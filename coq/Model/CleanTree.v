(* Model/CleanTree.v -- hand model of breezy/clean_tree.py and of WorkingTree.extras
   (breezy/bzr/workingtree.py, breezy/git/workingtree.py) on Lib/DirTree.  No proofs here.

   Inputs of the model that come from the real tree (fed in by the harness):
     t    the working directory (without following symlinks; the tree's own control
          directory is an opaque empty [Dir]),
     vs   the versioned paths with "inventory kind is directory" (bzr: every inventory
          entry but the root; git: the index paths, flag false),
     ign  the paths for which tree.is_ignored answers non-None (ignore semantics are
          another property's subject). *)
From Coq Require Import NArith List Bool String.
From BV Require Import Lib.Bytes Lib.Obs Lib.DirTree.
Import ListNotations.
Open Scope N_scope.

Inductive flavour := Bzr | Git.

Definition n_bzr : name := [46;98;122;114].                 (* .bzr *)
Definition n_git : name := [46;103;105;116].                (* .git *)
Definition n_branch_format : name :=                        (* branch-format *)
  [98;114;97;110;99;104;45;102;111;114;109;97;116].

(* clean_tree.is_detritus: str.endswith on the relative path; the suffixes contain
   no '/', so only the last segment matters *)
Definition detritus_suffixes : list bytes :=
  [[46;84;72;73;83]; [46;66;65;83;69]; [46;79;84;72;69;82]; [126]; [46;116;109;112]].
Definition last_name (q : path) : name := last q [].
Definition is_detritus (p : path) : bool :=
  match p with
  | [] => false
  | _ => existsb (fun s => suffixb s (last_name p)) detritus_suffixes
  end.

Definition versioned (vs : list (path * bool)) (p : path) : bool := mem_path p (map fst vs).
Definition versioned_dir (vs : list (path * bool)) (p : path) : bool :=
  existsb (fun e => path_eqb p (fst e) && snd e) vs.

(* InventoryWorkingTree.extras: for every versioned directory that is a real directory
   on disk, its entries that are neither named like the control directory
   (controldir.is_control_filename(subf) on the bare NAME, so only ".bzr") nor children
   in the inventory.  Written as a walk that descends through versioned directories only
   (inventory invariant: the parent of an entry is a versioned directory). *)
Definition bzr_visit (vs : list (path * bool)) (_ : unit) (q : path) (n : node)
  : list path * option unit :=
  match q with
  | [] => ([], Some tt)
  | _ => if name_eqb (last_name q) n_bzr then ([], None)
         else if versioned vs q then ([], if versioned_dir vs q then Some tt else None)
         else ([q], None)
  end.

Definition has_name (c : name) (cs : list (name * node)) : bool :=
  match find_child c cs with Some _ => true | None => false end.

(* GitWorkingTree.extras = _iter_files_recursive(include_dirs=False) minus the index:
   os.walk (symlinks to directories are listed as directories and not entered), pruning
   directories named ".git" and directories containing a ".git" entry (tree references),
   skipping files named ".git". *)
Definition git_visit (index : list path) (_ : unit) (q : path) (n : node)
  : list path * option unit :=
  match q with
  | [] => ([], Some tt)
  | _ => match n with
         | Dir cs => if name_eqb (last_name q) n_git || has_name n_git cs
                     then ([], None) else ([], Some tt)
         | Symlink true => ([], None)
         | _ => if name_eqb (last_name q) n_git then ([], None)
                else if mem_path q index then ([], None) else ([q], None)
         end
  end.

Definition extras (fl : flavour) (t : node) (vs : list (path * bool)) : list path :=
  match fl with
  | Bzr => walk (bzr_visit vs) tt [] t
  | Git => walk (git_visit (map fst vs)) tt [] t
  end.

Record opts := { o_unknown : bool; o_ignored : bool; o_detritus : bool;
                 o_dry : bool; o_confirm : option bool (* None = no_prompt *) }.

(* iter_deletables: the category test, in the order of the code *)
Definition selected (o : opts) (ign : list path) (p : path) : bool :=
  if o_detritus o && is_detritus p then true
  else if mem_path p ign then o_ignored o else o_unknown o.

(* ControlDir.open(path) succeeds: ".bzr/branch-format" is there, or any ".git" entry *)
Definition has_control (cs : list (name * node)) : bool :=
  match find_child n_bzr cs with
  | Some (Dir k) => match find_child n_branch_format k with Some File => true | _ => false end
  | _ => false
  end || has_name n_git cs.

(* _contains_controldir (commit 07ac4fc): os.walk below the directory (symlinks are not entered);
   wherever an entry is named like a control directory ControlDir.open is tried -- [has_control]
   already implies such an entry *)
Fixpoint contains_control (n : node) : bool :=
  match n with
  | Dir cs => has_control cs ||
              (fix go (cs : list (name * node)) : bool :=
                 match cs with [] => false | (_, ch) :: r => contains_control ch || go r end) cs
  | _ => false
  end.

(* _filter_out_nested_controldirs: only real directories are probed (osutils.isdir is lstat based) *)
Definition keep_nested (t : node) (p : path) : bool :=
  match lookup p t with Some (Dir cs) => negb (contains_control (Dir cs)) | _ => true end.

(* iter_deletables, first test (commits b06b6de, edd5827): an extra with a path COMPONENT that is a
   control filename of any registered format (controldir.is_control_filename: bzr -> ".bzr",
   git -> ".git") is never offered *)
Definition is_control_name (c : name) : bool := name_eqb c n_bzr || name_eqb c n_git.
Definition not_control (p : path) : bool := negb (existsb is_control_name p).

Definition deletables (fl : flavour) (o : opts) (ign : list path) (t : node) (vs : list (path * bool))
  : list path :=
  filter (keep_nested t) (filter (selected o ign) (filter not_control (extras fl t vs))).

(* clean_tree + delete_items: unlink / rmtree each deletable in turn *)
Definition clean (fl : flavour) (o : opts) (ign : list path) (t : node) (vs : list (path * bool)) : node :=
  let ds := deletables fl o ign t vs in
  match ds with
  | [] => t
  | _ => match o_confirm o with
         | Some false => t
         | _ => if o_dry o then t else remove_all ds t
         end
  end.

(* --- observation --------------------------------------------------- *)
Definition opath (p : path) : obs := OB (join [47] p).
Definition okind (n : node) : obs :=
  OT (match n with File => "f" | Symlink _ => "l" | Dir _ => "d" end)%string.
Definition snapshot (t : node) : obs :=
  olist (fun pn => OL [opath (fst pn); okind (snd pn)]) (all_paths [] t).

Definition run_case (fl : flavour) (t : node) (vs : list (path * bool)) (ign : list path) (o : opts) : obs :=
  if wf_node t
  then OL [olist opath (deletables fl o ign t vs); snapshot (clean fl o ign t vs)]
  else OE "not-a-directory-tree"%string.
