(* Model/Fnmatch.v -- Python 3.12 [fnmatch.fnmatch(name, pat)] on POSIX
   (os.path.normcase = identity), the function breezy/config.py calls on ONE
   path segment in [_iter_for_location_by_parts].  fnmatch is standard library
   (= environment): this file is a Gallina model of it which the C49
   correspondence run validates against the real function.

   Strings are lists of Unicode code points ([list N]); Python compares,
   indexes and matches [str] by code point.

   [translate] mirrors fnmatch.translate step by step up to the point where it
   emits a regular expression; instead of regex text it emits tokens whose
   meaning is the meaning of the emitted regex piece:
     '*'            -> TStar            (runs of '*' compressed into one)
     '?'            -> TAny             ('.' under (?s:...) : any one char)
     '[' no close   -> TLit '['
     '[stuff]'      -> TSet neg ranges  (see [class_tok]; "(?!)" = TSet false [],
                                         "." for "[!]"-like = TSet true [])
     other c        -> TLit c           (re.escape(c))
   and the whole pattern must match the whole name ((?s: ... )\Z with re.match;
   the atomic-group form of "*" is an optimisation with the same language). *)
From Coq Require Import NArith List Bool.
Import ListNotations.
Open Scope N_scope.

Definition str := list N.

Definition cSTAR : N := 42.   Definition cQM : N := 63.
Definition cLBR : N := 91.    Definition cRBR : N := 93.
Definition cBANG : N := 33.   Definition cHY : N := 45.

Inductive tok : Type :=
| TLit (c : N)
| TAny
| TStar
| TSet (neg : bool) (rs : list (N * N)).

Definition in_ranges (c : N) (rs : list (N * N)) : bool :=
  existsb (fun r => (fst r <=? c) && (c <=? snd r)) rs.

(* does the one-character token [t] accept [c]?  (TStar is not one-character) *)
Definition tok_ok (t : tok) (c : N) : bool :=
  match t with
  | TLit d => c =? d
  | TAny => true
  | TStar => false
  | TSet neg rs => xorb neg (in_ranges c rs)
  end.

Definition is_star (t : tok) : bool := match t with TStar => true | _ => false end.

(* ---- the bracket expression ------------------------------------------------ *)

(* j = i; if pat[j]=='!': j+=1; if pat[j]==']': j+=1; while pat[j]!=']': j+=1
   -> None when j runs off the end, else (pat[i:j], pat[j+1:]) *)
Fixpoint span_rbr (s : str) : option (str * str) :=
  match s with
  | [] => None
  | c :: s' => if c =? cRBR then Some ([], s')
               else match span_rbr s' with
                    | Some (a, b) => Some (c :: a, b)
                    | None => None
                    end
  end.

Definition find_close (rest : str) : option (str * str) :=
  let '(p1, r1) := match rest with
                   | c :: r => if c =? cBANG then ([c], r) else ([], rest)
                   | [] => ([], [])
                   end in
  let '(p2, r2) := match r1 with
                   | c :: r => if c =? cRBR then ([c], r) else ([], r1)
                   | [] => ([], [])
                   end in
  match span_rbr r2 with
  | Some (mid, after) => Some (p1 ++ p2 ++ mid, after)
  | None => None
  end.

(* the  while True: k = pat.find('-', k, j) ...  loop: split [stuff] at the
   hyphens that form ranges.  [skip] = how many more characters must be passed
   before a '-' counts (k starts at i+1, or i+2 after '!'; after a range hyphen
   at h the next search starts at h+3).  [cur] is the current chunk, reversed;
   [acc] the finished chunks, reversed.  At the end an empty last chunk is
   folded into the previous one as a literal '-'  (chunks[-1] += '-'). *)
Fixpoint chunks_aux (s : str) (cur : str) (skip : nat) (acc : list str) : list str :=
  match s with
  | [] => match cur with
          | [] => match acc with
                  | [] => []
                  | a :: acc' => rev ((a ++ [cHY]) :: acc')
                  end
          | _ => rev (rev cur :: acc)
          end
  | c :: s' =>
      match skip with
      | O => if c =? cHY then chunks_aux s' [] 2 (rev cur :: acc)
             else chunks_aux s' (c :: cur) 0 acc
      | S k => chunks_aux s' (c :: cur) k acc
      end
  end.

Definition chunks_of (stuff : str) : list str :=
  let neg0 := match stuff with c :: _ => c =? cBANG | [] => false end in
  chunks_aux stuff [] (if neg0 then 2 else 1) [].

(* "Remove empty ranges":  for k in range(len(chunks)-1, 0, -1):
       if chunks[k-1][-1] > chunks[k][0]:
           chunks[k-1] = chunks[k-1][:-1] + chunks[k][1:]; del chunks[k]     *)
Fixpoint merge_chunks (cs : list str) : list str :=
  match cs with
  | [] => []
  | c0 :: rest =>
      match merge_chunks rest with
      | [] => [c0]
      | c1 :: more =>
          if hd 0 c1 <? last c0 0
          then (removelast c0 ++ tl c1) :: more
          else c0 :: c1 :: more
      end
  end.

(* meaning of '-'.join(chunks) as a regex set body: every character of every
   chunk is a member, and the last character of a chunk and the first of the
   next chunk delimit a range (the escapes added by translate only keep the
   regex parser from reading \ - & ~ | ^ [ specially) *)
Fixpoint chunk_items (cs : list str) : list (N * N) :=
  match cs with
  | [] => []
  | c :: rest =>
      map (fun x => (x, x)) c ++
      match rest with
      | [] => []
      | d :: _ => (last c 0, hd 0 d) :: chunk_items rest
      end
  end.

Definition class_tok (stuff : str) : tok :=
  let chunks := if existsb (N.eqb cHY) stuff then merge_chunks (chunks_of stuff)
                else [stuff] in
  (* if not stuff: (?!)   elif stuff == '!': .   elif stuff[0]=='!': [^...] else [...] *)
  match chunks with
  | (c :: c0) :: rest => if c =? cBANG then TSet true (chunk_items (c0 :: rest))
                         else TSet false (chunk_items chunks)
  | _ => TSet false (chunk_items chunks)
  end.

(* ---- the main loop of translate -------------------------------------------- *)
Fixpoint translate_aux (fuel : nat) (pat : str) (prev_star : bool) : list tok :=
  match fuel with
  | O => []
  | S f =>
      match pat with
      | [] => []
      | c :: rest =>
          if c =? cSTAR then
            (if prev_star then translate_aux f rest true
             else TStar :: translate_aux f rest true)
          else if c =? cQM then TAny :: translate_aux f rest false
          else if c =? cLBR then
            match find_close rest with
            | None => TLit cLBR :: translate_aux f rest false
            | Some (stuff, after) => class_tok stuff :: translate_aux f after false
            end
          else TLit c :: translate_aux f rest false
      end
  end.

Definition translate (pat : str) : list tok := translate_aux (length pat) pat false.

(* ---- matching: the whole name against the whole token list ----------------- *)
Fixpoint gmatch (p : list tok) (s : str) : bool :=
  match p with
  | [] => match s with [] => true | _ => false end
  | TStar :: p' =>
      (fix star (s : str) : bool :=
         gmatch p' s || match s with [] => false | _ :: s' => star s' end) s
  | t :: p' =>
      match s with
      | [] => false
      | c :: s' => tok_ok t c && gmatch p' s'
      end
  end.

(* fnmatch.fnmatch(name, pat) on POSIX *)
Definition fnmatch (name pat : str) : bool := gmatch (translate pat) name.

(* declarative meaning of a token list: the language it denotes *)
Inductive gm : list tok -> str -> Prop :=
| gm_nil : gm [] []
| gm_one : forall t p c s, is_star t = false -> tok_ok t c = true -> gm p s ->
                           gm (t :: p) (c :: s)
| gm_star : forall p s1 s2, gm p s2 -> gm (TStar :: p) (s1 ++ s2).

(* a pattern without glob metacharacters *)
Definition plain_char (c : N) : bool :=
  negb (c =? cSTAR) && negb (c =? cQM) && negb (c =? cLBR).
Definition plain (pat : str) : bool := forallb plain_char pat.
