(* Model/WT.v -- C09: the abstract specification machine "a working tree is a
   versioned file system", one machine with a per-format parameter.

   State = { disk ; versioned tree ; basis tree }.  The disk is a flat map
   path -> node (file bytes+exec | directory).  For the dirstate format
   ([Bzr]) the versioned tree is an inventory  id -> (path, stored kind)  and
   the basis  id -> entry ; for git ([Git]) the versioned tree is the index (a
   set of file paths, directories are implied) and file identity is the path.

   What each definition models (breezy, /repo):
     bzr_add / bzr_mkdir      MutableInventoryTree.add + DirStateWorkingTree._add, InventoryWorkingTree.mkdir
     bzr_remove               InventoryWorkingTree.remove (keep_files=True | keep_files=False, force=True)
     bzr_rename_one           DirStateWorkingTree.rename_one -> InventoryWorkingTree.rename_one,
                              _determine_mv_mode, _move_entry
     bzr_move                 DirStateWorkingTree.move (one source path)
     bzr_commit / *_revert    MutableTree.commit / WorkingTree.revert(backups=False) (transform._alter_files
                              + conflict resolution, through [revert_disk])
     bzr_status               InterDirStateTree.iter_changes(basis -> working tree)
     git_*                    MutableGitIndexTree.add/rename_one/move, GitWorkingTree.remove/mkdir,
                              snapshot_workingtree, InterGitTrees.iter_changes + changes_from_git_changes
   A step returns [Done status state] (status = ok or the exception class the
   real API raises, exactly where it refuses) or [Stuck]: the situation is
   outside the modelled domain (listed in notes/C09.md; the run stops there).
   No proofs here. *)
From Coq Require Import NArith List Bool String.
From BV Require Import Lib.Obs.
Import ListNotations.
Open Scope list_scope.

(* ------------------------------------------------------------------ *)
(* paths                                                               *)

Definition name := list N.            (* bytes of one path segment *)
Definition path := list name.         (* [] is the tree root *)

Definition name_eqb (a b : name) : bool := list_eqb N.eqb a b.
Definition path_eqb (a b : path) : bool := list_eqb name_eqb a b.

Fixpoint under (p q : path) : bool :=        (* q is p or lies below p *)
  match p, q with
  | [], _ => true
  | a :: p', b :: q' => name_eqb a b && under p' q'
  | _ :: _, [] => false
  end.
Definition strictly_under (p q : path) : bool := under p q && negb (path_eqb p q).

Definition parent (p : path) : path := removelast p.
Definition lastname (p : path) : name := last p [].
Definition reroot (p q r : path) : path := q ++ skipn (List.length p) r.   (* r below p  |->  below q *)
Definition moved (p : path) : path :=
  parent p ++ [lastname p ++ [46; 109; 111; 118; 101; 100]%N].          (* name ++ ".moved" *)

Fixpoint join_path (p : path) : list N :=
  match p with
  | [] => []
  | [a] => a
  | a :: r => a ++ [47%N] ++ join_path r
  end.

Fixpoint assoc {A B} (eqb : A -> A -> bool) (k : A) (l : list (A * B)) : option B :=
  match l with
  | [] => None
  | (k', v) :: r => if eqb k k' then Some v else assoc eqb k r
  end.
Definition memp (p : path) (l : list path) : bool := existsb (path_eqb p) l.

(* ------------------------------------------------------------------ *)
(* the disk                                                            *)

Inductive node := NFile (c : list N) (x : bool) | NDir.
Definition disk := list (path * node).

Definition dl (d : disk) (p : path) : option node :=
  match p with [] => Some NDir | _ => assoc path_eqb p d end.
Definition exists_ (d : disk) (p : path) : bool := match dl d p with Some _ => true | None => false end.
Definition isdir (d : disk) (p : path) : bool := match dl d p with Some NDir => true | _ => false end.
Definition isfile (d : disk) (p : path) : bool := match dl d p with Some (NFile _ _) => true | _ => false end.

Inductive err :=
| ENoSuchFile | ENotVersioned | EFileExists | EFileNotFound | ENotADirectory | EIsADirectory
| EMoveFailed | ERenameFailed | EFilesExist | EInconsistentDelta
| ENotAFile | ERoot.

(* errno of touching [p] when its parent is not a directory *)
Definition parent_err (d : disk) (p : path) : option err :=
  let par := parent p in
  match dl d par with
  | Some NDir => None
  | Some (NFile _ _) => Some ENotADirectory
  | None => if existsb (fun i => isfile d (firstn i par)) (seq 1 (List.length par))
            then Some ENotADirectory else Some EFileNotFound
  end.

Definition d_rmtree (d : disk) (p : path) : disk := filter (fun e => negb (under p (fst e))) d.
Definition d_rename (d : disk) (p q : path) : disk :=
  map (fun e => if under p (fst e) then (reroot p q (fst e), snd e) else e) d.
Definition d_set (d : disk) (p : path) (n : node) : disk :=
  (p, n) :: filter (fun e => negb (path_eqb (fst e) p)) d.

(* os.rename(p, q) with p existing and q absent *)
Definition os_rename_err (d : disk) (p q : path) : option err :=
  match parent_err d q with
  | Some e => Some e
  | None => if under p q then Some EMoveFailed else None        (* EINVAL *)
  end.

(* ------------------------------------------------------------------ *)
(* trees and the state                                                 *)

Inductive kind := KF | KD.
Definition kind_eqb (a b : kind) : bool := match a, b with KF, KF | KD, KD => true | _, _ => false end.
Definition okind_eqb (a b : option kind) : bool :=
  match a, b with Some x, Some y => kind_eqb x y | None, None => true | _, _ => false end.

(* an entry of a tree as the comparison sees it; tkind = None: listed but missing on disk *)
Record tentry := { tpath : path; tkind : option kind; tcontent : list N; texec : bool }.
Definition tentry_eqb (a b : tentry) : bool :=
  path_eqb (tpath a) (tpath b) && okind_eqb (tkind a) (tkind b) &&
  list_eqb N.eqb (tcontent a) (tcontent b) && Bool.eqb (texec a) (texec b).

Inductive format := Bzr | Git.

Record state := {
  sdisk : disk;
  sinv : list (nat * (path * kind));   (* Bzr: working inventory, id -> (path, stored kind); root = id 0 *)
  sindex : list path;                  (* Git: index (files only) *)
  sbasis : list (nat * tentry);        (* Bzr: basis tree by file id ([] = null tree) *)
  gbasis : list (path * tentry);       (* Git: files of the basis tree *)
  scommitted : bool;                   (* Git: the basis has a root *)
  snext : nat                          (* Bzr: next fresh file id *)
}.
Definition init_state : state :=
  {| sdisk := []; sinv := [(0, ([], KD))]; sindex := []; sbasis := []; gbasis := [];
     scommitted := false; snext := 1 |}.

Definition with_disk (s : state) (d : disk) : state :=
  {| sdisk := d; sinv := sinv s; sindex := sindex s; sbasis := sbasis s; gbasis := gbasis s;
     scommitted := scommitted s; snext := snext s |}.
Definition with_inv (s : state) (i : list (nat * (path * kind))) (n : nat) : state :=
  {| sdisk := sdisk s; sinv := i; sindex := sindex s; sbasis := sbasis s; gbasis := gbasis s;
     scommitted := scommitted s; snext := n |}.
Definition with_index (s : state) (i : list path) : state :=
  {| sdisk := sdisk s; sinv := sinv s; sindex := i; sbasis := sbasis s; gbasis := gbasis s;
     scommitted := scommitted s; snext := snext s |}.

Inductive status := SOk | SErr (e : err).
Inductive result := Done (st : status) (s : state) | Stuck.
Definition refuse (e : err) (s : state) : result := Done (SErr e) s.
Definition ok (s : state) : result := Done SOk s.

(* ------------------------------------------------------------------ *)
(* operations on the disk alone (same for both formats)                *)

Definition d_mkdir (d : disk) (p : path) : err + disk :=
  if exists_ d p then inl EFileExists
  else match parent_err d p with Some e => inl e | None => inr (d_set d p NDir) end.

(* WorkingTree.put_file_bytes_non_atomic: open(abspath, "wb") *)
Definition op_put (s : state) (p : path) (c : list N) : result :=
  match dl (sdisk s) p with
  | Some NDir => refuse EIsADirectory s
  | Some (NFile _ x) => ok (with_disk s (d_set (sdisk s) p (NFile c x)))
  | None => match parent_err (sdisk s) p with
            | Some e => refuse e s
            | None => ok (with_disk s (d_set (sdisk s) p (NFile c false)))
            end
  end.
Definition op_chmod (s : state) (p : path) (x : bool) : result :=
  match dl (sdisk s) p with
  | Some (NFile c _) => ok (with_disk s (d_set (sdisk s) p (NFile c x)))
  | _ => refuse ENotAFile s
  end.
Definition op_osrm (s : state) (p : path) : result :=
  match p with
  | [] => refuse EFileNotFound s
  | _ => if exists_ (sdisk s) p then ok (with_disk s (d_rmtree (sdisk s) p)) else refuse EFileNotFound s
  end.
Definition op_osmkdir (s : state) (p : path) : result :=
  match d_mkdir (sdisk s) p with inl e => refuse e s | inr d => ok (with_disk s d) end.

(* ------------------------------------------------------------------ *)
(* Bzr: the inventory                                                  *)

Definition inv := list (nat * (path * kind)).
Fixpoint path2id (i : inv) (p : path) : option nat :=
  match i with
  | [] => None
  | (k, (q, _)) :: r => if path_eqb q p then Some k else path2id r p
  end.
Definition id2entry (i : inv) (k : nat) : option (path * kind) := assoc Nat.eqb k i.
Fixpoint bpath2id (b : list (nat * tentry)) (p : path) : option nat :=
  match b with
  | [] => None
  | (k, e) :: r => if path_eqb (tpath e) p then Some k else bpath2id r p
  end.

Definition node_kind (n : node) : kind := match n with NFile _ _ => KF | NDir => KD end.

(* DirState.add's parent check as exercised through DirStateWorkingTree._add *)
Definition bzr_parent_check (s : state) (p : path) : option (option err) :=   (* None = fine; Some None = Stuck *)
  match path2id (sinv s) (parent p) with
  | None =>
      if existsb (fun e => match tpath (snd e) with
                           | [] => false
                           | q => path_eqb (parent q) (parent p)
                           end) (sbasis s)
      then Some None                   (* candidate finding C09-bzr-add-under-removed: not modelled *)
      else Some (Some ENotVersioned)
  | Some par =>
      match id2entry (sinv s) par with
      | Some (_, KD) => None
      | _ => Some None                 (* parent's stored kind is file: not modelled *)
      end
  end.

Definition bzr_add_entry (s : state) (p : path) (k : kind) : result :=
  match bzr_parent_check s p with
  | Some None => Stuck
  | Some (Some e) => refuse e s
  | None => ok (with_inv s (sinv s ++ [(snext s, (p, k))]) (S (snext s)))
  end.

Definition bzr_add (s : state) (p : path) : result :=
  match dl (sdisk s) p with
  | None => refuse ENoSuchFile s
  | Some n =>
      match path2id (sinv s) p with
      | Some _ => ok s
      | None => bzr_add_entry s p (node_kind n)
      end
  end.

Definition bzr_mkdir (s : state) (p : path) : result :=
  match d_mkdir (sdisk s) p with
  | inl e => refuse e s
  | inr d =>
      let s1 := with_disk s d in
      match path2id (sinv s) p with
      | Some _ => ok s1
      | None => bzr_add_entry s1 p KD       (* a refusal here leaves the new directory on disk *)
      end
  end.

Definition bzr_remove (s : state) (p : path) (force : bool) : result :=
  match p with
  | [] => ok s
  | _ =>
      let d := if force && exists_ (sdisk s) p then d_rmtree (sdisk s) p else sdisk s in
      ok (with_inv (with_disk s d) (filter (fun e => negb (under p (fst (snd e)))) (sinv s)) (snext s))
  end.

Definition inv_rename (i : inv) (old new : path) : inv :=
  map (fun e => if under old (fst (snd e)) then (fst e, (reroot old new (fst (snd e)), snd (snd e))) else e) i.

(* InventoryWorkingTree.rename_one *)
Definition bzr_rename_one (s : state) (p q : path) : result :=
  match p, q with
  | [], _ | _, [] => refuse ERoot s
  | _, _ =>
    (* the entry to rename: by path in the working inventory, else by path in the basis *)
    let found : option (option (nat * inv)) :=       (* None: refuse; Some None: stuck *)
      match path2id (sinv s) p with
      | Some k => Some (Some (k, sinv s))
      | None =>
          match bpath2id (sbasis s) p with
          | None => None
          | Some k =>
              match id2entry (sinv s) k with
              | Some _ => Some (Some (k, sinv s))       (* same id, now at another path *)
              | None =>
                  (* put the basis entry back: from_inv.add(entry.copy()) *)
                  match bpath2id (sbasis s) (parent p) with
                  | None => Some None
                  | Some bpar =>
                      match id2entry (sinv s) bpar with
                      | None => None                    (* InconsistentDelta: parent missing *)
                      | Some (pp, _) =>
                          if path_eqb pp (parent p)
                          then match assoc Nat.eqb k (sbasis s) with
                               | Some be => Some (Some (k, sinv s ++
                                              [(k, (p, match tkind be with Some KD => KD | _ => KF end))]))
                               | None => Some None
                               end
                          else Some None
                      end
                  end
              end
          end
      end in
    match found with
    | None =>
        match bpath2id (sbasis s) p with
        | None => refuse ERenameFailed s
        | Some _ => refuse EInconsistentDelta s
        end
    | Some None => Stuck
    | Some (Some (fid, i1)) =>
        match id2entry i1 fid with
        | None | Some ([], _) => Stuck       (* (the root is never renamed) *)
        | Some (cur, _) =>
          match path2id i1 q with
          | Some _ => refuse EMoveFailed s
          | None =>
            let fe := exists_ (sdisk s) p in
            let te := exists_ (sdisk s) q in
            if negb fe && negb te then refuse ERenameFailed s
            else if fe && te then refuse EFilesExist s
            else
              match path2id i1 (parent q) with
              | None => refuse EMoveFailed s
              | Some _ =>
                  if under cur q then
                    (if fe && path_eqb cur p then refuse EMoveFailed s else Stuck)
                  else if fe then
                    match os_rename_err (sdisk s) p q with
                    | Some _ => refuse EMoveFailed s     (* BzrMoveFailedError(from, to, e.strerror) *)
                    | None => ok (with_inv (with_disk s (d_rename (sdisk s) p q)) (inv_rename i1 cur q) (snext s))
                    end
                  else ok (with_inv s (inv_rename i1 cur q) (snext s))
              end
          end
        end
    end
  end.

(* DirStateWorkingTree.move([p], d) *)
Definition bzr_move (s : state) (p d : path) : result :=
  match p with
  | [] => refuse ERoot s
  | _ =>
    match path2id (sinv s) d with
    | None => refuse EMoveFailed s
    | Some did =>
      if negb (isdir (sdisk s) d) then refuse EMoveFailed s else
      match id2entry (sinv s) did with
      | Some (_, KD) =>
        match path2id (sinv s) p with
        | None => refuse EMoveFailed s
        | Some _ =>
          let q := d ++ [lastname p] in
          match path2id (sinv s) q with
          | Some _ => refuse EMoveFailed s
          | None =>
            let fe := exists_ (sdisk s) p in
            let te := exists_ (sdisk s) q in
            if negb te && negb fe then refuse ERenameFailed s
            else if te && fe then refuse EFilesExist s
            else if under p q then (if fe then refuse EMoveFailed s else Stuck)
            else if fe then
              match os_rename_err (sdisk s) p q with
              | Some _ => refuse EMoveFailed s
              | None => ok (with_inv (with_disk s (d_rename (sdisk s) p q)) (inv_rename (sinv s) p q) (snext s))
              end
            else ok (with_inv s (inv_rename (sinv s) p q) (snext s))
          end
        end
      | _ => refuse EMoveFailed s
      end
    end
  end.

(* the working tree as the comparison sees it *)
Definition view_entry (d : disk) (p : path) : tentry :=
  match dl d p with
  | None => {| tpath := p; tkind := None; tcontent := []; texec := false |}
  | Some (NFile c x) => {| tpath := p; tkind := Some KF; tcontent := c; texec := x |}
  | Some NDir => {| tpath := p; tkind := Some KD; tcontent := []; texec := false |}
  end.
Definition bzr_view (s : state) : list (nat * tentry) :=
  map (fun e => (fst e, view_entry (sdisk s) (fst (snd e)))) (sinv s).

(* commit: entries that are missing on disk (and everything below them) are dropped *)
Definition bzr_commit (s : state) : result :=
  let v := bzr_view s in
  let missing := map (fun e => tpath (snd e))
                     (filter (fun e => match tkind (snd e) with None => true | _ => false end) v) in
  let keep := filter (fun e => negb (existsb (fun m => under m (tpath (snd e))) missing)) v in
  ok {| sdisk := sdisk s;
        sinv := map (fun e => (fst e, (tpath (snd e), match tkind (snd e) with Some KD => KD | _ => KF end))) keep;
        sindex := sindex s; sbasis := keep; gbasis := gbasis s; scommitted := true; snext := snext s |}.

(* ------------------------------------------------------------------ *)
(* revert on the disk: transform._alter_files + conflict resolution     *)

Definition tnode (e : tentry) : node :=
  match tkind e with Some KD => NDir | _ => NFile (tcontent e) (texec e) end.

Section RevertDisk.
  Variable d : disk.
  Variable bodies : list (path * path).   (* on-disk body of an entry present in both trees -> its basis path *)
  Variable changed : list path.           (* bodies that are deleted and re-created from the basis *)
  Variable added_dirs : list path.        (* directories revert tries to delete (newly added) *)
  Variable bnodes : disk.                 (* what the basis puts on disk *)
  Variable dirdir_stuck : bool.           (* Git: an unversioned directory in the way of a basis directory *)

  (* final path of the existing disk entry at [cur ++ rest]; the flag records a dir/dir collision *)
  Fixpoint final_aux (cur fin : path) (bad : bool) (rest : path) : path * bool :=
    match rest with
    | [] => (fin, bad)
    | n :: rest' =>
        let cur' := cur ++ [n] in
        match assoc path_eqb cur' bodies with
        | Some bp => final_aux cur' bp bad rest'
        | None =>
            let q := fin ++ [n] in
            match assoc path_eqb q bnodes with
            | Some bn =>
                let clash := match bn, dl d cur' with NDir, Some NDir => true | _, _ => false end in
                final_aux cur' (moved q) (bad || clash) rest'
            | None => final_aux cur' q bad rest'
            end
        end
    end.
  Definition final (p : path) : path * bool := final_aux [] [] false p.

  Definition revert_disk : option disk :=
    if existsb (fun p => isdir d p && existsb (fun e => strictly_under p (fst e)) d) changed then None else
    let others := filter (fun e => match assoc path_eqb (fst e) bodies with Some _ => false | None => true end) d in
    let survives (p : path) : bool :=
      negb (memp p added_dirs) ||
      existsb (fun e => strictly_under p (fst e) && negb (memp (fst e) added_dirs)) others in
    let kept := filter (fun e => survives (fst e)) others in
    let placed := map (fun e => (fst (final (fst e)), snd e)) kept in
    if dirdir_stuck && existsb (fun e => snd (final (fst e))) kept then None else
    let out := bnodes ++ filter (fun e => match assoc path_eqb (fst e) bnodes with Some _ => false | None => true end) placed in
    if (fix nodup (l : list path) : bool :=
          match l with [] => true | x :: r => negb (memp x r) && nodup r end) (map fst (bnodes ++ placed))
    then Some out else None.
End RevertDisk.

Definition bzr_revert (s : state) : result :=
  let v := bzr_view s in
  let both := flat_map (fun e => match tpath (snd e), assoc Nat.eqb (fst e) (sbasis s), tkind (snd e) with
                                 | _ :: _, Some b, Some _ => [(snd e, b)]
                                 | _, _, _ => []
                                 end) v in
  let bodies := map (fun vb => (tpath (fst vb), tpath (snd vb))) both in
  let changed := map (fun vb => tpath (fst vb))
                     (filter (fun vb => negb (okind_eqb (tkind (fst vb)) (tkind (snd vb))) ||
                                        negb (list_eqb N.eqb (tcontent (fst vb)) (tcontent (snd vb)))) both) in
  let added_dirs := flat_map (fun e => match assoc Nat.eqb (fst e) (sbasis s), tkind (snd e) with
                                       | None, Some KD => [tpath (snd e)]
                                       | _, _ => []
                                       end) v in
  let bnodes := flat_map (fun e => match tpath (snd e) with [] => [] | p => [(p, tnode (snd e))] end) (sbasis s) in
  match revert_disk (sdisk s) bodies changed added_dirs bnodes false with
  | None => Stuck
  | Some d' =>
      let i := map (fun e => (fst e, (tpath (snd e), match tkind (snd e) with Some KD => KD | _ => KF end))) (sbasis s) in
      let i' := match assoc Nat.eqb 0 i with Some _ => i | None => (0, ([], KD)) :: i end in
      ok {| sdisk := d'; sinv := i'; sindex := sindex s; sbasis := sbasis s; gbasis := gbasis s;
            scommitted := scommitted s; snext := snext s |}
  end.

(* ------------------------------------------------------------------ *)
(* generic tree comparison: [changes a b] lists every key whose entries  *)
(* differ; the format-specific status rows are renderings of it          *)

Section Changes.
  Context {K E : Type}.
  Variable keqb : K -> K -> bool.
  Variable eeqb : E -> E -> bool.
  Definition oeeqb (a b : option E) : bool :=
    match a, b with Some x, Some y => eeqb x y | None, None => true | _, _ => false end.
  Definition keys_union (a b : list (K * E)) : list K :=
    map fst a ++ map fst (filter (fun e => match assoc keqb (fst e) a with Some _ => false | None => true end) b).
  Definition changes (a b : list (K * E)) : list (K * option E * option E) :=
    flat_map (fun k => let x := assoc keqb k a in let y := assoc keqb k b in
                       if oeeqb x y then [] else [(k, x, y)]) (keys_union a b).
  Definition apply_change (m : list (K * E)) (c : K * option E * option E) : list (K * E) :=
    let k := fst (fst c) in
    let m' := filter (fun e => negb (keqb (fst e) k)) m in
    match snd c with Some y => (k, y) :: m' | None => m' end.
  Definition apply_changes (cs : list (K * option E * option E)) (m : list (K * E)) : list (K * E) :=
    fold_left apply_change cs m.
End Changes.

(* Bzr: what iter_changes compares per file id: parent id, name, kind, text, exec *)
Record pentry := { pparent : option (option nat); pname : name; pent : tentry }.
Definition pentry_eqb (a b : pentry) : bool :=
  (match pparent a, pparent b with
   | None, None => true
   | Some x, Some y => (match x, y with Some i, Some j => Nat.eqb i j | None, None => true | _, _ => false end)
   | _, _ => false
   end) && name_eqb (pname a) (pname b) &&
  okind_eqb (tkind (pent a)) (tkind (pent b)) && list_eqb N.eqb (tcontent (pent a)) (tcontent (pent b)) &&
  Bool.eqb (texec (pent a)) (texec (pent b)).
Definition ptree (t : list (nat * tentry)) : list (nat * pentry) :=
  map (fun e => (fst e, {| pparent := match tpath (snd e) with
                                      | [] => None
                                      | p => Some (bpath2id t (parent p))
                                      end;
                           pname := lastname (tpath (snd e)); pent := snd e |})) t.
Definition bzr_status (s : state) : list (nat * option pentry * option pentry) :=
  changes Nat.eqb pentry_eqb (ptree (sbasis s)) (ptree (bzr_view s)).

(* ------------------------------------------------------------------ *)
(* Git                                                                 *)

Fixpoint prefixes (p : path) : list path :=     (* proper, non-empty prefixes *)
  match p with
  | [] => []
  | a :: r => match r with [] => [] | _ => [a] :: map (cons a) (prefixes r) end
  end.
Fixpoint nodup_paths (l : list path) : list path :=
  match l with [] => [] | x :: r => if memp x r then nodup_paths r else x :: nodup_paths r end.
Definition g_dirs (ps : list path) : list path := nodup_paths (flat_map prefixes ps).
Definition g_versioned (ix : list path) (p : path) : bool :=
  match p with [] => true | _ => memp p ix || memp p (g_dirs ix) end.
Definition ix_add (ix : list path) (p : path) : list path := if memp p ix then ix else ix ++ [p].
Definition ix_del (ix : list path) (p : path) : list path := filter (fun q => negb (path_eqb q p)) ix.

(* an index entry below something that is a file on disk: such entries read as missing
   (snapshot_workingtree catches ENOTDIR since 1cfde6e); revert cannot restore them *)
Definition g_notadir (s : state) : bool :=
  existsb (fun p => existsb (fun q => isfile (sdisk s) q) (prefixes p)) (sindex s).

Definition git_add (s : state) (p : path) : result :=
  match dl (sdisk s) p with
  | None => refuse ENoSuchFile s
  | Some (NFile _ _) => ok (with_index s (ix_add (sindex s) p))
  | Some NDir => ok s
  end.
Definition git_mkdir := op_osmkdir.
Definition git_remove (s : state) (p : path) (force : bool) : result :=
  match p with
  | [] => ok s
  | _ =>
      let d := if force && exists_ (sdisk s) p then d_rmtree (sdisk s) p else sdisk s in
      ok (with_index (with_disk s d) (filter (fun q => negb (under p q)) (sindex s)))
  end.

Definition gb_versioned (s : state) (p : path) : bool :=
  match p with [] => true | _ => g_versioned (map fst (gbasis s)) p end.

(* MutableGitIndexTree.rename_one *)
Definition git_rename_one (s : state) (p q : path) : result :=
  match p, q with
  | [], _ | _, [] => refuse ERoot s
  | _, _ =>
    let d := sdisk s in
    let ix := sindex s in
    let after := negb (exists_ d p) && exists_ d q && negb (g_versioned ix q) in
    let finish (d' : disk) (k : kind) : result :=
      match k with
      | KF => ok (with_index (with_disk s d') (ix_add (ix_del ix p) q))
      | KD => ok (with_index (with_disk s d')
                    (nodup_paths (map (fun r => if strictly_under p r then reroot p q r else r) ix)))
      end in
    if after then
      if gb_versioned s q then refuse EMoveFailed s
      else finish d (if isdir d q then KD else KF)
    else
      let exc := if exists_ d q then EMoveFailed else ERenameFailed in
      if g_versioned ix q then refuse exc s
      else if negb (exists_ d p) then refuse EMoveFailed s
      else
        let k := if isdir d p then KD else KF in
        if negb (g_versioned ix p) && negb (isdir d p) then refuse exc s
        else if exists_ d q then refuse EFilesExist s
        else if negb (isdir d p) && negb (memp p ix) then refuse EMoveFailed s
        else match os_rename_err d p q with
             | Some _ => refuse EMoveFailed s          (* every OSError of os.rename is reported this way *)
             | None => finish (d_rename d p q) k
             end
  end.
Definition git_move (s : state) (p dd : path) : result :=
  match p with
  | [] => refuse ERoot s
  | _ => if negb (isdir (sdisk s) dd) then refuse EMoveFailed s
         else git_rename_one s p (dd ++ [lastname p])
  end.

Definition dir_entry (p : path) : tentry := {| tpath := p; tkind := Some KD; tcontent := []; texec := false |}.
(* snapshot_workingtree: index entries as they are on disk + implied directories + the root *)
Definition git_snapshot (s : state) : list (path * tentry) :=
  let dirs := g_dirs (sindex s) in
  let files := map (fun p => (p, view_entry (sdisk s) p)) (filter (fun p => negb (memp p dirs)) (sindex s)) in
  ([], dir_entry []) :: files ++ map (fun p => (p, dir_entry p)) dirs.
Definition git_basis_tree (s : state) : list (path * tentry) :=
  (if scommitted s then [([], dir_entry [])] else []) ++ gbasis s ++
  map (fun p => (p, dir_entry p)) (g_dirs (map fst (gbasis s))).
Definition git_status (s : state) : list (path * option tentry * option tentry) :=
  changes path_eqb tentry_eqb (git_basis_tree s) (git_snapshot s).

Definition is_file_entry (e : tentry) : bool := match tkind e with Some KF => true | _ => false end.

(* texts dulwich's rename/copy detection would pair up: an added (or changed-to) non-directory entry and a
   source file (deleted, kind-changed or modified; only modified ones when [modified_only]) with equal text *)
Definition git_pairs (s : state) (modified_only : bool) : bool :=
  let rows := git_status s in
  let adds := flat_map (fun r => match snd (fst r), snd r with
                                 | None, Some y => if okind_eqb (tkind y) (Some KD) then [] else [tcontent y]
                                 | Some x, Some y => if okind_eqb (tkind y) (Some KD) || okind_eqb (tkind x) (tkind y)
                                                     then [] else [tcontent y]
                                 | _, None => []
                                 end) rows in
  let srcs := flat_map (fun r => match snd (fst r) with
                                 | Some x => if okind_eqb (tkind x) (Some KF) &&
                                                (negb modified_only ||
                                                 match snd r with Some y => okind_eqb (tkind y) (Some KF) | None => false end)
                                             then [tcontent x] else []
                                 | None => []
                                 end) rows in
  existsb (fun c => existsb (list_eqb N.eqb c) srcs) adds.

Definition git_commit (s : state) : result :=
  let files := filter (fun e => is_file_entry (snd e)) (map (fun p => (p, view_entry (sdisk s) p)) (sindex s)) in
  let ix := filter (fun p => isfile (sdisk s) p ||
                             (isdir (sdisk s) p && negb (memp p (map fst (gbasis s))))) (sindex s) in
  ok {| sdisk := sdisk s; sinv := sinv s; sindex := ix; sbasis := sbasis s; gbasis := files;
        scommitted := true; snext := snext s |}.

Definition sub_tree (t : list (path * tentry)) (p : path) : list (path * option kind * list N * bool) :=
  map (fun e => (skipn (List.length p) (fst e), tkind (snd e), tcontent (snd e), texec (snd e)))
      (filter (fun e => strictly_under p (fst e)) t).
Definition sub_entry_eqb (a b : path * option kind * list N * bool) : bool :=
  path_eqb (fst (fst (fst a))) (fst (fst (fst b))) && okind_eqb (snd (fst (fst a))) (snd (fst (fst b))) &&
  list_eqb N.eqb (snd (fst a)) (snd (fst b)) && Bool.eqb (snd a) (snd b).
(* same set of entries (both lists have distinct paths) *)
Definition sub_tree_eqb (a b : list (path * option kind * list N * bool)) : bool :=
  Nat.eqb (List.length a) (List.length b) && forallb (fun x => existsb (sub_entry_eqb x) b) a.

(* nothing dulwich's rename/copy detection could pair up *)
Definition git_revert_guard (s : state) : bool :=
  let rows := git_status s in
  let is_f (o : option tentry) := match o with Some e => negb (okind_eqb (tkind e) (Some KD)) | None => false end in
  let is_d (o : option tentry) := match o with Some e => okind_eqb (tkind e) (Some KD) | None => false end in
  let kind_changed (r : path * option tentry * option tentry) :=
    match snd (fst r), snd r with Some a, Some b => negb (okind_eqb (tkind a) (tkind b)) | _, _ => false end in
  let add_d_like := existsb (fun r =>
        is_d (snd r) && (match snd (fst r) with None => true | _ => false end || kind_changed r) &&
        existsb (fun be => okind_eqb (tkind (snd be)) (Some KD) &&
                           sub_tree_eqb (sub_tree (git_basis_tree s) (fst be)) (sub_tree (git_snapshot s) (fst (fst r))))
                (git_basis_tree s)) rows in
  negb (git_pairs s false) && negb add_d_like.

Definition git_revert (s : state) : result :=
  if g_notadir s then Stuck else          (* finding C09-git-revert-notadir: TransformRenameFailed *)
  if negb (git_revert_guard s) then Stuck else
  let v := git_snapshot s in
  let b := git_basis_tree s in
  let both := flat_map (fun e => match fst e, assoc path_eqb (fst e) b, tkind (snd e) with
                                 | _ :: _, Some be, Some _ => [(snd e, be)]
                                 | _, _, _ => []
                                 end) v in
  let bodies := map (fun vb => (tpath (fst vb), tpath (snd vb))) both in
  let changed := map (fun vb => tpath (fst vb))
                     (filter (fun vb => negb (okind_eqb (tkind (fst vb)) (tkind (snd vb))) ||
                                        negb (list_eqb N.eqb (tcontent (fst vb)) (tcontent (snd vb)))) both) in
  let added_dirs := flat_map (fun e => match fst e, assoc path_eqb (fst e) b, tkind (snd e) with
                                       | _ :: _, None, Some KD => [fst e]
                                       | _, _, _ => []
                                       end) v in
  let bnodes := flat_map (fun e => match fst e with [] => [] | p => [(p, tnode (snd e))] end) b in
  match revert_disk (sdisk s) bodies changed added_dirs bnodes true with
  | None => Stuck
  | Some d' => ok (with_index (with_disk s d') (map fst (gbasis s)))
  end.

(* ------------------------------------------------------------------ *)
(* the machine                                                         *)

Inductive op :=
| OAdd (p : path) | OMkdir (p : path) | ORemoveKeep (p : path) | ORemoveForce (p : path)
| ORename (p q : path) | OMove (p d : path) | OPut (p : path) (c : list N) | OChmod (p : path) (x : bool)
| OOsRm (p : path) | OOsMkdir (p : path) | OCommit | ORevert | OReopen
| OMoveN (ps : list path) (d : path)      (* wt.move([p1; ..], d) *)
| OSmartAdd (p : path).                   (* wt.smart_add([p]); modelled for a regular file below a versioned parent *)

Definition move1 (f : format) (s : state) (p d : path) : result :=
  match f with Bzr => bzr_move s p d | Git => git_move s p d end.
(* one source after the other; a refusal keeps the moves already made *)
Fixpoint move_many (f : format) (s : state) (ps : list path) (d : path) : result :=
  match ps with
  | [] => ok s
  | p :: r => match move1 f s p d with
              | Done SOk s' => move_many f s' r d
              | other => other
              end
  end.
Definition smart_add (f : format) (s : state) (p : path) : result :=
  if isfile (sdisk s) p then
    match f with
    | Git => git_add s p
    | Bzr => match path2id (sinv s) p, bzr_parent_check s p with
             | None, Some _ => Stuck        (* smart_add would version the parents first: not modelled *)
             | _, _ => bzr_add s p
             end
    end
  else Stuck.

Definition step (f : format) (s : state) (o : op) : result :=
  match o with
  | OPut p c => op_put s p c
  | OChmod p x => op_chmod s p x
  | OOsRm p => op_osrm s p
  | OOsMkdir p => op_osmkdir s p
  | OReopen => ok s                      (* the abstract state has no unpersisted part *)
  | OMoveN ps d => move_many f s ps d
  | OSmartAdd p => smart_add f s p
  | _ =>
    match f with
    | Bzr => match o with
             | OAdd p => bzr_add s p
             | OMkdir p => bzr_mkdir s p
             | ORemoveKeep p => bzr_remove s p false
             | ORemoveForce p => bzr_remove s p true
             | ORename p q => bzr_rename_one s p q
             | OMove p d => bzr_move s p d
             | OCommit => bzr_commit s
             | _ => bzr_revert s
             end
    | Git => match o with
             | OAdd p => git_add s p
             | OMkdir p => git_mkdir s p
             | ORemoveKeep p => git_remove s p false
             | ORemoveForce p => git_remove s p true
             | ORename p q => git_rename_one s p q
             | OMove p d => git_move s p d
             | OCommit => git_commit s
             | _ => git_revert s
             end
    end
  end.

(* run an op sequence from a state; a stuck step ends the run *)
Fixpoint run (f : format) (s : state) (ops : list op) : state :=
  match ops with
  | [] => s
  | o :: r => match step f s o with Done _ s' => run f s' r | Stuck => s end
  end.

(* ------------------------------------------------------------------ *)
(* observations (what harness/props/c09.py records after every op)     *)

Fixpoint lex_leb (a b : list N) : bool :=
  match a, b with
  | [], _ => true
  | _ :: _, [] => false
  | x :: a', y :: b' => if N.ltb x y then true else if N.ltb y x then false else lex_leb a' b'
  end.
Section Sort.
  Context {A : Type}.
  Variable leb : A -> A -> bool.
  Fixpoint insert (x : A) (l : list A) : list A :=
    match l with [] => [x] | y :: r => if leb x y then x :: l else y :: insert x r end.
  Definition isort (l : list A) : list A := fold_right insert [] l.
End Sort.

Definition err_name (e : err) : string :=
  match e with
  | ENoSuchFile => "NoSuchFile" | ENotVersioned => "NotVersionedError" | EFileExists => "FileExistsError"
  | EFileNotFound => "FileNotFoundError" | ENotADirectory => "NotADirectoryError"
  | EIsADirectory => "IsADirectoryError" | EMoveFailed => "BzrMoveFailedError"
  | ERenameFailed => "BzrRenameFailedError" | EFilesExist => "RenameFailedFilesExist"
  | EInconsistentDelta => "InconsistentDelta"
  | ENotAFile => "NotAFile" | ERoot => "Root"
  end%string.
Definition ostatus (st : status) : obs := match st with SOk => OT "ok" | SErr e => OE (err_name e) end.
Definition opath (p : path) : obs := OB (join_path p).
Definition okind (k : option kind) : obs :=
  match k with Some KF => OT "file" | Some KD => OT "directory" | None => ON end.
Definition orow (p : path) (e : tentry) : obs :=
  OL [opath p; match tkind e with Some KF => OT "file" | Some KD => OT "directory" | None => OT "missing" end;
      OB (tcontent e); obool (texec e)].

(* one iter_changes row: [old path, new path, changed_content, versioned x2, kind x2, exec x2] *)
Definition row_key (r : option path * option path * obs) : list N * list N :=
  (match fst (fst r) with Some p => join_path p | None => [] end,
   match snd (fst r) with Some p => join_path p | None => [] end).
Definition row_leb (a b : option path * option path * obs) : bool :=
  let ka := row_key a in let kb := row_key b in
  if list_eqb N.eqb (fst ka) (fst kb) then lex_leb (snd ka) (snd kb) else lex_leb (fst ka) (fst kb).
Definition mkrow (p0 p1 : option path) (cc v0 v1 : bool) (k0 k1 : option kind) (e0 e1 : option bool)
  : option path * option path * obs :=
  (p0, p1, OL [oopt opath p0; oopt opath p1; obool cc; obool v0; obool v1; okind k0; okind k1;
               oopt obool e0; oopt obool e1]).

Definition bzr_rows (s : state) : list (option path * option path * obs) :=
  flat_map (fun c =>
    match snd (fst c), snd c with
    | Some b, Some v =>
        let cc := negb (okind_eqb (tkind (pent b)) (tkind (pent v))) ||
                  negb (list_eqb N.eqb (tcontent (pent b)) (tcontent (pent v))) in
        [mkrow (Some (tpath (pent b))) (Some (tpath (pent v))) cc true true (tkind (pent b)) (tkind (pent v))
               (Some (texec (pent b))) (Some (texec (pent v)))]
    | None, Some v =>
        [mkrow None (Some (tpath (pent v))) (match tkind (pent v) with None => false | _ => true end)
               false true None (tkind (pent v)) None (Some (texec (pent v)))]
    | Some b, None =>
        [mkrow (Some (tpath (pent b))) None true true false (tkind (pent b)) None (Some (texec (pent b))) None]
    | None, None => []
    end) (bzr_status s).

Definition git_rows (s : state) : list (option path * option path * obs) :=
  flat_map (fun c =>
    let p := fst (fst c) in
    let addr (v : tentry) := mkrow None (Some p) true false true None (tkind v) None (Some (texec v)) in
    let delr (b : tentry) := mkrow (Some p) None true true false (tkind b) None (Some (texec b)) None in
    match snd (fst c), snd c with
    | Some b, Some v =>
        if okind_eqb (tkind b) (tkind v)
        then [mkrow (Some p) (Some p) true true true (tkind b) (tkind v) (Some (texec b)) (Some (texec v))]
        else [delr b; addr v]
    | None, Some v => [addr v]
    | Some b, None => [delr b]
    | None, None => []
    end) (git_status s).

Definition versioned_paths (f : format) (s : state) : list path :=
  match f with
  | Bzr => flat_map (fun e => match fst (snd e) with [] => [] | p => [p] end) (sinv s)
  | Git => nodup_paths (sindex s ++ g_dirs (sindex s))
  end.

Definition observe (f : format) (s : state) : list obs :=
  let vp := isort (fun a b => lex_leb (join_path a) (join_path b)) (versioned_paths f s) in
  let view := map (fun p => orow p (view_entry (sdisk s) p)) vp in
  let chg := match f with
             | Bzr => OL (map snd (isort row_leb (bzr_rows s)))
             | Git => OL (map snd (isort row_leb (git_rows s)))
             end in
  let extras := isort (fun a b => lex_leb (join_path (fst a)) (join_path (fst b)))
                      (filter (fun e => negb (memp (fst e) vp)) (sdisk s)) in
  [OL view; chg;
   OL (map (fun e => orow (fst e) (view_entry (sdisk s) (fst e))) extras)].

Fixpoint run_obs (f : format) (s : state) (ops : list op) : list obs :=
  match ops with
  | [] => []
  | o :: r =>
      match step f s o with
      | Stuck => [OT "unmodelled"]
      | Done st s' => OL (ostatus st :: observe f s' ++ [obool true]) :: run_obs f s' r
      end
  end.

Definition run_case (f : format) (ops : list op) : obs := OL (run_obs f init_state ops).
