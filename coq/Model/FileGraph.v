(* Model/FileGraph.v -- hand model for C02 (per-file history and last-changed
   revisions).

   Modelled code:
     breezy/bzr/vf_repository.py  VersionedFileCommitBuilder.record_iter_changes
                                  (merged_ids, parent_entries, head_candidates,
                                  _heads, carry_over_possible, carried_over,
                                  revision = modified_rev | parent_entry.revision),
                                  VersionedFileCommitBuilder._heads (heads in the
                                  per-file graph repository.texts since 2c4765b; the
                                  old revision-graph variant is the per_file_heads =
                                  false configuration), _add_file_to_weave,
                                  VersionedFileRepository._do_generate_text_key_index,
                                  _VersionedFileChecker._check_file_version_parents
     breezy/bzr/pack_repo.py      PackCommitBuilder._heads (heads in the per-file graph)
     breezy/bzr/check.py          VersionedFileCheck._check_weaves (inconsistent_parents)

   A history is a Lib/Dag revision graph plus, per revision, the committed tree
   (file id -> attributes + last-changed revision) and the per-file graph rows
   written by that revision (file id -> recorded text parents, None when the
   revision stored no text for the file).  Revision ids are the indices of
   Lib/Dag; a parent that is not present is a ghost and has the empty tree
   (record_iter_changes substitutes the NULL tree for it).

   Environment that is modelled, not proved (validated by the correspondence
   run): vcsgraph Graph.heads = Lib/Dag heads ordered by first occurrence;
   iter_changes(basis) reports exactly the entries whose attributes differ
   from the basis; add_content(nostore_sha=s) raises ExistingContent exactly
   when the new text has sha s; the xml5 serialiser of non-rich-root formats
   does not store the root's revision (reading gives the inventory's revision
   id) and _require_root_change. *)
From Coq Require Import String.
From Coq Require Import List Arith Bool ZArith.
From BV Require Import Lib.Obs Lib.Dag.
Import ListNotations.

Definition fid := nat.

(* kind-specific content of an inventory entry: file (executable, text),
   symlink (target), directory *)
Inductive payload :=
| PFile (exec : bool) (content : nat)
| PLink (target : nat)
| PDir.

(* name, parent directory (None for the tree root), payload *)
Record attrs := mkA { a_name : nat; a_parent : option fid; a_pay : payload }.

(* an inventory entry: attributes + InventoryEntry.revision (last changed) *)
Record entry := mkE { e_attrs : attrs; e_rev : revid }.

Definition tree := list (fid * entry).
Definition newtree := list (fid * attrs).
(* what one revision wrote to repository.texts: Some parents = key (f, r) added *)
Definition textrow := list (fid * option (list revid)).

(* per_file_heads = true: heads are taken in the per-file graph.  This is what
   every builder of the current code does: PackCommitBuilder._heads (text
   index / repository.texts) and, since fix 2c4765b, VersionedFileCommitBuilder._heads
   (Graph(repository.texts): knit formats, RemoteRepository).  [now rich] below.
   per_file_heads = false is the OLD VersionedFileCommitBuilder._heads (heads in
   the revision graph, HeadsCache(repository.get_graph())); it is kept only for
   the C02_old_* statements about the repaired finding C02-global-heads-readd.
   rich_root: repository.supports_rich_root() *)
Record cfg := mkCfg { per_file_heads : bool; rich_root : bool }.

(* the configuration of the current code *)
Definition now (rich : bool) : cfg := mkCfg true rich.
(* the configuration of VersionedFileCommitBuilder before fix 2c4765b *)
Definition old_global_heads (rich : bool) : cfg := mkCfg false rich.

Record hist := mkH { h_g : dag; h_trees : list tree; h_texts : list textrow }.

(* ---- equality tests ------------------------------------------------------- *)

Inductive kind := KFile | KLink | KDir.
Definition pay_kind (p : payload) : kind :=
  match p with PFile _ _ => KFile | PLink _ => KLink | PDir => KDir end.
Definition kind_eqb (a b : kind) : bool :=
  match a, b with KFile, KFile | KLink, KLink | KDir, KDir => true | _, _ => false end.
Definition pay_exec (p : payload) : bool := match p with PFile x _ => x | _ => false end.
Definition pay_content (p : payload) : nat :=
  match p with PFile _ c => c | PLink t => t | PDir => 0 end.
Definition opt_fid_eqb (a b : option fid) : bool :=
  match a, b with Some x, Some y => x =? y | None, None => true | _, _ => false end.
Definition payload_eqb (p q : payload) : bool :=
  match p, q with
  | PFile x c, PFile y d => Bool.eqb x y && (c =? d)
  | PLink s, PLink t => s =? t
  | PDir, PDir => true
  | _, _ => false
  end.
Definition attrs_eqb (a b : attrs) : bool :=
  (a_name a =? a_name b) && opt_fid_eqb (a_parent a) (a_parent b) && payload_eqb (a_pay a) (a_pay b).
(* InventoryEntry.__eq__ compares every field including revision *)
Definition entry_eqb (a b : entry) : bool := attrs_eqb (e_attrs a) (e_attrs b) && (e_rev a =? e_rev b).
Definition opt_entry_eqb (a b : option entry) : bool :=
  match a, b with Some x, Some y => entry_eqb x y | None, None => true | _, _ => false end.
Definition is_root (a : attrs) : bool := match a_parent a with None => true | Some _ => false end.
Definition is_nil {A} (l : list A) : bool := match l with [] => true | _ => false end.

(* ---- lookups ---------------------------------------------------------------- *)

Definition lookup {A} (f : fid) (l : list (fid * A)) : option A :=
  match find (fun x => fst x =? f) l with Some x => Some (snd x) | None => None end.

(* repository.revision_tree(p); the NULL tree for a ghost *)
Definition tree_of (trees : list tree) (p : revid) : tree := nth p trees [].

Definition text_parents_in (texts : list textrow) (f : fid) (r : revid) : option (list revid) :=
  match lookup f (nth r texts []) with Some (Some ps) => Some ps | _ => None end.

(* the per-file graph of f as a Lib/Dag graph over the revision indices:
   row r = recorded parents of the text key (f, r), [] when there is none *)
Definition file_dag (texts : list textrow) (f : fid) : dag :=
  map (fun row => match lookup f row with Some (Some ps) => ps | _ => [] end) texts.

(* the entries of f in a list of trees, in order, skipping trees without f *)
Definition entries_of (f : fid) (ts : list tree) : list entry :=
  flat_map (fun t => match lookup f t with Some e => [e] | None => [] end) ts.

Definition find_last {A} (p : A -> bool) (l : list A) : option A := find p (List.rev l).

(* ---- heads, in candidate order ----------------------------------------------- *)

Fixpoint dedup_first (seen l : list revid) : list revid :=
  match l with
  | [] => []
  | x :: l' => if memb x seen then dedup_first seen l' else x :: dedup_first (x :: seen) l'
  end.

(* head_set = self._heads(file_id, set(head_candidates)); then
   "for head_candidate in head_candidates: if head_candidate in head_set:
    heads.append(head_candidate); head_set.remove(head_candidate)" *)
Definition oheads (G : dag) (cands : list revid) : list revid :=
  filter (fun k => negb (dominated G cands k)) (dedup_first [] cands).

Definition heads_graph (c : cfg) (g : dag) (texts : list textrow) (f : fid) : dag :=
  if per_file_heads c then file_dag texts f else g.

(* ---- the decision table of record_iter_changes -------------------------------- *)

Record dec := mkDec {
  d_in_basis : bool;      (* change.path[0] is not None *)
  d_changed : bool;       (* the file is in iter_changes *)
  d_has_merged : bool;    (* the file is in merged_ids *)
  d_one_head : bool;      (* len(heads) == 1 *)
  d_found : bool;         (* parent_entries.get(file_id, {}).get(heads[0]) is not None *)
  d_kind_same : bool;     (* parent_entry.kind == kind *)
  d_parent_same : bool;   (* parent_entry.parent_id == entry_parent_id *)
  d_name_same : bool;     (* parent_entry.name == entry_name *)
  d_exec_same : bool;     (* parent_entry.executable == executable *)
  d_content_same : bool;  (* ExistingContent / symlink_target equal *)
  d_kind : kind }.

Inductive outcome :=
| Skip    (* not in the changes dict: the basis entry stays *)
| Carry   (* carried_over: revision = parent_entry.revision, no text added *)
| New.    (* revision = modified_rev, text added with parents = heads *)

Definition decide (d : dec) : outcome :=
  if negb (d_changed d) && negb (d_has_merged d) then Skip
  else
    let carry_over_possible :=
      d_one_head d && d_found d && d_kind_same d && d_parent_same d && d_name_same d in
    let carried_over :=
      match d_kind d with
      | KFile => carry_over_possible && d_exec_same d && d_content_same d
      | KLink => carry_over_possible && d_content_same d
      | KDir => carry_over_possible
      end in
    if carried_over then Carry else New.

Definition all_bools : list bool := [false; true].
Definition all_decs : list dec :=
  flat_map (fun b0 => flat_map (fun b1 => flat_map (fun b2 => flat_map (fun b3 =>
  flat_map (fun b4 => flat_map (fun b5 => flat_map (fun b6 => flat_map (fun b7 =>
  flat_map (fun b8 => flat_map (fun b9 =>
    map (fun k => mkDec b0 b1 b2 b3 b4 b5 b6 b7 b8 b9 k) [KFile; KLink; KDir])
  all_bools) all_bools) all_bools) all_bools) all_bools) all_bools) all_bools) all_bools)
  all_bools) all_bools.

(* ---- one entry of one commit ---------------------------------------------------- *)

(* ptrees: the trees of self.parents in order (ghost = []); new: the id being
   committed; (f, a): an entry of the tree being committed.  Result: the
   inventory entry stored for f, and Some heads when a text (f, new) is added. *)
Definition commit_entry (c : cfg) (g : dag) (texts : list textrow) (new : revid)
           (ptrees : list tree) (f : fid) (a : attrs) : entry * option (list revid) :=
  if negb (rich_root c) && is_root a then
    (* non-rich-root formats: no root text; the stored root always reads back
       with revision = the inventory's revision *)
    (mkE a new, None)
  else
  let basis := hd [] ptrees in
  let others := tl ptrees in
  let be := lookup f basis in
  let bl := match be with Some b => [b] | None => [] end in
  (* merged_ids[f] / parent_entries[f]: entries of the other parents that are
     in the inventory delta against the basis *)
  let merged := filter (fun e => negb (opt_entry_eqb be (Some e))) (entries_of f others) in
  let changed := match be with Some b => negb (attrs_eqb (e_attrs b) a) | None => true end in
  let has_merged := negb (is_nil merged) in
  (* merged_ids.get(file_id, head_candidate) *)
  let cands := map e_rev (bl ++ merged) in
  let hs := oheads (heads_graph c g texts f) cands in
  let pe := match hs with
            | [h] => if has_merged then find_last (fun e => e_rev e =? h) (bl ++ merged) else None
            | _ => None
            end in
  let same (p : entry -> bool) := match pe with Some x => p x | None => false end in
  let d := {| d_in_basis := negb (is_nil bl);
              d_changed := changed;
              d_has_merged := has_merged;
              d_one_head := match hs with [_] => true | _ => false end;
              d_found := match pe with Some _ => true | None => false end;
              d_kind_same := same (fun x => kind_eqb (pay_kind (a_pay (e_attrs x))) (pay_kind (a_pay a)));
              d_parent_same := same (fun x => opt_fid_eqb (a_parent (e_attrs x)) (a_parent a));
              d_name_same := same (fun x => a_name (e_attrs x) =? a_name a);
              d_exec_same := same (fun x => Bool.eqb (pay_exec (a_pay (e_attrs x))) (pay_exec (a_pay a)));
              d_content_same := same (fun x => pay_content (a_pay (e_attrs x)) =? pay_content (a_pay a));
              d_kind := pay_kind (a_pay a) |} in
  match decide d with
  | Skip => (match be with Some b => b | None => mkE a new end, None)
  | Carry => (match pe with Some p => mkE a (e_rev p) | None => mkE a new end, None)
  | New => (mkE a new, Some hs)
  end.

(* ---- histories ------------------------------------------------------------------- *)

Definition commit_step (c : cfg) (h : hist) (ps : list revid) (nt : newtree) : hist :=
  let new := length (h_g h) in
  let ptrees := map (tree_of (h_trees h)) ps in
  let res := map (fun fa => (fst fa, commit_entry c (h_g h) (h_texts h) new ptrees (fst fa) (snd fa))) nt in
  {| h_g := h_g h ++ [ps];
     h_trees := h_trees h ++ [map (fun x => (fst x, fst (snd x))) res];
     h_texts := h_texts h ++ [map (fun x => (fst x, snd (snd x))) res] |}.

(* an operation: commit (one parent), merge commit (several), initial commit (none) *)
Definition op := (list revid * newtree)%type.
Definition empty_hist : hist := mkH [] [] [].
Definition run_from (c : cfg) (h : hist) (ops : list op) : hist :=
  fold_left (fun h o => commit_step c h (fst o) (snd o)) ops h.
Definition run (c : cfg) (ops : list op) : hist := run_from c empty_hist ops.

(* the parents of the new revision are earlier revisions or ghosts whose id is
   never used by a later revision *)
(* = Theory.DagFacts.fresh_next: the id about to be created is not yet referenced *)
Definition fresh_id (g : dag) : bool := forallb (fun ps => negb (memb (length g) ps)) g.
Definition step_ok (h : hist) (o : op) : bool :=
  wf_dag (h_g h ++ [fst o]) && fresh_id (h_g h).
Fixpoint run_ok (c : cfg) (h : hist) (ops : list op) : bool :=
  match ops with
  | [] => true
  | o :: r => step_ok h o && run_ok c (commit_step c h (fst o) (snd o)) r
  end.
Definition ops_ok (c : cfg) (ops : list op) : bool := run_ok c empty_hist ops.

(* ---- observation vocabulary -------------------------------------------------------- *)

Definition entry_at (h : hist) (r : revid) (f : fid) : option entry := lookup f (tree_of (h_trees h) r).
Definition text_parents (h : hist) (f : fid) (r : revid) : option (list revid) :=
  text_parents_in (h_texts h) f r.
Definition parent_entries_at (g : dag) (trees : list tree) (f : fid) (r : revid) : list entry :=
  entries_of f (map (tree_of trees) (parents g r)).
Definition parent_versions (h : hist) (f : fid) (r : revid) : list revid :=
  map e_rev (parent_entries_at (h_g h) (h_trees h) f r).
Definition hgraph (c : cfg) (h : hist) (f : fid) : dag := heads_graph c (h_g h) (h_texts h) f.

(* ---- the checker: _do_generate_text_key_index -------------------------------------- *)

(* text keys of revision r = entries whose revision is r (the root is skipped
   in non-rich-root formats); candidate parents = the versions of the file in
   the parents of r; heads in the text graph built so far (idx), ordered by
   candidate_parents.index *)
Definition checker_row (c : cfg) (g : dag) (trees : list tree) (idx : list textrow) (r : revid) : textrow :=
  map (fun fe =>
         (fst fe,
          if (e_rev (snd fe) =? r) && (rich_root c || negb (is_root (e_attrs (snd fe))))
          then Some (oheads (file_dag idx (fst fe)) (map e_rev (parent_entries_at g trees (fst fe) r)))
          else None))
      (tree_of trees r).
Fixpoint checker_upto (c : cfg) (g : dag) (trees : list tree) (k : nat) : list textrow :=
  match k with
  | 0 => []
  | S k' => let idx := checker_upto c g trees k' in idx ++ [checker_row c g trees idx k']
  end.
Definition checker (c : cfg) (h : hist) : list textrow :=
  checker_upto c (h_g h) (h_trees h) (length (h_g h)).

Definition opt_list_eqb (a b : option (list revid)) : bool :=
  match a, b with
  | Some x, Some y => list_eqb Nat.eqb x y
  | None, None => true
  | _, _ => false
  end.
(* len(check.inconsistent_parents): text keys whose stored parents differ from
   the checker's *)
Definition inconsistent (c : cfg) (h : hist) : nat :=
  length (filter (fun p => negb (opt_list_eqb (snd (fst p)) (snd (snd p))))
                 (flat_map (fun rr => combine (fst rr) (snd rr)) (combine (h_texts h) (checker c h)))).

(* ---- correspondence entry point ------------------------------------------------------ *)

Definition obs_parents (o : option (list revid)) : obs := oopt (olist onat) o.
Definition obs_hist (c : cfg) (h : hist) : obs :=
  let chk := checker c h in
  OL [ OL (map (fun r =>
         OL (map (fun fe =>
               OL [ onat (fst fe); onat (e_rev (snd fe));
                    obs_parents (text_parents h (fst fe) r);
                    obs_parents (text_parents_in chk (fst fe) r) ])
             (tree_of (h_trees h) r)))
         (seq 0 (length (h_g h))));
       (* len(check.inconsistent_parents); len(check.unreferenced_versions): every stored
          text key is an entry's key; text parents rewritten by reconcile(thorough=True) *)
       onat (inconsistent c h); onat 0; onat (inconsistent c h) ].

Definition run_case (c : cfg) (ops : list op) : obs :=
  if ops_ok c ops then obs_hist c (run c ops) else OE "bad-history"%string.
