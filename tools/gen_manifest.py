"""Regenerate MANIFEST.json from the property modules' META (claimed checks) and
not_applicable.json (hand-maintained reasons)."""
import glob
import importlib
import json
import os
import sys

ROOT = os.path.dirname(os.path.dirname(os.path.abspath(__file__)))
sys.path[:0] = [os.path.join(ROOT, "tools"), os.path.join(ROOT, "harness")]

props = [json.loads(l)["id"] for l in open(os.path.join(ROOT, "properties.jsonl"))]
na = json.load(open(os.path.join(ROOT, "not_applicable.json"))) if os.path.exists(os.path.join(ROOT, "not_applicable.json")) else {}
checks, claimed = [], set()
validated = set(json.load(open(os.path.join(ROOT, "claimed.json"))))   # properties whose check was validated on the unchanged tree
for pid in props:
    if pid not in validated:
        continue
    f = os.path.join(ROOT, "harness", "props", pid.lower() + ".py")
    if not os.path.exists(f):
        continue
    m = importlib.import_module("props." + pid.lower())
    if not getattr(m, "CLAIMED", True):
        continue
    meta = m.META
    claimed.add(pid)
    checks.append({
        "property_id": pid,
        "quick_cmd": f"./check {pid} --tier quick",
        "thorough_cmd": f"./check {pid} --tier thorough",
        "evidence_file": f"evidence/{pid}.json",
        "replay_cmd_template": f"./check {pid} --replay {{path}}",
        "engine": "coq-proofs+correspondence",
        "level_claimed": {"category": meta["level"], "text": meta["level_text"], "design_ref": meta.get("design_ref", "DESIGN.md §5")},
        "level_note": meta["level_note"],
        "technique": meta["technique"],
    })
not_app = []
for pid in props:
    if pid in claimed:
        continue
    not_app.append({"property_id": pid, "reason": na.get(pid, "not claimed: no Coq model/theorem with a checked tie to the source was completed for this property in the available time (see DESIGN.md §7)")})
manifest = {
    "version": 1,
    "setup_cmd": "./setup.sh",
    "hooks": {
        "guard": "BRZ_VERIF",
        "enable": "no source hooks: harness-side transport decorators and injected collaborators only (DESIGN.md §2.6); checks export BRZ_VERIF=1",
        "baseline_off_cmd": "cd /repo && /venv/bin/python -m pytest -ra -q -p no:cacheprovider --timeout=900 --continue-on-collection-errors",
        "source_commits": [],
        "add_only": True,
    },
    "engines": [
        {"name": "coq-proofs", "path": "coq/", "serves_properties": sorted(claimed),
         "kind_free_text": "Coq 8.16.1 development: Model/ (executable Gallina), Theory/ (lemmas), Properties/Cxx.v (statements + Print Assumptions); full .vo build, hygiene gate, coqchk in thorough tier"},
        {"name": "py2coq", "path": "tools/py2coq.py", "serves_properties": [p for p in sorted(claimed) if hasattr(importlib.import_module('props.' + p.lower()), 'translate')],
         "kind_free_text": "fail-closed Python-ast -> Gallina translator; generated model rebuilt from /repo on every run (tie T)"},
        {"name": "correspondence-harness", "path": "tools/vlib.py harness/props/", "serves_properties": sorted(claimed),
         "kind_free_text": "runs the implementation and the Coq model (vm_compute inside coqc) on the same seeded cases, diffs canonical observations, runs the property oracle, searches for a failing input when a tie breaks (tie H)"},
    ],
    "checks": checks,
    "not_applicable": not_app,
    "notes": "Technique family: machine-checked proof in Coq 8.16.1. See DESIGN.md. known_findings.json lists recorded genuine defects.",
}
with open(os.path.join(ROOT, "MANIFEST.json"), "w") as f:
    json.dump(manifest, f, indent=1)
print("claimed:", sorted(claimed))
