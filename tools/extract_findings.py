"""usage: tools/extract_findings.py notes/Cxx.md Cxx > out.json -- pull {"property": "Cxx", ...} JSON objects out of a notes file"""
import json, re, sys
s = open(sys.argv[1]).read(); pid = sys.argv[2]
objs = []
for m in re.finditer(r'\{\s*"property"\s*:\s*"%s"' % pid, s):
    i = m.start(); depth = 0; instr = False; esc = False
    for j in range(i, len(s)):
        c = s[j]
        if instr:
            if esc: esc = False
            elif c == '\\': esc = True
            elif c == '"': instr = False
            continue
        if c == '"': instr = True
        elif c == '{': depth += 1
        elif c == '}':
            depth -= 1
            if depth == 0:
                try: objs.append(json.loads(s[i:j+1]))
                except Exception as e: sys.stderr.write("parse fail: %s\n" % e)
                break
json.dump(objs, sys.stdout, indent=1)
