"""Fill the generated blocks of DESIGN.md §9 (between <!-- X:BEGIN --> / <!-- X:END -->)."""
import json, os, re, subprocess, sys, glob
ROOT = os.path.dirname(os.path.dirname(os.path.abspath(__file__)))
out = subprocess.run(["/venv/bin/python", os.path.join(ROOT, "tools", "gen_status.py")], stdout=subprocess.PIPE, text=True,
                     env=dict(os.environ, PYTHONPATH="/repo", PYTHONHASHSEED="0")).stdout
table, _, rest = out.partition("\n### Known findings")
findings = "### Known findings" + rest
rows = ["| seeded | needs to manifest | detected | with input | violation line |", "|---|---|---|---|---|"]
for d in sorted(glob.glob(os.path.join(ROOT, "seeded", "*"))):
    try:
        m = json.load(open(os.path.join(d, "meta.json")))
    except Exception:
        continue
    v = m.get("verif", {})
    vl = (v.get("violation_lines") or [""])[0]
    rows.append("| {} | {} | {} | {} | `{}` |".format(os.path.basename(d), str(m.get("needs_to_manifest", ""))[:160].replace("|", "/").replace("\n", " "),
                                                  v.get("detected"), v.get("detected_with_input"), vl[:110]))
p = os.path.join(ROOT, "DESIGN.md")
s = open(p).read()
for tag, body in (("STATUS", table.strip()), ("FINDINGS", findings.strip()), ("SEEDED", "\n".join(rows))):
    s = re.sub(r"<!-- %s:BEGIN -->.*?<!-- %s:END -->" % (tag, tag), lambda _m: "<!-- %s:BEGIN -->\n%s\n<!-- %s:END -->" % (tag, body, tag), s, flags=re.S)
open(p, "w").write(s)
print("DESIGN.md updated")
