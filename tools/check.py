import argparse
import os
import sys

sys.path.insert(0, os.path.dirname(os.path.abspath(__file__)))
import vlib


def main():
    ap = argparse.ArgumentParser()
    ap.add_argument("prop")
    ap.add_argument("--tier", default=os.environ.get("VERIF_TIER", "quick"), choices=["quick", "thorough"])
    ap.add_argument("--replay")
    ap.add_argument("--seed", type=int, default=int(os.environ.get("VERIF_SEED", "0") or 0))
    a = ap.parse_args()
    if a.replay:
        sys.exit(vlib.replay(a.prop, a.replay))
    sys.exit(vlib.run_property(a.prop, a.tier, a.seed))


main()
