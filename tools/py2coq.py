"""py2coq -- fail-closed Python-ast -> Gallina translator (tie T).

Function mode: small pure functions (if/elif/else, return, local assignment,
tuple unpacking, ==, !=, in, not in, and/or/not, len, set, list comprehensions
with one generator, singleton set .pop() under a `len(S) == 1` test, calls to
other whitelisted functions).  Values of unknown Python type are modelled by a
Section variable A with a boolean equality A_eqb.

Anything outside the subset raises TranslatorUnsupported(file, line, what):
never a silent skip.  The emitted file records the sha256 of the source text
of every translated function.
"""
from __future__ import annotations

import ast
import hashlib
import os
import textwrap


class TranslatorUnsupported(Exception):
    def __init__(self, file, line, what):
        super().__init__(f"{file}:{line}: unsupported construct: {what}")
        self.file, self.line, self.what = file, line, what


def find_function(tree, qualname):
    parts = qualname.split(".")
    body = tree.body
    node = None
    for i, p in enumerate(parts):
        found = None
        for n in body:
            if isinstance(n, (ast.FunctionDef, ast.ClassDef)) and n.name == p:
                found = n
                break
        if found is None:
            return None
        node = found
        body = found.body
    return node


class FnTranslator:
    """Translate one function into a Gallina term (as text)."""

    def __init__(self, file, src, spec, common):
        self.file, self.src, self.spec, self.common = file, src, spec, common
        self.env = {}       # python name -> type  ('A', 'list A', 'set A', 'nat', 'bool', 'A * list A', 'enum:<name>')
        self.rename = {}    # python name -> coq identifier

    def bad(self, node, what):
        raise TranslatorUnsupported(self.file, getattr(node, "lineno", 0), what)

    # ---- expressions ------------------------------------------------------
    def name(self, n):
        return self.rename.get(n, n if n not in ("this", "other", "base") else n)

    def typ(self, e):
        if isinstance(e, ast.Name):
            if e.id not in self.env:
                self.bad(e, f"unknown name {e.id}")
            return self.env[e.id]
        if isinstance(e, ast.Constant):
            if isinstance(e.value, bool):
                return "bool"
            if isinstance(e.value, int):
                return "nat"
            if isinstance(e.value, str):
                enum = self.common["strings"].get(e.value)
                if enum is None:
                    self.bad(e, f"string constant {e.value!r} not in the enum whitelist")
                return "enum"
            if e.value is None:
                return "none"
        if isinstance(e, ast.Call):
            f = e.func
            if isinstance(f, ast.Name) and f.id == "len":
                return "nat"
            if isinstance(f, ast.Name) and f.id == "set":
                return "set A"
            if isinstance(f, ast.Attribute) and f.attr == "pop":
                return "A"
            cn = self.callname(f)
            if cn in self.common["calls"]:
                return self.common["calls"][cn][1]
        if isinstance(e, ast.ListComp):
            return "list A"
        if isinstance(e, (ast.Compare, ast.BoolOp)):
            return "bool"
        if isinstance(e, ast.UnaryOp) and isinstance(e.op, ast.Not):
            return "bool"
        if isinstance(e, (ast.Tuple, ast.List)):
            return "list A"
        self.bad(e, "cannot type " + ast.dump(e)[:80])

    def callname(self, f):
        if isinstance(f, ast.Name):
            return f.id
        if isinstance(f, ast.Attribute):
            base = self.callname(f.value)
            return (base + "." if base else "") + f.attr
        return None

    def expr(self, e):
        if isinstance(e, ast.Name):
            if e.id not in self.env:
                self.bad(e, f"unknown name {e.id}")
            return self.name(e.id)
        if isinstance(e, ast.Constant):
            if isinstance(e.value, bool):
                return "true" if e.value else "false"
            if isinstance(e.value, int) and 0 <= e.value < 1000:
                return str(e.value)
            if isinstance(e.value, str):
                enum = self.common["strings"].get(e.value)
                if enum is None:
                    self.bad(e, f"string constant {e.value!r} not in the enum whitelist")
                return enum
            self.bad(e, f"constant {e.value!r}")
        if isinstance(e, ast.Compare):
            if len(e.ops) != 1:
                self.bad(e, "chained comparison")
            op, l, r = e.ops[0], e.left, e.comparators[0]
            if isinstance(op, (ast.Eq, ast.NotEq)):
                tl, tr = self.typ(l), self.typ(r)
                if tl == "nat" or tr == "nat":
                    if not (tl == "nat" and tr == "nat"):
                        self.bad(e, f"== between {tl} and {tr}")
                    s = f"(Nat.eqb {self.expr(l)} {self.expr(r)})"
                elif tl == "A" and tr == "A":
                    s = f"(A_eqb {self.expr(l)} {self.expr(r)})"
                else:
                    self.bad(e, f"== between {tl} and {tr}")
                return s if isinstance(op, ast.Eq) else f"(negb {s})"
            if isinstance(op, (ast.In, ast.NotIn)):
                if self.typ(l) != "A":
                    self.bad(e, "membership of a non-scalar")
                if isinstance(r, (ast.Tuple, ast.List)):
                    for x in r.elts:
                        if self.typ(x) != "A":
                            self.bad(e, "container element type")
                    c = "[" + "; ".join(self.expr(x) for x in r.elts) + "]"
                elif self.typ(r) in ("list A", "set A"):
                    c = self.expr(r)
                else:
                    self.bad(e, "membership in " + self.typ(r))
                s = f"(py_in A_eqb {self.expr(l)} {c})"
                return s if isinstance(op, ast.In) else f"(negb {s})"
            self.bad(e, "comparison operator " + type(op).__name__)
        if isinstance(e, ast.BoolOp):
            for v in e.values:
                if self.typ(v) != "bool":
                    self.bad(e, "boolean operator on non-bool (Python truthiness is not modelled)")
            op = " && " if isinstance(e.op, ast.And) else " || "
            return "(" + op.join(self.expr(v) for v in e.values) + ")"
        if isinstance(e, ast.UnaryOp) and isinstance(e.op, ast.Not):
            if self.typ(e.operand) != "bool":
                self.bad(e, "not on non-bool")
            return f"(negb {self.expr(e.operand)})"
        if isinstance(e, ast.Call):
            f = e.func
            if e.keywords:
                self.bad(e, "keyword arguments")
            if isinstance(f, ast.Name) and f.id == "len" and len(e.args) == 1:
                if self.typ(e.args[0]) not in ("list A", "set A"):
                    self.bad(e, "len of " + self.typ(e.args[0]))
                return f"(length {self.expr(e.args[0])})"
            if isinstance(f, ast.Name) and f.id == "set" and len(e.args) == 1:
                if self.typ(e.args[0]) != "list A":
                    self.bad(e, "set() of " + self.typ(e.args[0]))
                return f"(py_set A_eqb {self.expr(e.args[0])})"
            cn = self.callname(f)
            if cn in self.common["calls"]:
                coqname, _rt = self.common["calls"][cn]
                return "(" + coqname + " " + " ".join(self.expr(a) for a in e.args) + ")"
            self.bad(e, f"call to {cn}")
        if isinstance(e, ast.ListComp):
            if len(e.generators) != 1:
                self.bad(e, "comprehension with several generators")
            g = e.generators[0]
            if not isinstance(g.target, ast.Name) or g.is_async:
                self.bad(e, "comprehension target")
            if self.typ(g.iter) != "list A":
                self.bad(e, "comprehension over " + self.typ(g.iter))
            v = g.target.id
            saved = self.env.get(v)
            self.env[v] = "A"
            try:
                conds = [self.expr(c) for c in g.ifs]
                for c in g.ifs:
                    if self.typ(c) != "bool":
                        self.bad(e, "comprehension filter is not a bool")
                if not (isinstance(e.elt, ast.Name) and e.elt.id == v):
                    self.bad(e, "comprehension element is not the loop variable")
                cond = " && ".join(conds) if conds else "true"
                return f"(filter (fun {self.name(v)} => {cond}) {self.expr(g.iter)})"
            finally:
                if saved is None:
                    del self.env[v]
                else:
                    self.env[v] = saved
        self.bad(e, "expression " + type(e).__name__)

    # ---- statements -------------------------------------------------------
    def always_returns(self, stmts):
        for s in stmts:
            if isinstance(s, ast.Return):
                return True
            if isinstance(s, ast.If) and s.orelse and self.always_returns(s.body) and self.always_returns(s.orelse):
                return True
        return False

    def block(self, stmts, ind):
        pad = "  " * ind
        if not stmts:
            raise TranslatorUnsupported(self.file, 0, "control reaches the end of the function without return")
        s, rest = stmts[0], stmts[1:]
        if isinstance(s, ast.Expr) and isinstance(s.value, ast.Constant) and isinstance(s.value.value, str):
            return self.block(rest, ind)      # docstring
        if isinstance(s, ast.Return):
            if s.value is None:
                self.bad(s, "bare return")
            return pad + self.expr(s.value)
        if isinstance(s, ast.Assign):
            if len(s.targets) != 1:
                self.bad(s, "multiple assignment targets")
            t = s.targets[0]
            if isinstance(t, ast.Name):
                ty = self.typ(s.value)
                v = self.expr(s.value)
                if t.id in self.env:
                    self.bad(s, f"re-assignment of {t.id}")
                self.env[t.id] = ty
                return pad + f"let {self.name(t.id)} := {v} in\n" + self.block(rest, ind)
            if isinstance(t, ast.Tuple) and all(isinstance(x, ast.Name) for x in t.elts):
                ty = self.typ(s.value)
                parts = [p.strip() for p in ty.split("*")]
                if len(parts) != len(t.elts):
                    self.bad(s, f"tuple unpacking of {ty}")
                for x, p in zip(t.elts, parts):
                    if x.id in self.env:
                        self.bad(s, f"re-assignment of {x.id}")
                    self.env[x.id] = p
                names = ", ".join(self.name(x.id) for x in t.elts)
                return pad + f"let '({names}) := {self.expr(s.value)} in\n" + self.block(rest, ind)
            self.bad(s, "assignment target")
        if isinstance(s, ast.If):
            # singleton-set pop idiom
            popname = self.singleton_test(s.test)
            then_stmts = s.body if self.always_returns(s.body) else s.body + rest
            if s.orelse:
                else_stmts = s.orelse if self.always_returns(s.orelse) else s.orelse + rest
            else:
                else_stmts = rest
            if popname and self.uses_pop(s.body, popname):
                fresh = popname + "_only"
                saved = dict(self.env)
                self.env[fresh] = "A"
                try:
                    th = self.block(self.subst_pop(then_stmts, popname, fresh), ind + 2)
                finally:
                    self.env = saved
                el = self.block(else_stmts, ind + 2)
                return (pad + f"match {self.name(popname)} with\n" + pad + f"| [{fresh}] =>\n" + th + "\n" +
                        pad + "| _ =>\n" + el + "\n" + pad + "end")
            if self.typ(s.test) != "bool":
                self.bad(s, "if on a non-bool (Python truthiness is not modelled)")
            c = self.expr(s.test)
            saved = dict(self.env)
            th = self.block(then_stmts, ind + 1)
            self.env = dict(saved)
            el = self.block(else_stmts, ind + 1)
            self.env = saved
            return pad + f"if {c} then\n{th}\n" + pad + f"else\n{el}"
        self.bad(s, "statement " + type(s).__name__)

    def singleton_test(self, t):
        if (isinstance(t, ast.Compare) and len(t.ops) == 1 and isinstance(t.ops[0], ast.Eq)
                and isinstance(t.left, ast.Call) and isinstance(t.left.func, ast.Name) and t.left.func.id == "len"
                and len(t.left.args) == 1 and isinstance(t.left.args[0], ast.Name)
                and isinstance(t.comparators[0], ast.Constant) and t.comparators[0].value == 1
                and self.env.get(t.left.args[0].id) == "set A"):
            return t.left.args[0].id
        return None

    def uses_pop(self, stmts, name):
        for n in ast.walk(ast.Module(body=stmts, type_ignores=[])):
            if (isinstance(n, ast.Call) and isinstance(n.func, ast.Attribute) and n.func.attr == "pop"
                    and isinstance(n.func.value, ast.Name) and n.func.value.id == name and not n.args):
                return True
        return False

    def subst_pop(self, stmts, name, fresh):
        class T(ast.NodeTransformer):
            def visit_Call(self, n):
                self.generic_visit(n)
                if (isinstance(n.func, ast.Attribute) and n.func.attr == "pop" and isinstance(n.func.value, ast.Name)
                        and n.func.value.id == name and not n.args):
                    return ast.copy_location(ast.Name(id=fresh, ctx=ast.Load()), n)
                return n
        import copy
        return [T().visit(copy.deepcopy(s)) for s in stmts]

    def translate(self, fn):
        a = fn.args
        if a.vararg or a.kwarg or a.kwonlyargs or a.posonlyargs:
            self.bad(fn, "star/keyword-only arguments")
        params = [x.arg for x in a.args]
        if params and params[0] == "self" and not self.spec.get("keep_self"):
            self.bad(fn, "method with self (function mode translates static functions only)")
        if params != list(self.spec["params"].keys()):
            self.bad(fn, f"signature changed: {params} (expected {list(self.spec['params'])})")
        ndef = len(a.defaults)
        defaults = {}
        for p, d in zip(params[len(params) - ndef:], a.defaults):
            if not isinstance(d, ast.Constant):
                self.bad(fn, "non-constant default")
            defaults[p] = d.value
        if defaults != self.spec.get("defaults", {}):
            self.bad(fn, f"defaults changed: {defaults}")
        for dec in fn.decorator_list:
            if not (isinstance(dec, ast.Name) and dec.id == "staticmethod"):
                self.bad(fn, "decorator")
        binders = []
        for p, ty in self.spec["params"].items():
            self.env[p] = ty
            self.rename[p] = p + "_" if p in ("this", "other") else p
            coq_ty = ty.replace("set A", "list A")
            binders.append(f"({self.rename[p]} : {coq_ty})")
        body = self.block(fn.body, 1)
        return (f"Definition {self.spec['coq_name']} {' '.join(binders)} : {self.spec['returns']} :=\n{body}.\n")


def translate_functions(repo, relfile, specs, common, header_imports, out_path, section_vars=True):
    """specs: list of dict(qualname, coq_name, params{name:type}, returns, defaults).
    Returns info dict (sha256 per function)."""
    path = os.path.join(repo, relfile)
    src = open(path).read()
    tree = ast.parse(src)
    info = {"files": [os.path.relpath(out_path, os.path.dirname(os.path.dirname(out_path)))], "functions": {}}
    chunks = []
    for spec in specs:
        fn = find_function(tree, spec["qualname"])
        if fn is None or not isinstance(fn, ast.FunctionDef):
            raise TranslatorUnsupported(relfile, 0, f"function {spec['qualname']} not found")
        seg = ast.get_source_segment(src, fn)
        sha = hashlib.sha256(seg.encode()).hexdigest()
        info["functions"][f"{relfile}:{spec['qualname']}"] = sha
        tr = FnTranslator(relfile, src, spec, common)
        chunks.append(f"(* {relfile}:{spec['qualname']} line {fn.lineno} sha256 {sha} *)\n" + tr.translate(fn))
    text = ("(* GENERATED on every run by tools/py2coq.py from /repo -- do not edit. *)\n"
            + header_imports.strip() + "\n\nSection Gen.\nVariable A : Type.\nVariable A_eqb : A -> A -> bool.\n\n"
            + "\n".join(chunks) + "\nEnd Gen.\n")
    os.makedirs(os.path.dirname(out_path), exist_ok=True)
    old = open(out_path).read() if os.path.exists(out_path) else None
    if old != text:
        with open(out_path, "w") as f:
            f.write(text)
    info["sha256_generated"] = hashlib.sha256(text.encode()).hexdigest()
    return info


# ===========================================================================
# class mode: methods -> Lib/PyImp.stmt terms
# ===========================================================================

def _cstr(s):
    if not all(32 <= ord(c) < 127 and c != '"' for c in s):
        raise ValueError("bad string for Coq literal: %r" % s)
    return '"' + s + '"'


class MethodTranslator:
    def __init__(self, file, spec, argnames):
        self.file, self.spec = file, spec
        self.args = set(argnames)
        self.locals = set()

    def bad(self, node, what):
        raise TranslatorUnsupported(self.file, getattr(node, "lineno", 0), what)

    def is_collab_call(self, e):
        """self.<collab>.m(...) -> (m, args) or None"""
        if (isinstance(e, ast.Call) and isinstance(e.func, ast.Attribute)
                and isinstance(e.func.value, ast.Attribute) and isinstance(e.func.value.value, ast.Name)
                and e.func.value.value.id == "self" and e.func.value.attr == self.spec["collab"]):
            args = list(e.args)
            for kw in e.keywords:
                if kw.arg is None:
                    self.bad(e, "**kwargs")
                args.append(kw.value)      # keyword arguments are passed in order after the positionals
            return e.func.attr, args
        return None

    def exp(self, e):
        txt = ast.unparse(e)
        if txt in self.spec.get("exp_map", {}):
            return self.spec["exp_map"][txt]
        if isinstance(e, ast.Attribute) and isinstance(e.value, ast.Name) and e.value.id == "self":
            if e.attr not in self.spec["fields"]:
                self.bad(e, f"attribute self.{e.attr} is not a whitelisted field")
            return f"(EField {_cstr(e.attr)})"
        if isinstance(e, ast.Name):
            if e.id in self.locals:
                return f"(ELocal {_cstr(e.id)})"
            if e.id in self.args:
                return f"(EArg {_cstr(e.id)})"
            self.bad(e, f"unknown name {e.id}")
        if isinstance(e, ast.Constant):
            v = e.value
            if v is None:
                return "ENone"
            if isinstance(v, bool):
                return f"(EBool {'true' if v else 'false'})"
            if isinstance(v, int):
                return f"(EInt ({v})%Z)"
            if isinstance(v, str):
                return f"(EStr {_cstr(v)})"
            self.bad(e, f"constant {v!r}")
        if isinstance(e, ast.Compare):
            if len(e.ops) != 1:
                self.bad(e, "chained comparison")
            op, l, r = e.ops[0], e.left, e.comparators[0]
            if isinstance(op, (ast.In, ast.NotIn)):
                if not isinstance(r, (ast.Tuple, ast.List)):
                    self.bad(e, "membership in a non-literal container")
                c = "[" + "; ".join(self.exp(x) for x in r.elts) + "]"
                return f"({'EIn' if isinstance(op, ast.In) else 'ENotIn'} {self.exp(l)} {c})"
            if isinstance(op, (ast.Is, ast.IsNot)) and isinstance(r, ast.Constant) and r.value is None:
                return f"({'EEq' if isinstance(op, ast.Is) else 'ENe'} {self.exp(l)} ENone)"
            table = {ast.Eq: "EEq", ast.NotEq: "ENe", ast.Gt: "EGt", ast.GtE: "EGe"}
            if type(op) in table:
                return f"({table[type(op)]} {self.exp(l)} {self.exp(r)})"
            if isinstance(op, ast.Lt):
                return f"(EGt {self.exp(r)} {self.exp(l)})"
            if isinstance(op, ast.LtE):
                return f"(EGe {self.exp(r)} {self.exp(l)})"
            self.bad(e, "comparison " + type(op).__name__)
        if isinstance(e, ast.BoolOp):
            name = "EAnd" if isinstance(e.op, ast.And) else "EOr"
            out = self.exp(e.values[-1])
            for v in reversed(e.values[:-1]):
                out = f"({name} {self.exp(v)} {out})"
            return out
        if isinstance(e, ast.UnaryOp) and isinstance(e.op, ast.Not):
            return f"(ENot {self.exp(e.operand)})"
        self.bad(e, "expression " + txt[:60])

    def test_exp(self, e):
        return self.exp(e)

    def value_exp(self, e):
        # and/or/not evaluate to a truthiness bool in PyImp: only allowed in tests
        for n in ast.walk(e):
            if isinstance(n, ast.BoolOp):
                self.bad(e, "and/or used as a value")
        return self.exp(e)

    def seq(self, stmts):
        out = [self.stmt(s) for s in stmts]
        out = [o for o in out if o is not None]
        if not out:
            return "SPass"
        term = out[-1]
        for o in reversed(out[:-1]):
            term = f"(SSeq {o} {term})"
        return term

    def stmt(self, s):
        txt = ast.unparse(s).strip()
        if txt in self.spec.get("stmt_map", {}):
            return self.spec["stmt_map"][txt]
        if isinstance(s, ast.Expr):
            if isinstance(s.value, ast.Constant) and isinstance(s.value.value, str):
                return None
            cc = self.is_collab_call(s.value)
            if cc:
                return f"(SCall {_cstr(cc[0])} [{'; '.join(self.value_exp(a) for a in cc[1])}])"
            self.bad(s, "expression statement " + txt[:60])
        if isinstance(s, ast.Pass):
            return "SPass"
        if isinstance(s, ast.Assign):
            if len(s.targets) != 1:
                self.bad(s, "multiple targets")
            t = s.targets[0]
            cc = self.is_collab_call(s.value)
            if isinstance(t, ast.Attribute) and isinstance(t.value, ast.Name) and t.value.id == "self":
                if t.attr not in self.spec["fields"]:
                    self.bad(s, f"assignment to non-whitelisted field self.{t.attr}")
                if cc:
                    return f"(SFieldCall {_cstr(t.attr)} {_cstr(cc[0])} [{'; '.join(self.value_exp(a) for a in cc[1])}])"
                return f"(SAssign {_cstr(t.attr)} {self.value_exp(s.value)})"
            if isinstance(t, ast.Name):
                if cc:
                    self.locals.add(t.id)
                    return f"(SLocalCall {_cstr(t.id)} {_cstr(cc[0])} [{'; '.join(self.value_exp(a) for a in cc[1])}])"
                self.bad(s, "local assignment from a non-collaborator expression")
            self.bad(s, "assignment target")
        if isinstance(s, ast.AugAssign):
            t = s.target
            if not (isinstance(t, ast.Attribute) and isinstance(t.value, ast.Name) and t.value.id == "self"
                    and t.attr in self.spec["fields"]):
                self.bad(s, "augmented assignment target")
            if not (isinstance(s.value, ast.Constant) and isinstance(s.value.value, int)):
                self.bad(s, "augmented assignment by a non-constant")
            if isinstance(s.op, ast.Add):
                return f"(SAugAdd {_cstr(t.attr)} ({s.value.value})%Z)"
            if isinstance(s.op, ast.Sub):
                return f"(SAugSub {_cstr(t.attr)} ({s.value.value})%Z)"
            self.bad(s, "augmented operator")
        if isinstance(s, ast.Raise):
            if s.cause is not None or s.exc is None:
                self.bad(s, "raise form")
            e = s.exc
            if isinstance(e, ast.Call):
                e = e.func
            name = e.attr if isinstance(e, ast.Attribute) else (e.id if isinstance(e, ast.Name) else None)
            if name is None or name not in self.spec["exceptions"]:
                self.bad(s, f"raise of non-whitelisted exception {txt[:60]}")
            return f"(SRaise {_cstr(name)})"
        if isinstance(s, ast.Return):
            if s.value is None:
                return "(SReturn ENone)"
            return f"(SReturn {self.value_exp(s.value)})"
        if isinstance(s, ast.If):
            c = self.test_exp(s.test)
            saved = set(self.locals)
            a = self.seq(s.body)
            la = set(self.locals)
            self.locals = set(saved)
            b = self.seq(s.orelse) if s.orelse else "SPass"
            lb = set(self.locals)
            self.locals = la & lb
            return f"(SIf {c}\n   {a}\n   {b})"
        if isinstance(s, ast.Try):
            if s.handlers or s.orelse or not s.finalbody:
                self.bad(s, "try with except/else (only try/finally is modelled)")
            return f"(STryFinally {self.seq(s.body)} {self.seq(s.finalbody)})"
        self.bad(s, "statement " + type(s).__name__)


def translate_class(repo, relfile, spec, out_path, header_imports):
    """spec: dict(classname, collab, fields, exceptions, methods{name: [argnames]}, exp_map, stmt_map, prefix)."""
    path = os.path.join(repo, relfile)
    src = open(path).read()
    tree = ast.parse(src)
    info = {"files": [os.path.relpath(out_path, os.path.dirname(os.path.dirname(out_path)))], "functions": {},
            "abstractions": {"exp_map": spec.get("exp_map", {}), "stmt_map": spec.get("stmt_map", {})}}
    chunks = []
    for mname, argnames in spec["methods"].items():
        fn = find_function(tree, spec["classname"] + "." + mname)
        if fn is None or not isinstance(fn, ast.FunctionDef):
            raise TranslatorUnsupported(relfile, 0, f"method {spec['classname']}.{mname} not found")
        a = fn.args
        if a.vararg or a.kwarg or a.kwonlyargs or a.posonlyargs:
            raise TranslatorUnsupported(relfile, fn.lineno, "star/keyword-only arguments")
        params = [x.arg for x in a.args]
        if params != ["self"] + list(argnames):
            raise TranslatorUnsupported(relfile, fn.lineno, f"signature changed: {params}")
        for d in a.defaults:
            if not (isinstance(d, ast.Constant) and d.value is None):
                raise TranslatorUnsupported(relfile, fn.lineno, "default other than None")
        wrap = None
        for dec in fn.decorator_list:
            if (isinstance(dec, ast.Call) and isinstance(dec.func, ast.Name) and dec.func.id == "only_raises"
                    and not dec.keywords):
                names = []
                for x in dec.args:
                    nm = x.attr if isinstance(x, ast.Attribute) else (x.id if isinstance(x, ast.Name) else None)
                    if nm is None:
                        raise TranslatorUnsupported(relfile, fn.lineno, "only_raises argument")
                    names.append(nm)
                wrap = names
            else:
                raise TranslatorUnsupported(relfile, fn.lineno, "decorator " + ast.unparse(dec))
        seg = ast.get_source_segment(src, fn)
        sha = hashlib.sha256(seg.encode()).hexdigest()
        info["functions"][f"{relfile}:{spec['classname']}.{mname}"] = sha
        mt = MethodTranslator(relfile, spec, argnames)
        body = mt.seq(fn.body)
        if wrap is not None:
            body = "(SOnlyRaises [" + "; ".join(_cstr(n) for n in wrap) + "] " + body + ")"
        chunks.append(f"(* {relfile}:{spec['classname']}.{mname} line {fn.lineno} sha256 {sha} *)\n"
                      f"Definition {spec['prefix']}_{mname} : stmt :=\n  {body}.\n")
    text = ("(* GENERATED on every run by tools/py2coq.py (class mode) from /repo -- do not edit. *)\n"
            + header_imports.strip() + "\n\n" + "\n".join(chunks))
    os.makedirs(os.path.dirname(out_path), exist_ok=True)
    old = open(out_path).read() if os.path.exists(out_path) else None
    if old != text:
        with open(out_path, "w") as f:
            f.write(text)
    info["sha256_generated"] = hashlib.sha256(text.encode()).hexdigest()
    return info
