"""py2coq -- fail-closed Python-ast -> Gallina translator (tie T).

Function mode: small pure functions (if/elif/else, return, local assignment,
tuple unpacking, ==, !=, in, not in, and/or/not, len, set, list comprehensions
with one generator, singleton set .pop() under a `len(S) == 1` test, calls to
other whitelisted functions).  Values of unknown Python type are modelled by a
Section variable A with a boolean equality A_eqb.

Anything outside the subset raises TranslatorUnsupported(file, line, what):
never a silent skip.  The emitted file records the sha256 of the source text
of every translated function.
"""
from __future__ import annotations

import ast
import hashlib
import os
import textwrap


class TranslatorUnsupported(Exception):
    def __init__(self, file, line, what):
        super().__init__(f"{file}:{line}: unsupported construct: {what}")
        self.file, self.line, self.what = file, line, what


def find_function(tree, qualname):
    parts = qualname.split(".")
    body = tree.body
    node = None
    for i, p in enumerate(parts):
        found = None
        for n in body:
            if isinstance(n, (ast.FunctionDef, ast.ClassDef)) and n.name == p:
                found = n
                break
        if found is None:
            return None
        node = found
        body = found.body
    return node


class FnTranslator:
    """Translate one function into a Gallina term (as text)."""

    def __init__(self, file, src, spec, common):
        self.file, self.src, self.spec, self.common = file, src, spec, common
        self.env = {}       # python name -> type  ('A', 'list A', 'set A', 'nat', 'bool', 'A * list A', 'enum:<name>')
        self.rename = {}    # python name -> coq identifier

    def bad(self, node, what):
        raise TranslatorUnsupported(self.file, getattr(node, "lineno", 0), what)

    # ---- expressions ------------------------------------------------------
    def name(self, n):
        return self.rename.get(n, n if n not in ("this", "other", "base") else n)

    def typ(self, e):
        if isinstance(e, ast.Name):
            if e.id not in self.env:
                self.bad(e, f"unknown name {e.id}")
            return self.env[e.id]
        if isinstance(e, ast.Constant):
            if isinstance(e.value, bool):
                return "bool"
            if isinstance(e.value, int):
                return "nat"
            if isinstance(e.value, str):
                enum = self.common["strings"].get(e.value)
                if enum is None:
                    self.bad(e, f"string constant {e.value!r} not in the enum whitelist")
                return "enum"
            if e.value is None:
                return "none"
        if isinstance(e, ast.Call):
            f = e.func
            if isinstance(f, ast.Name) and f.id == "len":
                return "nat"
            if isinstance(f, ast.Name) and f.id == "set":
                return "set A"
            if isinstance(f, ast.Attribute) and f.attr == "pop":
                return "A"
            cn = self.callname(f)
            if cn in self.common["calls"]:
                return self.common["calls"][cn][1]
        if isinstance(e, ast.ListComp):
            return "list A"
        if isinstance(e, (ast.Compare, ast.BoolOp)):
            return "bool"
        if isinstance(e, ast.UnaryOp) and isinstance(e.op, ast.Not):
            return "bool"
        if isinstance(e, (ast.Tuple, ast.List)):
            return "list A"
        self.bad(e, "cannot type " + ast.dump(e)[:80])

    def callname(self, f):
        if isinstance(f, ast.Name):
            return f.id
        if isinstance(f, ast.Attribute):
            base = self.callname(f.value)
            return (base + "." if base else "") + f.attr
        return None

    def expr(self, e):
        if isinstance(e, ast.Name):
            if e.id not in self.env:
                self.bad(e, f"unknown name {e.id}")
            return self.name(e.id)
        if isinstance(e, ast.Constant):
            if isinstance(e.value, bool):
                return "true" if e.value else "false"
            if isinstance(e.value, int) and 0 <= e.value < 1000:
                return str(e.value)
            if isinstance(e.value, str):
                enum = self.common["strings"].get(e.value)
                if enum is None:
                    self.bad(e, f"string constant {e.value!r} not in the enum whitelist")
                return enum
            self.bad(e, f"constant {e.value!r}")
        if isinstance(e, ast.Compare):
            if len(e.ops) != 1:
                self.bad(e, "chained comparison")
            op, l, r = e.ops[0], e.left, e.comparators[0]
            if isinstance(op, (ast.Eq, ast.NotEq)):
                tl, tr = self.typ(l), self.typ(r)
                if tl == "nat" or tr == "nat":
                    if not (tl == "nat" and tr == "nat"):
                        self.bad(e, f"== between {tl} and {tr}")
                    s = f"(Nat.eqb {self.expr(l)} {self.expr(r)})"
                elif tl == "A" and tr == "A":
                    s = f"(A_eqb {self.expr(l)} {self.expr(r)})"
                else:
                    self.bad(e, f"== between {tl} and {tr}")
                return s if isinstance(op, ast.Eq) else f"(negb {s})"
            if isinstance(op, (ast.In, ast.NotIn)):
                if self.typ(l) != "A":
                    self.bad(e, "membership of a non-scalar")
                if isinstance(r, (ast.Tuple, ast.List)):
                    for x in r.elts:
                        if self.typ(x) != "A":
                            self.bad(e, "container element type")
                    c = "[" + "; ".join(self.expr(x) for x in r.elts) + "]"
                elif self.typ(r) in ("list A", "set A"):
                    c = self.expr(r)
                else:
                    self.bad(e, "membership in " + self.typ(r))
                s = f"(py_in A_eqb {self.expr(l)} {c})"
                return s if isinstance(op, ast.In) else f"(negb {s})"
            self.bad(e, "comparison operator " + type(op).__name__)
        if isinstance(e, ast.BoolOp):
            for v in e.values:
                if self.typ(v) != "bool":
                    self.bad(e, "boolean operator on non-bool (Python truthiness is not modelled)")
            op = " && " if isinstance(e.op, ast.And) else " || "
            return "(" + op.join(self.expr(v) for v in e.values) + ")"
        if isinstance(e, ast.UnaryOp) and isinstance(e.op, ast.Not):
            if self.typ(e.operand) != "bool":
                self.bad(e, "not on non-bool")
            return f"(negb {self.expr(e.operand)})"
        if isinstance(e, ast.Call):
            f = e.func
            if e.keywords:
                self.bad(e, "keyword arguments")
            if isinstance(f, ast.Name) and f.id == "len" and len(e.args) == 1:
                if self.typ(e.args[0]) not in ("list A", "set A"):
                    self.bad(e, "len of " + self.typ(e.args[0]))
                return f"(length {self.expr(e.args[0])})"
            if isinstance(f, ast.Name) and f.id == "set" and len(e.args) == 1:
                if self.typ(e.args[0]) != "list A":
                    self.bad(e, "set() of " + self.typ(e.args[0]))
                return f"(py_set A_eqb {self.expr(e.args[0])})"
            cn = self.callname(f)
            if cn in self.common["calls"]:
                coqname, _rt = self.common["calls"][cn]
                return "(" + coqname + " " + " ".join(self.expr(a) for a in e.args) + ")"
            self.bad(e, f"call to {cn}")
        if isinstance(e, ast.ListComp):
            if len(e.generators) != 1:
                self.bad(e, "comprehension with several generators")
            g = e.generators[0]
            if not isinstance(g.target, ast.Name) or g.is_async:
                self.bad(e, "comprehension target")
            if self.typ(g.iter) != "list A":
                self.bad(e, "comprehension over " + self.typ(g.iter))
            v = g.target.id
            saved = self.env.get(v)
            self.env[v] = "A"
            try:
                conds = [self.expr(c) for c in g.ifs]
                for c in g.ifs:
                    if self.typ(c) != "bool":
                        self.bad(e, "comprehension filter is not a bool")
                if not (isinstance(e.elt, ast.Name) and e.elt.id == v):
                    self.bad(e, "comprehension element is not the loop variable")
                cond = " && ".join(conds) if conds else "true"
                return f"(filter (fun {self.name(v)} => {cond}) {self.expr(g.iter)})"
            finally:
                if saved is None:
                    del self.env[v]
                else:
                    self.env[v] = saved
        self.bad(e, "expression " + type(e).__name__)

    # ---- statements -------------------------------------------------------
    def always_returns(self, stmts):
        for s in stmts:
            if isinstance(s, ast.Return):
                return True
            if isinstance(s, ast.If) and s.orelse and self.always_returns(s.body) and self.always_returns(s.orelse):
                return True
        return False

    def block(self, stmts, ind):
        pad = "  " * ind
        if not stmts:
            raise TranslatorUnsupported(self.file, 0, "control reaches the end of the function without return")
        s, rest = stmts[0], stmts[1:]
        if isinstance(s, ast.Expr) and isinstance(s.value, ast.Constant) and isinstance(s.value.value, str):
            return self.block(rest, ind)      # docstring
        if isinstance(s, ast.Return):
            if s.value is None:
                self.bad(s, "bare return")
            return pad + self.expr(s.value)
        if isinstance(s, ast.Assign):
            if len(s.targets) != 1:
                self.bad(s, "multiple assignment targets")
            t = s.targets[0]
            if isinstance(t, ast.Name):
                ty = self.typ(s.value)
                v = self.expr(s.value)
                if t.id in self.env:
                    self.bad(s, f"re-assignment of {t.id}")
                self.env[t.id] = ty
                return pad + f"let {self.name(t.id)} := {v} in\n" + self.block(rest, ind)
            if isinstance(t, ast.Tuple) and all(isinstance(x, ast.Name) for x in t.elts):
                ty = self.typ(s.value)
                parts = [p.strip() for p in ty.split("*")]
                if len(parts) != len(t.elts):
                    self.bad(s, f"tuple unpacking of {ty}")
                for x, p in zip(t.elts, parts):
                    if x.id in self.env:
                        self.bad(s, f"re-assignment of {x.id}")
                    self.env[x.id] = p
                names = ", ".join(self.name(x.id) for x in t.elts)
                return pad + f"let '({names}) := {self.expr(s.value)} in\n" + self.block(rest, ind)
            self.bad(s, "assignment target")
        if isinstance(s, ast.If):
            # singleton-set pop idiom
            popname = self.singleton_test(s.test)
            then_stmts = s.body if self.always_returns(s.body) else s.body + rest
            if s.orelse:
                else_stmts = s.orelse if self.always_returns(s.orelse) else s.orelse + rest
            else:
                else_stmts = rest
            if popname and self.uses_pop(s.body, popname):
                fresh = popname + "_only"
                saved = dict(self.env)
                self.env[fresh] = "A"
                try:
                    th = self.block(self.subst_pop(then_stmts, popname, fresh), ind + 2)
                finally:
                    self.env = saved
                el = self.block(else_stmts, ind + 2)
                return (pad + f"match {self.name(popname)} with\n" + pad + f"| [{fresh}] =>\n" + th + "\n" +
                        pad + "| _ =>\n" + el + "\n" + pad + "end")
            if self.typ(s.test) != "bool":
                self.bad(s, "if on a non-bool (Python truthiness is not modelled)")
            c = self.expr(s.test)
            saved = dict(self.env)
            th = self.block(then_stmts, ind + 1)
            self.env = dict(saved)
            el = self.block(else_stmts, ind + 1)
            self.env = saved
            return pad + f"if {c} then\n{th}\n" + pad + f"else\n{el}"
        self.bad(s, "statement " + type(s).__name__)

    def singleton_test(self, t):
        if (isinstance(t, ast.Compare) and len(t.ops) == 1 and isinstance(t.ops[0], ast.Eq)
                and isinstance(t.left, ast.Call) and isinstance(t.left.func, ast.Name) and t.left.func.id == "len"
                and len(t.left.args) == 1 and isinstance(t.left.args[0], ast.Name)
                and isinstance(t.comparators[0], ast.Constant) and t.comparators[0].value == 1
                and self.env.get(t.left.args[0].id) == "set A"):
            return t.left.args[0].id
        return None

    def uses_pop(self, stmts, name):
        for n in ast.walk(ast.Module(body=stmts, type_ignores=[])):
            if (isinstance(n, ast.Call) and isinstance(n.func, ast.Attribute) and n.func.attr == "pop"
                    and isinstance(n.func.value, ast.Name) and n.func.value.id == name and not n.args):
                return True
        return False

    def subst_pop(self, stmts, name, fresh):
        class T(ast.NodeTransformer):
            def visit_Call(self, n):
                self.generic_visit(n)
                if (isinstance(n.func, ast.Attribute) and n.func.attr == "pop" and isinstance(n.func.value, ast.Name)
                        and n.func.value.id == name and not n.args):
                    return ast.copy_location(ast.Name(id=fresh, ctx=ast.Load()), n)
                return n
        import copy
        return [T().visit(copy.deepcopy(s)) for s in stmts]

    def translate(self, fn):
        a = fn.args
        if a.vararg or a.kwarg or a.kwonlyargs or a.posonlyargs:
            self.bad(fn, "star/keyword-only arguments")
        params = [x.arg for x in a.args]
        if params and params[0] == "self" and not self.spec.get("keep_self"):
            self.bad(fn, "method with self (function mode translates static functions only)")
        if params != list(self.spec["params"].keys()):
            self.bad(fn, f"signature changed: {params} (expected {list(self.spec['params'])})")
        ndef = len(a.defaults)
        defaults = {}
        for p, d in zip(params[len(params) - ndef:], a.defaults):
            if not isinstance(d, ast.Constant):
                self.bad(fn, "non-constant default")
            defaults[p] = d.value
        if defaults != self.spec.get("defaults", {}):
            self.bad(fn, f"defaults changed: {defaults}")
        for dec in fn.decorator_list:
            if not (isinstance(dec, ast.Name) and dec.id == "staticmethod"):
                self.bad(fn, "decorator")
        binders = []
        for p, ty in self.spec["params"].items():
            self.env[p] = ty
            self.rename[p] = p + "_" if p in ("this", "other") else p
            coq_ty = ty.replace("set A", "list A")
            binders.append(f"({self.rename[p]} : {coq_ty})")
        body = self.block(fn.body, 1)
        return (f"Definition {self.spec['coq_name']} {' '.join(binders)} : {self.spec['returns']} :=\n{body}.\n")


def translate_functions(repo, relfile, specs, common, header_imports, out_path, section_vars=True):
    """specs: list of dict(qualname, coq_name, params{name:type}, returns, defaults).
    Returns info dict (sha256 per function)."""
    path = os.path.join(repo, relfile)
    src = open(path).read()
    tree = ast.parse(src)
    info = {"files": [os.path.relpath(out_path, os.path.dirname(os.path.dirname(out_path)))], "functions": {}}
    chunks = []
    for spec in specs:
        fn = find_function(tree, spec["qualname"])
        if fn is None or not isinstance(fn, ast.FunctionDef):
            raise TranslatorUnsupported(relfile, 0, f"function {spec['qualname']} not found")
        seg = ast.get_source_segment(src, fn)
        sha = hashlib.sha256(seg.encode()).hexdigest()
        info["functions"][f"{relfile}:{spec['qualname']}"] = sha
        tr = FnTranslator(relfile, src, spec, common)
        chunks.append(f"(* {relfile}:{spec['qualname']} line {fn.lineno} sha256 {sha} *)\n" + tr.translate(fn))
    text = ("(* GENERATED on every run by tools/py2coq.py from /repo -- do not edit. *)\n"
            + header_imports.strip() + "\n\nSection Gen.\nVariable A : Type.\nVariable A_eqb : A -> A -> bool.\n\n"
            + "\n".join(chunks) + "\nEnd Gen.\n")
    os.makedirs(os.path.dirname(out_path), exist_ok=True)
    old = open(out_path).read() if os.path.exists(out_path) else None
    if old != text:
        with open(out_path, "w") as f:
            f.write(text)
    info["sha256_generated"] = hashlib.sha256(text.encode()).hexdigest()
    return info
