"""Validate a seeded defect and run the matching check against it.

usage: tools/seeded.py <dir with patch.diff demo.py meta.json> [--inplace]

Default: a scratch worktree of /repo HEAD (outside /repo and /verif) gets the patch, demo.py is
run against /repo (must exit 0) and the worktree (must exit != 0), then `VERIF_REPO=<wt> ./check Cxx`
must print a VIOLATION line.  --inplace applies the patch to /repo itself (git apply) and undoes it
(git checkout -- .) straight afterwards.  The outcome is recorded in meta.json under "verif".
"""
import json
import os
import shutil
import subprocess
import sys
import tempfile
import time

ROOT = os.path.dirname(os.path.dirname(os.path.abspath(__file__)))


def sh(cmd, **kw):
    p = subprocess.run(cmd, shell=isinstance(cmd, str), stdout=subprocess.PIPE, stderr=subprocess.STDOUT, text=True, **kw)
    return p.returncode, p.stdout


def main():
    d = os.path.abspath(sys.argv[1])
    inplace = "--inplace" in sys.argv
    meta = json.load(open(os.path.join(d, "meta.json")))
    pid = meta["property"]
    patch = os.path.join(d, "patch.diff")
    env = dict(os.environ, BRZ_EMAIL="t <t@e>", PYTHONHASHSEED="0", PYTHONDONTWRITEBYTECODE="1")
    home = tempfile.mkdtemp(prefix="seeded-home-")
    env["BRZ_HOME"] = home
    wt = tempfile.mkdtemp(prefix=f"seeded-{pid}-")
    os.rmdir(wt)
    out = {"ran_at": time.strftime("%Y-%m-%dT%H:%M:%SZ", time.gmtime())}
    try:
        rc0, o0 = sh(["/venv/bin/python", os.path.join(d, "demo.py"), "/repo"], env=dict(env, PYTHONPATH="/repo"), cwd=home)
        out["demo_unchanged_rc"] = rc0
        if inplace:
            target = "/repo"
            rc, o = sh(["git", "-C", "/repo", "apply", patch])
        else:
            target = wt
            rc, o = sh(["git", "-C", "/repo", "worktree", "add", "--detach", wt, "HEAD"])
            if rc == 0:
                sh(f"cp /repo/breezy/*.so {wt}/breezy/")
                rc, o = sh(["git", "-C", wt, "apply", patch])
                if rc != 0:
                    # /repo HEAD moved (fix: commits) since the patch was made: retry with fuzz
                    rc, o2 = sh(f"patch -p1 -F3 --no-backup-if-mismatch < {patch}", cwd=wt)
                    o += o2
                    if rc == 0:
                        out["applied_with_fuzz"] = True
        if rc != 0:
            out["error"] = "patch does not apply: " + o[-500:]
        else:
            if any(l.startswith("+++ ") and l.strip().endswith(".rs") for l in open(patch)):
                out["note"] = "rust change: the check rebuilds the crate (cargo cache copied into the worktree to avoid a cold build)"
                if not inplace:
                    sh(f"cp -r /repo/target {wt}/target")
            rc1, o1 = sh(["/venv/bin/python", os.path.join(d, "demo.py"), target], env=dict(env, PYTHONPATH=target), cwd=home)
            out["demo_changed_rc"] = rc1
            out["demo_changed_tail"] = o1[-400:]
            t0 = time.time()
            cenv = dict(os.environ)
            if not inplace:
                cenv["VERIF_REPO"] = wt
            rc2, o2 = sh([os.path.join(ROOT, "check"), pid], env=cenv, cwd=ROOT)
            out["check_cmd"] = ("" if inplace else f"VERIF_REPO={wt} ") + f"./check {pid}"
            out["check_rc"] = rc2
            out["check_wall_s"] = round(time.time() - t0, 1)
            vl = [l for l in o2.splitlines() if l.startswith("VIOLATION")]
            out["violation_lines"] = vl
            out["detected"] = bool(vl) and rc2 == 1
            out["detected_with_input"] = any("no-failing-input-found" not in l for l in vl)
            if "note" in out:   # rust patch: the .so in the worktree is only rebuilt by the check; re-run the demo now
                rc1, o1 = sh(["/venv/bin/python", os.path.join(d, "demo.py"), target], env=dict(env, PYTHONPATH=target), cwd=home)
                out["demo_changed_rc"] = rc1
                out["demo_changed_tail"] = o1[-400:]
            for l in vl[:1]:
                rp = l.split("replay=")[1].split()[0]
                try:
                    out["replay_excerpt"] = open(os.path.join(ROOT, rp)).read()[:1500]
                except OSError:
                    pass
    finally:
        if inplace:
            sh(["git", "-C", "/repo", "checkout", "--", "."])
        else:
            sh(["git", "-C", "/repo", "worktree", "remove", "--force", wt])
            shutil.rmtree(wt, ignore_errors=True)
        shutil.rmtree(home, ignore_errors=True)
    meta["verif"] = out
    json.dump(meta, open(os.path.join(d, "meta.json"), "w"), indent=1)
    print(json.dumps({k: out.get(k) for k in ("demo_unchanged_rc", "demo_changed_rc", "check_rc", "detected", "detected_with_input", "violation_lines", "error")}, indent=1))


main()
