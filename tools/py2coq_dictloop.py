"""py2coq_dictloop -- fail-closed Python-ast -> Gallina translator (tie T) for
"one loop over dict items updating accumulators" functions.

Accepted shape (anything else raises py2coq.TranslatorUnsupported -- never a
silent skip):

    def f(p1, ..., pn):                      # exact parameter list of the spec, no defaults/decorators
        "docstring"
        acc = []            |  acc = {}  |  acc = dict(<dict parameter>)        # one or more accumulators
        for k, v in <dict parameter>.items():
            <body>
        return acc_i, acc_j, ...             # a tuple naming every accumulator exactly once

    <body> statements:   pass | continue | if/elif/else | D[k'] = v' | L.append((e1, ..., em))
    expressions:         bool parameters, the loop variables, True/False, not/and/or on bools,
                         D.get(k) == v, v == D.get(k), x == y, x != y, k in D, k not in D, D[k],
                         `sel and <bool using sel(k)>` for an optional-callable parameter sel
                         (Python truthiness of None-or-function).

Meaning given to the subset (the trusted part, validated on every run by the
correspondence cases that call the Python function itself):

  * types: keys K and values V are abstract (Section variables) with boolean
    equalities K_eqb/V_eqb standing for Python ==;
  * a dict is an association list in insertion order (Lib/PyDict.v);
    `D[k] = v` is dict_set (replace in place / append at the end);
    `D.get(k)` and `D[k]` are dict_get : option V.  `D[k]` is NOT totalised:
    a tuple that stores `D[k]` stores the option (None would be a KeyError);
  * `D.get(k) == v` compares `dict_get D k` with `Some v` (values are never None);
  * `L.append(t)` is `L ++ [t]`;
  * the loop is `fold_left body <iterated dict> (initial accumulators)`, the
    state being the accumulators in the order of the return tuple; `continue`
    returns the current state;
  * an optional callable `sel : option (K -> bool)`: `sel and e` is
    `match sel with None => false | Some sel_fn => e end` and `sel(k)` (allowed
    only under such a guard) is `sel_fn k`.

The emitted file records the sha256 of the function's source text.
"""
from __future__ import annotations

import ast
import hashlib
import os

from py2coq import TranslatorUnsupported, find_function

RESERVED = {
    "fun", "let", "in", "match", "with", "end", "if", "then", "else", "forall", "exists", "fix", "as", "return",
    "Some", "None", "true", "false", "K", "V", "K_eqb", "V_eqb", "st", "kv", "dict", "dict_get", "dict_set",
    "dict_mem", "opt_eqb", "negb", "fold_left", "list", "option", "bool", "Type", "Prop", "Set",
}


class DictLoopTranslator:
    def __init__(self, file, spec):
        self.file, self.spec = file, spec
        self.params = dict(spec["params"])     # name -> 'dict' | 'bool' | 'optfn'
        self.acc = {}                          # accumulator name -> 'dict' | 'list'
        self.acc_init = {}                     # accumulator name -> coq initial value
        self.list_elt = {}                     # list accumulator -> tuple of element types
        self.loopvars = {}                     # name -> 'K' | 'V'
        self.guarded = set()                   # optfn names that are known to be callables here
        self.subscript_reads = []              # (line, text): D[k] reads (carried as options)

    def bad(self, node, what):
        raise TranslatorUnsupported(self.file, getattr(node, "lineno", 0), what)

    def ident(self, node, name):
        if name in RESERVED or not name.isidentifier() or name.endswith("_fn"):
            self.bad(node, f"identifier {name!r} clashes with a name used by the translation")
        return name

    # ------------------------------------------------------------ expressions
    def is_dict(self, e):
        return isinstance(e, ast.Name) and (self.acc.get(e.id) == "dict" or self.params.get(e.id) == "dict")

    def expr(self, e):
        """-> (coq text, type) with type in {'bool','K','V','optV'}"""
        if isinstance(e, ast.Name):
            if e.id in self.loopvars:
                return e.id, self.loopvars[e.id]
            if self.params.get(e.id) == "bool":
                return e.id, "bool"
            if self.params.get(e.id) == "optfn":
                self.bad(e, f"optional callable {e.id} used as a value (only `{e.id} and ...` / `{e.id}(k)` are modelled)")
            self.bad(e, f"name {e.id} is not a scalar here")
        if isinstance(e, ast.Constant) and isinstance(e.value, bool):
            return ("true" if e.value else "false"), "bool"
        if isinstance(e, ast.UnaryOp) and isinstance(e.op, ast.Not):
            c, t = self.expr(e.operand)
            if t != "bool":
                self.bad(e, "not on a non-bool (Python truthiness is not modelled)")
            return f"(negb {c})", "bool"
        if isinstance(e, ast.BoolOp):
            vals = list(e.values)
            if (isinstance(e.op, ast.And) and isinstance(vals[0], ast.Name)
                    and self.params.get(vals[0].id) == "optfn"):
                sel = vals[0].id
                if sel in self.guarded:
                    self.bad(e, "nested guard on the same optional callable")
                self.guarded.add(sel)
                try:
                    parts = [self.expr(v) for v in vals[1:]]
                finally:
                    self.guarded.discard(sel)
                for c, t in parts:
                    if t != "bool":
                        self.bad(e, "and on a non-bool")
                inner = " && ".join(c for c, _ in parts)
                return f"(match {sel} with None => false | Some {sel}_fn => ({inner}) end)", "bool"
            parts = [self.expr(v) for v in vals]
            for c, t in parts:
                if t != "bool":
                    self.bad(e, "boolean operator on a non-bool (Python truthiness is not modelled)")
            op = " && " if isinstance(e.op, ast.And) else " || "
            return "(" + op.join(c for c, _ in parts) + ")", "bool"
        if isinstance(e, ast.Compare):
            if len(e.ops) != 1:
                self.bad(e, "chained comparison")
            op, l, r = e.ops[0], e.left, e.comparators[0]
            if isinstance(op, (ast.In, ast.NotIn)):
                cl, tl = self.expr(l)
                if tl != "K" or not self.is_dict(r):
                    self.bad(e, "membership other than <key> in <dict>")
                s = f"(dict_mem K_eqb {r.id} {cl})"
                return (s if isinstance(op, ast.In) else f"(negb {s})"), "bool"
            if isinstance(op, (ast.Eq, ast.NotEq)):
                (cl, tl), (cr, tr) = self.expr(l), self.expr(r)
                if (tl, tr) == ("optV", "V"):
                    s = f"(opt_eqb V_eqb {cl} (Some {cr}))"
                elif (tl, tr) == ("V", "optV"):
                    s = f"(opt_eqb V_eqb (Some {cl}) {cr})"
                elif (tl, tr) == ("optV", "optV"):
                    s = f"(opt_eqb V_eqb {cl} {cr})"
                elif (tl, tr) == ("V", "V"):
                    s = f"(V_eqb {cl} {cr})"
                elif (tl, tr) == ("K", "K"):
                    s = f"(K_eqb {cl} {cr})"
                elif (tl, tr) == ("bool", "bool"):
                    s = f"(Bool.eqb {cl} {cr})"
                else:
                    self.bad(e, f"== between {tl} and {tr}")
                return (s if isinstance(op, ast.Eq) else f"(negb {s})"), "bool"
            self.bad(e, "comparison operator " + type(op).__name__)
        if isinstance(e, ast.Call):
            f = e.func
            if e.keywords:
                self.bad(e, "keyword arguments")
            if isinstance(f, ast.Attribute) and f.attr == "get" and self.is_dict(f.value) and len(e.args) == 1:
                ck, tk = self.expr(e.args[0])
                if tk != "K":
                    self.bad(e, ".get of a non-key")
                return f"(dict_get K_eqb {f.value.id} {ck})", "optV"
            if isinstance(f, ast.Name) and self.params.get(f.id) == "optfn" and len(e.args) == 1:
                if f.id not in self.guarded:
                    self.bad(e, f"call of optional callable {f.id} outside a `{f.id} and ...` guard")
                ck, tk = self.expr(e.args[0])
                if tk != "K":
                    self.bad(e, "selector applied to a non-key")
                return f"({f.id}_fn {ck})", "bool"
            self.bad(e, "call " + ast.unparse(e)[:60])
        if isinstance(e, ast.Subscript) and isinstance(e.ctx, ast.Load) and self.is_dict(e.value):
            ck, tk = self.expr(e.slice)
            if tk != "K":
                self.bad(e, "subscript by a non-key")
            self.subscript_reads.append((e.lineno, ast.unparse(e)))
            return f"(dict_get K_eqb {e.value.id} {ck})", "optV"
        self.bad(e, "expression " + ast.unparse(e)[:60])

    # ------------------------------------------------------------- statements
    def state(self):
        return "(" + ", ".join(self.order) + ")"

    def block(self, stmts, ind):
        pad = "  " * ind
        if not stmts:
            return pad + self.state()
        s, rest = stmts[0], stmts[1:]
        if isinstance(s, ast.Pass):
            return self.block(rest, ind)
        if isinstance(s, ast.Continue):
            return pad + self.state()
        if isinstance(s, ast.If):
            c, t = self.expr(s.test)
            if t != "bool":
                self.bad(s, "if on a non-bool (Python truthiness is not modelled)")
            th = self.block(list(s.body) + rest, ind + 1)
            el = self.block(list(s.orelse) + rest, ind + 1)
            return f"{pad}if {c} then\n{th}\n{pad}else\n{el}"
        if isinstance(s, ast.Assign):
            if len(s.targets) != 1:
                self.bad(s, "multiple assignment targets")
            t = s.targets[0]
            if (isinstance(t, ast.Subscript) and isinstance(t.value, ast.Name)
                    and self.acc.get(t.value.id) == "dict"):
                ck, tk = self.expr(t.slice)
                cv, tv = self.expr(s.value)
                if tk != "K" or tv != "V":
                    self.bad(s, f"dict store of ({tk} -> {tv})")
                d = t.value.id
                return f"{pad}let {d} := dict_set K_eqb {d} {ck} {cv} in\n" + self.block(rest, ind)
            self.bad(s, "assignment other than <accumulator dict>[key] = value")
        if isinstance(s, ast.Expr) and isinstance(s.value, ast.Call):
            c = s.value
            f = c.func
            if (isinstance(f, ast.Attribute) and f.attr == "append" and isinstance(f.value, ast.Name)
                    and self.acc.get(f.value.id) == "list" and len(c.args) == 1 and not c.keywords
                    and isinstance(c.args[0], ast.Tuple)):
                parts = [self.expr(x) for x in c.args[0].elts]
                tys = tuple(t for _, t in parts)
                if any(t == "bool" for t in tys):
                    self.bad(s, "bool inside an appended tuple")
                L = f.value.id
                if self.list_elt.setdefault(L, tys) != tys:
                    self.bad(s, f"{L}.append with differing tuple types")
                tup = "(" + ", ".join(cc for cc, _ in parts) + ")"
                return f"{pad}let {L} := {L} ++ [{tup}] in\n" + self.block(rest, ind)
            self.bad(s, "call statement " + ast.unparse(s)[:60])
        self.bad(s, "statement " + type(s).__name__)

    # ---------------------------------------------------------------- function
    COQ_TY = {"K": "K", "V": "V", "optV": "option V"}

    def acc_type(self, a):
        if self.acc[a] == "dict":
            return "dict K V"
        if a not in self.list_elt:
            raise TranslatorUnsupported(self.file, 0, f"list accumulator {a} is never appended to (element type unknown)")
        return "list (" + " * ".join(self.COQ_TY[t] for t in self.list_elt[a]) + ")"

    def param_binder(self, p):
        ty = {"dict": "dict K V", "bool": "bool", "optfn": "option (K -> bool)"}[self.params[p]]
        return f"({p} : {ty})"

    def translate(self, fn):
        a = fn.args
        if a.vararg or a.kwarg or a.kwonlyargs or a.posonlyargs or a.defaults or fn.decorator_list:
            self.bad(fn, "star/keyword-only arguments, defaults or decorators")
        params = [x.arg for x in a.args]
        if params != list(self.params):
            self.bad(fn, f"signature changed: {params} (expected {list(self.params)})")
        for p in params:
            self.ident(fn, p)
        body = list(fn.body)
        if body and isinstance(body[0], ast.Expr) and isinstance(body[0].value, ast.Constant) \
                and isinstance(body[0].value.value, str):
            body = body[1:]
        i = 0
        while i < len(body) and isinstance(body[i], ast.Assign):
            s = body[i]
            if len(s.targets) != 1 or not isinstance(s.targets[0], ast.Name):
                self.bad(s, "accumulator initialisation target")
            nm = self.ident(s, s.targets[0].id)
            if nm in self.acc or nm in self.params:
                self.bad(s, f"re-assignment of {nm}")
            v = s.value
            if isinstance(v, ast.List) and not v.elts:
                self.acc[nm], self.acc_init[nm] = "list", "[]"
            elif isinstance(v, ast.Dict) and not v.keys:
                self.acc[nm], self.acc_init[nm] = "dict", "[]"
            elif (isinstance(v, ast.Call) and isinstance(v.func, ast.Name) and v.func.id == "dict" and len(v.args) == 1
                  and not v.keywords and isinstance(v.args[0], ast.Name) and self.params.get(v.args[0].id) == "dict"):
                self.acc[nm], self.acc_init[nm] = "dict", v.args[0].id        # a copy: values are immutable in Gallina
            else:
                self.bad(s, "accumulator initialiser other than [] / {} / dict(<dict parameter>)")
            i += 1
        if not self.acc:
            self.bad(fn, "no accumulators")
        if i + 2 != len(body) or not isinstance(body[i], ast.For) or not isinstance(body[i + 1], ast.Return):
            self.bad(body[i] if i < len(body) else fn, "expected exactly: accumulators; one for loop; return")
        loop, ret = body[i], body[i + 1]
        if loop.orelse:
            self.bad(loop, "for/else")
        t = loop.target
        if not (isinstance(t, ast.Tuple) and len(t.elts) == 2 and all(isinstance(x, ast.Name) for x in t.elts)):
            self.bad(loop, "loop target is not `k, v`")
        kname, vname = self.ident(loop, t.elts[0].id), self.ident(loop, t.elts[1].id)
        if kname == vname or {kname, vname} & (set(self.acc) | set(self.params)):
            self.bad(loop, "loop variables shadow another name")
        it = loop.iter
        if not (isinstance(it, ast.Call) and not it.args and not it.keywords and isinstance(it.func, ast.Attribute)
                and it.func.attr == "items" and isinstance(it.func.value, ast.Name)
                and self.params.get(it.func.value.id) == "dict"):
            self.bad(loop, "loop is not over <dict parameter>.items()")
        iterated = it.func.value.id
        self.loopvars = {kname: "K", vname: "V"}
        if not (isinstance(ret.value, ast.Tuple) and all(isinstance(x, ast.Name) for x in ret.value.elts)):
            self.bad(ret, "return value is not a tuple of accumulators")
        self.order = [x.id for x in ret.value.elts]
        if sorted(self.order) != sorted(self.acc):
            self.bad(ret, f"return tuple {self.order} does not name every accumulator exactly once")
        body_txt = self.block(list(loop.body), 1)
        st_ty = " * ".join(self.acc_type(x) for x in self.order)
        others = [p for p in params if p != iterated]
        name = self.spec["coq_name"]
        out = []
        out.append(f"Definition {name}_body {' '.join(self.param_binder(p) for p in others)}\n"
                   f"    (st : {st_ty}) (kv : K * V) : {st_ty} :=\n"
                   f"  let '{self.state()} := st in\n"
                   f"  let '({kname}, {vname}) := kv in\n{body_txt}.\n")
        init = "(" + ", ".join(self.acc_init[x] for x in self.order) + ")"
        out.append(f"Definition {name} {' '.join(self.param_binder(p) for p in params)} : {st_ty} :=\n"
                   f"  fold_left ({name}_body {' '.join(others)}) {iterated} {init}.\n")
        return "\n".join(out)


def translate_dictloop(repo, relfile, spec, out_path):
    """spec: dict(qualname, coq_name, params{name: 'dict'|'bool'|'optfn'}).  Returns the info dict
    (source sha256 per function, sha256 of the generated text, D[k] reads carried as options)."""
    path = os.path.join(repo, relfile)
    src = open(path).read()
    tree = ast.parse(src)
    fn = find_function(tree, spec["qualname"])
    if fn is None or not isinstance(fn, ast.FunctionDef):
        raise TranslatorUnsupported(relfile, 0, f"function {spec['qualname']} not found")
    seg = ast.get_source_segment(src, fn)
    sha = hashlib.sha256(seg.encode()).hexdigest()
    tr = DictLoopTranslator(relfile, spec)
    body = tr.translate(fn)
    text = ("(* GENERATED on every run by tools/py2coq_dictloop.py from /repo -- do not edit. *)\n"
            "From Coq Require Import List Bool.\nImport ListNotations.\nFrom BV Require Import Lib.PyDict.\n\n"
            "Section Gen.\nVariable K V : Type.\nVariable K_eqb : K -> K -> bool.\nVariable V_eqb : V -> V -> bool.\n\n"
            f"(* {relfile}:{spec['qualname']} line {fn.lineno} sha256 {sha} *)\n" + body + "\nEnd Gen.\n")
    os.makedirs(os.path.dirname(out_path), exist_ok=True)
    old = open(out_path).read() if os.path.exists(out_path) else None
    if old != text:
        with open(out_path, "w") as f:
            f.write(text)
    return {"files": [os.path.relpath(out_path, os.path.dirname(os.path.dirname(out_path)))],
            "functions": {f"{relfile}:{spec['qualname']}": sha},
            "sha256_generated": hashlib.sha256(text.encode()).hexdigest(),
            "subscript_reads_as_option": [f"line {ln}: {txt}" for ln, txt in tr.subscript_reads]}
