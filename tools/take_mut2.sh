#!/bin/bash
# usage: take_mut2.sh Cxx...  -- copy second-round seeded defects /tmp/mutout2-Cxx/m{1,2} to seeded/Cxx-m{3,4} and run them
cd /verif
for p in "$@"; do
  for i in 1 2; do
    j=$((i+2)); src=/tmp/mutout2-$p/m$i
    [ -f $src/patch.diff ] || { echo "== $p-m$j MISSING"; continue; }
    mkdir -p seeded/$p-m$j; cp $src/patch.diff $src/demo.py $src/meta.json seeded/$p-m$j/
    echo "== $p-m$j"; /venv/bin/python tools/seeded.py seeded/$p-m$j | grep -E '"detected|"error|demo_'
  done
done
