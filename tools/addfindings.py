"""usage: tools/addfindings.py notes/Cxx-known-findings.json ...  -- merge entries into known_findings.json"""
import json, sys, os
ROOT = os.path.dirname(os.path.dirname(os.path.abspath(__file__)))
p = os.path.join(ROOT, "known_findings.json")
kf = json.load(open(p))
ids = {e["id"] for e in kf["findings"]}
for f in sys.argv[1:]:
    add = json.load(open(f))
    if isinstance(add, dict):
        add = add.get("findings", [add])
    for e in add:
        if e["id"] not in ids:
            kf["findings"].append(e); ids.add(e["id"]); print("added", e["id"])
json.dump(kf, open(p, "w"), indent=1)
