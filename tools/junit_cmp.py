"""Compare a junit xml of the pinned suite with the stable_pass set of /root/.vp/BASELINE.json.
usage: tools/junit_cmp.py <junit.xml>  -> exit 0 iff every stable_pass test passed."""
import json, sys, xml.etree.ElementTree as ET
st = set(json.load(open('/root/.vp/BASELINE.json'))['stable_pass'])
res = {}
for tc in ET.parse(sys.argv[1]).iter('testcase'):
    n = tc.get('classname') + '::' + tc.get('name')
    bad = any(c.tag in ('failure', 'error') for c in tc)
    sk = any(c.tag == 'skipped' for c in tc)
    r = 'fail' if bad else ('skip' if sk else 'pass')
    if res.get(n) != 'fail':
        res[n] = r
notpass = sorted(n for n in st if res.get(n) != 'pass')
print("stable", len(st), "passed", len(st) - len(notpass), "not passing", len(notpass))
for n in notpass[:40]:
    print("  ", res.get(n, 'missing'), n)
sys.exit(1 if notpass else 0)
