#!/bin/bash
cd /verif
for p in "$@"; do
  s=$(date +%s)
  ./check $p > /tmp/runall_$p.log 2>&1; rc=$?
  e=$(date +%s)
  echo "$p rc=$rc t=$((e-s)) viol=$(grep -c '^VIOLATION' /tmp/runall_$p.log) known=$(grep -c '^KNOWN-FINDING' /tmp/runall_$p.log)" >> /tmp/runall_summary.txt
done
echo ALLDONE >> /tmp/runall_summary.txt
