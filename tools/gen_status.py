"""Generate the status tables of DESIGN.md §9 from what is on disk:
claimed.json, evidence/*.json, known_findings.json, seeded/*/meta.json, harness/props/*.py META."""
import glob
import importlib
import json
import os
import sys

ROOT = os.path.dirname(os.path.dirname(os.path.abspath(__file__)))
sys.path[:0] = [os.path.join(ROOT, "tools"), os.path.join(ROOT, "harness")]

props = [json.loads(l) for l in open(os.path.join(ROOT, "properties.jsonl"))]
claimed = set(json.load(open(os.path.join(ROOT, "claimed.json"))))
kf = json.load(open(os.path.join(ROOT, "known_findings.json")))["findings"]
out = []
out.append("| id | title | claimed | level | tie | property theorems | statements | quick cases | Coq-evaluated | known / fixed findings | seeded caught |")
out.append("|----|-------|---------|-------|-----|-------------------|-----------:|-----------:|--------------:|------------------------|---------------|")
seeded = {}
for d in sorted(glob.glob(os.path.join(ROOT, "seeded", "*"))):
    try:
        m = json.load(open(os.path.join(d, "meta.json")))
    except Exception:
        continue
    v = m.get("verif", {})
    seeded.setdefault(m["property"], []).append((os.path.basename(d), v.get("detected"), v.get("detected_with_input")))
for p in props:
    pid = p["id"]
    mod = None
    f = os.path.join(ROOT, "harness", "props", pid.lower() + ".py")
    level = tie = "-"
    if os.path.exists(f):
        try:
            mod = importlib.import_module("props." + pid.lower())
            level = mod.META["level"]
            tie = "T+H" if hasattr(mod, "translate") and hasattr(mod, "model_term") else ("T" if hasattr(mod, "translate") else "H")
        except Exception as e:
            level = "import error"
    ev = {}
    ef = os.path.join(ROOT, "evidence", pid + ".json")
    if os.path.exists(ef):
        try:
            ev = json.load(open(ef))
        except Exception:
            ev = {}
    cov = ev.get("coverage", {})
    known = [e["id"] for e in kf if e["property"] == pid and e["status"] == "known"]
    fixed = [e["id"] + " (" + e.get("commit", "?") + ")" for e in kf if e["property"] == pid and e["status"] == "fixed"]
    sd = seeded.get(pid, [])
    sd_txt = ", ".join(f"{n.split('-')[-1]}:{'input' if wi else ('tie' if det else 'MISSED')}" for n, det, wi in sd) or "-"
    out.append("| {} | {} | {} | {} | {} | {} | {} | {} | {} | {} | {} |".format(
        pid, p["title"][:60], "yes" if pid in claimed else "no", level, tie,
        len(cov.get("property_theorems", [])) or "-", cov.get("obligations", "-"),
        cov.get("evaluations", "-"), cov.get("correspondence_cases_evaluated_in_coq", "-"),
        (str(len(known)) + " known" if known else "0") + ("; fixed: " + ", ".join(fixed) if fixed else ""),
        sd_txt))
print("\n".join(out))
print()
print("### Known findings (recorded, not repaired)\n")
for e in kf:
    if e["status"] == "known":
        print(f"* **{e['id']}** ({e['property']}): {e['what']}")
print("\n### Repaired defects (`fix:` commits in /repo)\n")
for e in kf:
    if e["status"] == "fixed":
        print(f"* {e.get('line', e['id'])}")
