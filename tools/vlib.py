"""Core of the /verif machinery: Coq build, proof re-check, correspondence run
(model evaluated inside Coq by vm_compute), property oracle, verdict, evidence.

One property = one module harness/props/cXX.py (see HOWTO.md for the
interface).  ./check Cxx --tier quick|thorough drives run_property().
"""
from __future__ import annotations

import contextlib
import fcntl
import hashlib
import importlib
import json
import os
import random
import re
import shutil
import subprocess
import sys
import tempfile
import time
import traceback

ROOT = os.path.dirname(os.path.dirname(os.path.abspath(__file__)))
COQ = os.path.join(ROOT, "coq")
REPO = os.environ.get("VERIF_REPO", "/repo")
def _default_jobs():
    try:
        load = os.getloadavg()[0]
    except OSError:
        load = 0
    return 16 if load < 20 else 6


NPROC = int(os.environ.get("VERIF_JOBS", "0")) or _default_jobs()

STD_AXIOMS_OK = (
    # axioms declared by the Coq standard library; permitted when named in the
    # trusted base (the evidence lists every one that Print Assumptions reports)
    "functional_extensionality_dep", "FunctionalExtensionality.functional_extensionality_dep",
    "Classical_Prop.classic", "classic", "proof_irrelevance",
    "ProofIrrelevance.proof_irrelevance", "Eqdep.Eq_rect_eq.eq_rect_eq",
    "JMeq.JMeq_eq", "JMeq_eq", "propositional_extensionality",
    "constructive_indefinite_description", "ClassicalDedekindReals",
)

FORBIDDEN_RE = re.compile(
    r"\b(Admitted|admit|Axiom|Axioms|Parameter|Parameters|Conjecture|Conjectures|"
    r"Admit\s+Obligations|bypass_check|native_compute)\b|Unset\s+Guard|"
    r"Unset\s+Positivity|Unset\s+Universe\s+Checking|type-in-type|impredicative-set")


# --------------------------------------------------------------------------
# small utilities
# --------------------------------------------------------------------------

def sh(cmd, timeout=600, cwd=None, env=None, input=None):
    """Run a command under a shell-level timeout. Returns (rc, combined output)."""
    if isinstance(cmd, str):
        full = ["timeout", "-k", "10", str(int(timeout)), "bash", "-c", cmd]
    else:
        full = ["timeout", "-k", "10", str(int(timeout))] + list(cmd)
    p = subprocess.run(full, cwd=cwd, env=env, input=input,
                       stdout=subprocess.PIPE, stderr=subprocess.STDOUT, text=True)
    return p.returncode, p.stdout


@contextlib.contextmanager
def build_lock():
    path = os.path.join(COQ, ".build.lock")
    with open(path, "w") as f:
        fcntl.flock(f, fcntl.LOCK_EX)
        try:
            yield
        finally:
            fcntl.flock(f, fcntl.LOCK_UN)


def sha256_text(s):
    if isinstance(s, str):
        s = s.encode("utf-8", "surrogateescape")
    return hashlib.sha256(s).hexdigest()


@contextlib.contextmanager
def scratch_dir(prefix="verif-"):
    d = tempfile.mkdtemp(prefix=prefix, dir=os.environ.get("TMPDIR") or "/tmp")
    try:
        yield d
    finally:
        shutil.rmtree(d, ignore_errors=True)


# --------------------------------------------------------------------------
# Coq project handling
# --------------------------------------------------------------------------

def project_files():
    out = []
    for sub in ("Lib", "Model", "Gen", "Theory", "Properties"):
        d = os.path.join(COQ, sub)
        if not os.path.isdir(d):
            continue
        for f in sorted(os.listdir(d)):
            if f.endswith(".v") and not f.startswith("."):
                out.append(f"{sub}/{f}")
    return out


def ensure_makefile():
    """(Re)generate _CoqProject and Makefile when the file list changed."""
    files = project_files()
    text = "-Q . BV\n-arg -w -arg -notation-overridden,-deprecated-hint-without-locality,-deprecated-instance-without-locality\n" + "\n".join(files) + "\n"
    cp = os.path.join(COQ, "_CoqProject")
    old = open(cp).read() if os.path.exists(cp) else None
    if old != text or not os.path.exists(os.path.join(COQ, "Makefile")):
        with open(cp, "w") as f:
            f.write(text)
        rc, out = sh("coq_makefile -f _CoqProject -o Makefile", 120, cwd=COQ)
        if rc != 0:
            raise RuntimeError("coq_makefile failed:\n" + out)


def coq_make(targets, timeout=1500, keep_going=False):
    """Full .vo build of the given targets (never -vos). Returns (rc, output)."""
    # the lock covers only the (re)generation of the Makefile: a long or runaway
    # proof build must not block the builds of other properties
    with build_lock():
        ensure_makefile()
    k = "-k " if keep_going else ""
    return sh(f"make {k}-j{NPROC} " + " ".join(targets), timeout, cwd=COQ)


def coq_closure(vfile):
    """Project files (relative to coq/) that vfile transitively depends on, incl. itself."""
    with build_lock():
        ensure_makefile()
        files = project_files()
        rc, out = sh(["coqdep", "-Q", ".", "BV"] + files, 120, cwd=COQ)
    deps = {}
    for line in out.splitlines():
        if ":" not in line:
            continue
        lhs, rhs = line.split(":", 1)
        tg = [t for t in lhs.split() if t.endswith(".vo")]
        if not tg:
            continue
        src = tg[0][:-1]  # X.vo -> X.v
        deps[src] = [d[:-1] for d in rhs.split() if d.endswith(".vo")]
    seen, todo = set(), [vfile]
    while todo:
        f = todo.pop()
        if f in seen:
            continue
        seen.add(f)
        todo.extend(deps.get(f, []))
    return sorted(seen)


STMT_RE = re.compile(r"^\s*(?:Local\s+|Global\s+|#\[[^\]]*\]\s*)*(Theorem|Lemma|Corollary|Proposition|Fact|Remark|Example)\s+([A-Za-z0-9_']+)", re.M)


def strip_coq_comments(text):
    out, depth, i, n = [], 0, 0, len(text)
    in_str = False
    while i < n:
        c = text[i]
        if depth == 0 and c == '"':
            in_str = not in_str
            out.append(c)
            i += 1
            continue
        if not in_str and text.startswith("(*", i):
            depth += 1
            i += 2
            continue
        if not in_str and depth > 0 and text.startswith("*)", i):
            depth -= 1
            i += 2
            continue
        if depth == 0:
            out.append(c)
        i += 1
    return "".join(out)


def statements_in(vfile):
    text = strip_coq_comments(open(os.path.join(COQ, vfile)).read())
    return [m.group(2) for m in STMT_RE.finditer(text)]


def hygiene(files):
    """The gate of DESIGN 2.8 over the given project files. Returns list of problems."""
    problems = []
    for vf in files:
        path = os.path.join(COQ, vf)
        raw = open(path).read()
        text = strip_coq_comments(raw)
        for m in FORBIDDEN_RE.finditer(text):
            line = text.count("\n", 0, m.start()) + 1
            problems.append(f"{vf}:{line}: forbidden '{m.group(0)}'")
        # Variable/Hypothesis/Context only inside a Section
        depth = 0
        for ln, line in enumerate(text.splitlines(), 1):
            s = line.strip()
            if re.match(r"^Section\s+\w+", s):
                depth += 1
            elif re.match(r"^End\s+\w+\s*\.", s) and depth > 0:
                depth -= 1  # (Module End also decrements; Modules are not used with Variables)
            elif re.match(r"^(Variable|Variables|Hypothesis|Hypotheses|Context)\b", s) and depth == 0:
                problems.append(f"{vf}:{ln}: {s.split()[0]} outside a Section")
        if re.search(r"\bhammer\b", text):
            problems.append(f"{vf}: 'hammer' left in a proof")
        for m in re.finditer(r"\b(sauto|hauto|qauto)\b", text):
            pre = text[max(0, m.start() - 40):m.start()]
            if not re.search(r"timeout\s+\d+\s*\(?\s*$", pre):
                line = text.count("\n", 0, m.start()) + 1
                problems.append(f"{vf}:{line}: {m.group(1)} without 'timeout N'")
    return problems


def compile_property_file(vfile, timeout=600):
    """Always recompile Properties/Cxx.v itself so Print Assumptions output is fresh.

    Returns (ok, output, assumptions) where assumptions is a list of
    (theorem_name, 'closed' | [axiom names]).
    """
    text = strip_coq_comments(open(os.path.join(COQ, vfile)).read())
    asked = re.findall(r"Print\s+Assumptions\s+([A-Za-z0-9_'.]+)\s*\.", text)
    rc, out = sh(["coqc", "-Q", ".", "BV", "-w", "-notation-overridden", vfile], timeout, cwd=COQ)
    blocks = []
    cur = None
    for line in out.splitlines():
        if line.startswith("Closed under the global context"):
            if cur is not None:
                blocks.append(cur)
                cur = None
            blocks.append("closed")
        elif line.startswith("Axioms:"):
            if cur is not None:
                blocks.append(cur)
            cur = []
        elif cur is not None:
            m = re.match(r"^([A-Za-z_][A-Za-z0-9_'.]*)\s*:", line)
            if m:
                cur.append(m.group(1))
            elif line.strip() == "" or not line.startswith(" "):
                if line.strip() != "":
                    # some other output: close the block
                    blocks.append(cur)
                    cur = None
    if cur is not None:
        blocks.append(cur)
    assumptions = list(zip(asked, blocks)) if len(asked) == len(blocks) else [("?", b) for b in blocks]
    ok = rc == 0 and len(asked) == len(blocks)
    return ok, out, assumptions, asked


# --------------------------------------------------------------------------
# Python value -> Coq literal encoders
# --------------------------------------------------------------------------

class Tag(str):
    """A short enum tag (encoded as OT "...")."""


class Err(str):
    """A canonicalised exception class name (encoded as OE "...")."""


def coq_string(s):
    if not all(32 <= ord(c) < 127 for c in s):
        raise ValueError("non-printable in Coq string literal: %r" % s)
    return '"' + s.replace('"', '""') + '"%string'


def coq_Z(n):
    return f"({int(n)})%Z"


def coq_N(n):
    if n < 0:
        raise ValueError("negative N")
    return f"{int(n)}%N"


def coq_nat(n):
    if n < 0 or n > 5000:
        raise ValueError("nat literal out of the safe range: %r" % n)
    return f"{int(n)}%nat"


def coq_bool(b):
    return "true" if b else "false"


def coq_bytes(b):
    """bytes -> list N literal."""
    if isinstance(b, str):
        b = b.encode("utf-8", "surrogateescape")
    return "[" + ";".join(str(x) for x in b) + "]%N" if len(b) else "(@nil N)"


def coq_list(items, elt=None):
    """list of already-encoded Coq terms (or raw values with elt encoder)."""
    its = [elt(x) if elt else x for x in items]
    return "[" + "; ".join(its) + "]" if its else "[]"


def coq_option(v, elt):
    return "None" if v is None else f"(Some {elt(v)})"


def coq_pair(a, b):
    return f"({a}, {b})"


def to_obs(v):
    """Canonical encoding of an implementation observation as a Coq [obs] literal."""
    if isinstance(v, Err):
        return f"(OE {coq_string(str(v))})"
    if isinstance(v, Tag):
        return f"(OT {coq_string(str(v))})"
    if v is None:
        return "ON"
    if v is True or v is False:
        return f'(OT "{v}"%string)'
    if isinstance(v, int):
        return f"(OZ {coq_Z(v)})"
    if isinstance(v, (bytes, bytearray)):
        return f"(OB {coq_bytes(bytes(v))})"
    if isinstance(v, str):
        return f"(OB {coq_bytes(v)})"
    if isinstance(v, (list, tuple)):
        return "(OL [" + "; ".join(to_obs(x) for x in v) + "])"
    if isinstance(v, (set, frozenset)):
        return to_obs(sorted(v, key=_sort_key))
    if isinstance(v, dict):
        return to_obs(sorted(([k, x] for k, x in v.items()), key=lambda kv: _sort_key(kv[0])))
    raise TypeError(f"cannot encode {type(v).__name__} as obs: {v!r}")


def _sort_key(x):
    return (type(x).__name__, x if not isinstance(x, (list, tuple)) else tuple(map(_sort_key, x)))


def jsonable(v):
    """Make a value storable in replay/evidence JSON."""
    if isinstance(v, Err):
        return {"exc": str(v)}
    if isinstance(v, Tag):
        return {"tag": str(v)}
    if isinstance(v, (bytes, bytearray)):
        try:
            s = bytes(v).decode("ascii")
            if all(32 <= ord(c) < 127 for c in s):
                return {"b": s}
        except UnicodeDecodeError:
            pass
        return {"hex": bytes(v).hex()}
    if isinstance(v, (list, tuple)):
        return [jsonable(x) for x in v]
    if isinstance(v, (set, frozenset)):
        return [jsonable(x) for x in sorted(v, key=_sort_key)]
    if isinstance(v, dict):
        return {str(k): jsonable(x) for k, x in v.items()}
    if isinstance(v, (int, str, bool, float)) or v is None:
        return v
    return repr(v)


def unjson(v):
    """Inverse of jsonable for the forms used in case inputs."""
    if isinstance(v, dict):
        if set(v) == {"b"}:
            return v["b"].encode("ascii")
        if set(v) == {"hex"}:
            return bytes.fromhex(v["hex"])
        if set(v) == {"tag"}:
            return Tag(v["tag"])
        if set(v) == {"exc"}:
            return Err(v["exc"])
        return {k: unjson(x) for k, x in v.items()}
    if isinstance(v, list):
        return [unjson(x) for x in v]
    return v


# --------------------------------------------------------------------------
# Model evaluation inside Coq
# --------------------------------------------------------------------------

class CoqRunError(Exception):
    pass


def coq_eval_mismatches(prop_id, imports, triples, shard=250, timeout=2400):
    """triples: list of (index:int, model_term:str, impl_obs_literal:str).

    Writes shards under coq/_cases/<prop>/, compiles them in parallel with
    coqc (vm_compute), returns the sorted list of mismatching indices.
    """
    d = os.path.join(COQ, "_cases", f"{prop_id}-{os.getpid()}")   # per process: concurrent runs must not share it
    shutil.rmtree(d, ignore_errors=True)
    os.makedirs(d)
    import atexit
    atexit.register(shutil.rmtree, d, True)
    names = []
    for si in range(0, len(triples), shard):
        chunk = triples[si:si + shard]
        name = f"cases_{si // shard:04d}.v"
        with open(os.path.join(d, name), "w") as f:
            f.write("From Coq Require Import ZArith NArith List String.\nImport ListNotations.\n")
            f.write("From BV Require Import Lib.Obs.\n")
            f.write(imports.strip() + "\n")
            f.write("Set Printing Width 100000. Set Printing Depth 1000000.\n")
            f.write("Open Scope list_scope.\n")
            f.write("Definition the_cases : list (N * obs * obs) := [\n")
            f.write(";\n".join(f"  ({i}%N, ({m}), {o})" for i, m, o in chunk))
            f.write("\n].\n")
            f.write("Definition the_result := Eval vm_compute in (mismatches the_cases).\n")
            f.write('Definition MARK := "VERIF-RESULT"%string.\nPrint the_result.\n')
        names.append(name)
    if not names:
        return []
    cmd = (f"cd {d} && ls cases_*.v | xargs -P{NPROC} -I{{}} bash -c "
           f"'ulimit -s unlimited 2>/dev/null; timeout {int(timeout)} coqc -Q {COQ} BV -w -notation-overridden {{}} > {{}}.out 2>&1; echo $? > {{}}.rc'")
    sh(cmd, timeout + 60)
    bad = []
    for name in names:
        try:
            rc = open(os.path.join(d, name + ".rc")).read().strip()
            out = open(os.path.join(d, name + ".out")).read()
        except OSError:
            raise CoqRunError(f"model evaluation of {name} did not finish within {timeout} s")
        if rc != "0":
            raise CoqRunError(f"model evaluation failed in {name} (rc={rc}):\n{out[-3000:]}")
        m = re.search(r"the_result\s*=\s*(.*?)\s*:\s*list N", out, re.S)
        if not m:
            raise CoqRunError(f"cannot parse output of {name}:\n{out[-2000:]}")
        body = m.group(1)
        bad.extend(int(x) for x in re.findall(r"\d+", body.replace("%N", " ")))
    return sorted(bad)


def coq_eval_terms(prop_id, imports, terms, timeout=300):
    """Evaluate a few model terms and return their printed normal forms (for replay files)."""
    d = os.path.join(COQ, "_cases", f"{prop_id}-{os.getpid()}")
    os.makedirs(d, exist_ok=True)
    path = os.path.join(d, "show.v")
    with open(path, "w") as f:
        f.write("From Coq Require Import ZArith NArith List String.\nImport ListNotations.\n")
        f.write("From BV Require Import Lib.Obs.\n" + imports.strip() + "\n")
        f.write("Set Printing Width 100000. Set Printing Depth 1000000.\nOpen Scope list_scope.\n")
        for k, t in enumerate(terms):
            f.write(f"Definition show_{k} := Eval vm_compute in ({t}).\nPrint show_{k}.\n")
    rc, out = sh(["coqc", "-Q", COQ, "BV", "-w", "-notation-overridden", path], timeout, cwd=d)
    res = []
    for k in range(len(terms)):
        m = re.search(rf"show_{k}\s*=\s*(.*?)\n\s*:\s", out, re.S)
        res.append(re.sub(r"\s+", " ", m.group(1)).strip() if m else f"<unparsed rc={rc}>")
    return res


# --------------------------------------------------------------------------
# Rust rebuild (properties anchored in Rust)
# --------------------------------------------------------------------------

RUST_SO = {
    # cargo package -> (lib file in target/debug, destination glob prefix in breezy/)
    "osutils-py": ("libosutils_py.so", "_osutils_rs"),
    "patch-py": ("libpatch_py.so", "_patch_rs"),
    "git-py": ("libgit_py.so", "_git_rs"),
    "cmd-py": ("libcmd_py.so", "_cmd_rs"),
}


def rust_source_hash(repo=REPO):
    h = hashlib.sha256()
    for top in ("Cargo.toml", "Cargo.lock", "src", "crates"):
        p = os.path.join(repo, top)
        if os.path.isfile(p):
            h.update(open(p, "rb").read())
        else:
            for dp, dn, fn in sorted(os.walk(p)):
                dn.sort()
                if "target" in dn:
                    dn.remove("target")
                for f in sorted(fn):
                    if f.endswith((".rs", ".toml")):
                        fp = os.path.join(dp, f)
                        h.update(os.path.relpath(fp, repo).encode())
                        h.update(open(fp, "rb").read())
    return h.hexdigest()


def rebuild_rust(packages, log):
    """Rebuild the given -py crates if Rust sources differ from the recorded stamp."""
    import glob
    stamp_path = os.path.join(REPO, "target", ".verif_rust_stamp.json")
    cur = rust_source_hash()
    try:
        stamp = json.load(open(stamp_path))
    except Exception:
        stamp = {}
    baseline_path = os.path.join(ROOT, "tools", "rust_baseline.sha256")
    baseline = open(baseline_path).read().strip() if os.path.exists(baseline_path) else None
    todo = []
    for pkg in packages:
        if stamp.get(pkg) == cur:
            continue
        if stamp.get(pkg) is None and baseline == cur:
            # sources identical to the tree the shipped .so files were built from
            continue
        todo.append(pkg)
    if not todo:
        log(f"rust: up to date ({cur[:12]})")
        return True
    lock = os.path.join(REPO, "target", ".verif_rust.lock")
    os.makedirs(os.path.dirname(lock), exist_ok=True)
    with open(lock, "w") as lf:
        fcntl.flock(lf, fcntl.LOCK_EX)
        for pkg in todo:
            rc, out = sh(f"cargo build --offline -p {pkg}", 1800, cwd=REPO,
                         env=dict(os.environ, CARGO_NET_OFFLINE="true"))
            if rc != 0:
                log("rust build failed:\n" + out[-3000:])
                return False
            lib, dest = RUST_SO[pkg]
            src = os.path.join(REPO, "target", "debug", lib)
            dests = glob.glob(os.path.join(REPO, "breezy", dest + ".cpython-*.so"))
            if not os.path.exists(src) or not dests:
                log(f"rust: cannot find {src} or destination for {dest}")
                return False
            for dd in dests:
                tmp = dd + ".verif-new"
                shutil.copy2(src, tmp)
                os.replace(tmp, dd)
            stamp[pkg] = cur
            log(f"rust: rebuilt {pkg}")
        json.dump(stamp, open(stamp_path, "w"))
    return True


# --------------------------------------------------------------------------
# known findings
# --------------------------------------------------------------------------

def load_known_findings(prop_id):
    path = os.path.join(ROOT, "known_findings.json")
    if not os.path.exists(path):
        return []
    data = json.load(open(path))
    return [e for e in data.get("findings", []) if e.get("property") == prop_id and e.get("status") == "known"]


# --------------------------------------------------------------------------
# the run
# --------------------------------------------------------------------------

class Case:
    __slots__ = ("idx", "input", "kind")

    def __init__(self, idx, input, kind="gen"):
        self.idx, self.input, self.kind = idx, input, kind


class Result:
    def __init__(self):
        self.violations = []   # list of dict(replay=..., found_input=bool)
        self.known = []
        self.notes = []


def load_prop(prop_id):
    sys.path.insert(0, os.path.join(ROOT, "harness"))
    sys.path.insert(0, os.path.join(ROOT, "tools"))
    return importlib.import_module("props." + prop_id.lower())


def write_replay(prop_id, seed, name, payload):
    d = os.path.join(ROOT, "replays")
    os.makedirs(d, exist_ok=True)
    path = os.path.join(d, f"{prop_id}_{seed}_{name}.json")
    payload = dict(payload, property=prop_id, seed=seed)
    with open(path, "w") as f:
        json.dump(payload, f, indent=1, sort_keys=True, default=repr)
    return path


def safe_impl(prop, inp):
    try:
        return prop.impl(inp)
    except Exception as e:  # a driver must canonicalise expected exceptions itself
        msg = "".join(c if 32 <= ord(c) < 127 and c != '"' else "?" for c in str(e)[:200])
        return Err("DRIVER:" + type(e).__name__ + ":" + msg)


@contextlib.contextmanager
def gen_lock():
    """Serialises whole runs of the properties whose proofs depend on coq/Gen/*.v (tie T): such a run
    rewrites and recompiles generated files that another such run may be reading."""
    path = os.path.join(COQ, ".gen.lock")
    with open(path, "w") as f:
        fcntl.flock(f, fcntl.LOCK_EX)
        try:
            yield
        finally:
            fcntl.flock(f, fcntl.LOCK_UN)


def run_property(prop_id, tier="quick", seed=0, verbose=True):
    prop = load_prop(prop_id)
    uses_gen = hasattr(prop, "translate")
    if not uses_gen:
        try:
            uses_gen = any(f.startswith("Gen/") for f in coq_closure(prop.COQ["property_file"]))
        except Exception:
            uses_gen = True
    if uses_gen:
        with gen_lock():
            return _run_property(prop_id, tier, seed, verbose)
    return _run_property(prop_id, tier, seed, verbose)


def _run_property(prop_id, tier="quick", seed=0, verbose=True):
    t0 = time.time()
    logs = []

    def log(msg):
        logs.append(msg)
        if verbose:
            print(f"[{prop_id}] {msg}", flush=True)

    prop = load_prop(prop_id)
    rng = random.Random(f"{prop_id}:{seed}")
    violations = []      # (replay_path, found_input)
    known_lines = []
    assumptions_used = []
    broken = []          # names of proof/correspondence obligations that no longer check
    cov = {}

    # 1 rebuild rust if the property is anchored there
    rust = getattr(prop, "RUST_PACKAGES", [])
    if rust:
        if not rebuild_rust(rust, log):
            broken.append("rust-build")

    # 2 translate (tie T)
    gen_info = {}
    if hasattr(prop, "translate"):
        try:
            gen_info = prop.translate(REPO, COQ) or {}
            log(f"translator: generated {sorted(gen_info.get('files', []))}")
        except Exception as e:
            log("translator refused the source: " + repr(e))
            broken.append("translator: " + repr(e)[:300])

    # 3 prove
    pfile = prop.COQ["property_file"]
    closure = coq_closure(pfile)
    gen_files = [f for f in closure if f.startswith("Gen/")]
    if gen_files:
        # generated model and everything importing it are always recompiled
        for g in gen_files:
            os.utime(os.path.join(COQ, g))
    # modules the correspondence run imports are part of what must build
    for mod in re.findall(r"\b((?:Lib|Model|Gen|Theory)\.[A-Za-z0-9_]+)", prop.COQ.get("imports", "")):
        mf = mod.replace(".", "/") + ".v"
        if os.path.exists(os.path.join(COQ, mf)):
            for f in coq_closure(mf):
                if f not in closure:
                    closure.append(f)
    closure.sort()
    deps = [f + "o" for f in closure if f != pfile]
    obligations = sum(len(statements_in(f)) for f in closure)
    discharged = 0
    checker_cmds = []
    rc, out = coq_make(deps, timeout=2400, keep_going=True) if deps else (0, "")
    checker_cmds.append(f"make -C coq -j{NPROC} " + " ".join(deps))
    proof_ok = rc == 0
    if rc != 0:
        log("proof build FAILED:\n" + out[-2500:])
        m = re.search(r'File "\./([^"]+)", line (\d+)', out)
        broken.append("proof: " + (f"{m.group(1)}:{m.group(2)}" if m else "make failed") +
                      " :: " + " ".join(out.strip().splitlines()[-6:])[:600])
    ok, pout, assumptions, asked = (False, "", [], [])
    if proof_ok:
        ok, pout, assumptions, asked = compile_property_file(pfile)
        checker_cmds.append(f"coqc -Q coq BV coq/{pfile}  (always recompiled; Print Assumptions parsed)")
        if not ok:
            proof_ok = False
            log("property file FAILED:\n" + pout[-2500:])
            broken.append(f"proof: {pfile} :: " + " ".join(pout.strip().splitlines()[-6:])[:600])
    for f in closure:
        vo = os.path.join(COQ, f + "o")
        if os.path.exists(vo) and os.path.getmtime(vo) >= os.path.getmtime(os.path.join(COQ, f)) - 1:
            discharged += len(statements_in(f))
    if proof_ok and not asked:
        broken.append(f"proof: {pfile} has no Print Assumptions")
        proof_ok = False
    for name, a in assumptions:
        if a == "closed":
            assumptions_used.append(f"{name}: Closed under the global context")
        else:
            bad = [x for x in a if not any(x == k or x.endswith("." + k) or k in x for k in STD_AXIOMS_OK)]
            assumptions_used.append(f"{name}: axioms {a}")
            if bad:
                broken.append(f"assumptions: {name} depends on non-stdlib axioms {bad}")
                proof_ok = False
    hyg = hygiene(closure)
    if hyg:
        log("hygiene gate: " + "; ".join(hyg[:10]))
        broken.append("hygiene: " + "; ".join(hyg[:5]))
        proof_ok = False
    thorough_chk = None
    if tier == "thorough" and proof_ok and getattr(prop, "COQCHK", True):
        mods = ["BV." + f[:-2].replace("/", ".") for f in closure]
        rc, cout = sh(["coqchk", "-silent", "-o", "-Q", ".", "BV", "BV." + pfile[:-2].replace("/", ".")], 3000, cwd=COQ)
        checker_cmds.append("coqchk -silent -o -Q coq BV BV." + pfile[:-2].replace("/", "."))
        tail = cout.strip().splitlines()[-25:]
        thorough_chk = {"rc": rc, "tail": tail}
        if rc != 0:
            broken.append("coqchk: " + " ".join(tail)[-600:])
            proof_ok = False
    log(f"proofs: {discharged}/{obligations} statements in {len(closure)} files; "
        f"{'OK' if proof_ok else 'BROKEN'}; assumptions: {assumptions_used}")

    # 4 correspondence + 5 oracle
    cases = []
    corpus = list(getattr(prop, "corpus", lambda: [])())
    for inp in corpus:
        cases.append(Case(len(cases), inp, "corpus"))
    for inp in prop.cases(rng, tier):
        cases.append(Case(len(cases), inp, "gen"))
    log(f"cases: {len(cases)} ({len(corpus)} corpus)")
    obs = {}
    oracle_fail = {}
    driver_errors = 0
    distinct = set()
    nontrivial = getattr(prop, "nontrivial", None)
    n_nontrivial_distinct = set()
    # known findings
    kf = load_known_findings(prop_id)
    matcher = getattr(prop, "finding_matches", None)

    def match_known(inp, o, why):
        for e in kf:
            if matcher and matcher(e["id"], inp, o, why):
                return e
        return None

    shrunk_first = {}
    with scratch_dir(f"verif-{prop_id}-") as sd:
        os.environ["VERIF_SCRATCH"] = sd
        if hasattr(prop, "setup"):
            prop.setup(sd)
        for c in cases:
            o = safe_impl(prop, c.input)
            obs[c.idx] = o
            if isinstance(o, Err) and str(o).startswith("DRIVER:"):
                driver_errors += 1
            key = json.dumps(jsonable([c.input, o]), sort_keys=True, default=repr)
            distinct.add(key)
            if nontrivial is None or nontrivial(c.input, o):
                n_nontrivial_distinct.add(key)
            try:
                v = prop.oracle(c.input, o)
            except Exception as e:
                v = "oracle raised " + repr(e)
            if v:
                oracle_fail[c.idx] = v
        # shrink the first unexplained failure while the driver's scratch state still exists
        if hasattr(prop, "shrink"):
            for c in cases:
                if c.idx in oracle_fail and not match_known(c.input, obs[c.idx], oracle_fail[c.idx]):
                    def _still_fails(i):
                        o2 = safe_impl(prop, i)
                        if isinstance(o2, Err) and str(o2).startswith("DRIVER:"):
                            return False
                        w2 = prop.oracle(i, o2)
                        return bool(w2) and not match_known(i, o2, w2)
                    try:
                        shrunk_first[c.idx] = prop.shrink(c.input, _still_fails) or c.input
                    except Exception:
                        pass
                    break
        if hasattr(prop, "teardown"):
            prop.teardown()
    triples = []
    model_terms = {}
    has_model = hasattr(prop, "model_term")
    if has_model:
        for c in cases:
            try:
                mt = prop.model_term(c.input)
            except Exception as e:
                mt = None
                log(f"model_term failed on case {c.idx}: {e!r}")
                broken.append(f"correspondence: model_term raised on case {c.idx}")
            if mt is None:
                continue
            model_terms[c.idx] = mt
            model_obs = prop.impl_obs(c.input, obs[c.idx]) if hasattr(prop, "impl_obs") else obs[c.idx]
            triples.append((c.idx, mt, to_obs(model_obs)))
    mism = []
    corr_ok = True
    if has_model:
        # attempted even when a proof broke: the model files may still build
        try:
            mism = coq_eval_mismatches(prop_id, prop.COQ["imports"], triples,
                                       shard=getattr(prop, "SHARD", 250))
        except CoqRunError as e:
            log("correspondence could not run: " + str(e)[-1500:])
            if proof_ok:
                broken.append("correspondence: model evaluation failed :: " + str(e)[-400:])
            corr_ok = False
    if has_model and corr_ok and not triples:
        broken.append("correspondence: zero cases")
    if driver_errors:
        broken.append(f"correspondence: {driver_errors} driver errors")
        bad = [c for c in cases if isinstance(obs[c.idx], Err) and str(obs[c.idx]).startswith("DRIVER:")][:3]
        for c in bad:
            log(f"driver error on case {c.idx}: {obs[c.idx]} input={jsonable(c.input)!r}"[:600])
    log(f"correspondence: {len(triples) if corr_ok else 0} cases evaluated in Coq, {len(mism)} disagreements; "
        f"oracle failures: {len(oracle_fail)}")

    # 6 verdict
    by_idx = {c.idx: c for c in cases}
    reported_known = {}
    new_fail = []
    for idx, why in sorted(oracle_fail.items()):
        e = match_known(by_idx[idx].input, obs[idx], why)
        if e:
            reported_known.setdefault(e["id"], (e, by_idx[idx].input, why))
        else:
            new_fail.append((idx, why))
    for fid, (e, inp, why) in sorted(reported_known.items()):
        line = f"KNOWN-FINDING: property={prop_id} {e['what']}"
        known_lines.append(line)
        print(line, flush=True)
    if new_fail:
        idx, why = new_fail[0]
        shr = shrunk_first.get(idx, by_idx[idx].input)
        path = write_replay(prop_id, seed, f"oracle_{idx}", {
            "kind": "property-violated-on-implementation",
            "input": jsonable(shr), "original_input": jsonable(by_idx[idx].input),
            "impl_observation": jsonable(obs[idx]), "oracle_verdict": why,
            "other_failing_cases": len(new_fail) - 1,
            "replay_cmd": f"./check {prop_id} --replay <this file>"})
        violations.append((path, True))
    mism_unexplained = []
    new_fail_idx = {i for i, _ in new_fail}
    for idx in mism:
        if idx in new_fail_idx:
            continue  # already reported as a property violation with this input
        # a case that only reproduces a KNOWN finding must still agree with the (faithful) model
        mism_unexplained.append(idx)
    if mism_unexplained and not new_fail:
        # correspondence broke but the oracle found no failing input among the generated cases:
        # search around the disagreeing inputs
        found = None
        if hasattr(prop, "search"):
            try:
                found = prop.search([by_idx[i].input for i in mism_unexplained[:20]], rng)
            except Exception as e:
                log("search raised " + repr(e))
        shown = coq_eval_terms(prop_id, prop.COQ["imports"], [model_terms[i] for i in mism_unexplained[:3]])
        if found is not None and not match_known(found[0], found[1], found[2]):
            path = write_replay(prop_id, seed, "search", {
                "kind": "property-violated-on-implementation (found by search after correspondence broke)",
                "input": jsonable(found[0]), "impl_observation": jsonable(found[1]), "oracle_verdict": found[2]})
            violations.append((path, True))
        else:
            i0 = mism_unexplained[0]
            path = write_replay(prop_id, seed, f"corr_{i0}", {
                "kind": "correspondence-broken",
                "no_longer_checks": f"correspondence: harness/props/{prop_id.lower()}.py case {i0}",
                "input": jsonable(by_idx[i0].input), "impl_observation": jsonable(obs[i0]),
                "model_observation": shown[0] if shown else None,
                "disagreeing_cases": len(mism_unexplained),
                "more": [{"input": jsonable(by_idx[i].input), "impl": jsonable(obs[i]), "model": s}
                         for i, s in zip(mism_unexplained[1:3], shown[1:3])]})
            violations.append((path, False))
    if broken and not violations:
        found = None
        if hasattr(prop, "search"):
            try:
                found = prop.search([], rng)
            except Exception as e:
                log("search raised " + repr(e))
        if found is not None and not match_known(found[0], found[1], found[2]):
            path = write_replay(prop_id, seed, "search", {
                "kind": "property-violated-on-implementation (found by search after a proof obligation broke)",
                "no_longer_checks": broken,
                "input": jsonable(found[0]), "impl_observation": jsonable(found[1]), "oracle_verdict": found[2]})
            violations.append((path, True))
        else:
            path = write_replay(prop_id, seed, "broken", {
                "kind": "proof-or-tie-broken", "no_longer_checks": broken})
            violations.append((path, False))

    # finding witnesses that no longer reproduce are simply not printed (a fixed entry suppresses nothing)

    wall = time.time() - t0
    samples = []
    for c in cases[:3] + cases[len(corpus):len(corpus) + 3]:
        s = {"input": jsonable(c.input), "impl_observation": jsonable(obs[c.idx])}
        if c.idx in model_terms:
            s["model_term"] = model_terms[c.idx][:400]
        samples.append(s)
    dist = prop.distribution([c.input for c in cases], [obs[c.idx] for c in cases]) if hasattr(prop, "distribution") else {}
    level = prop.META["level"]
    coverage = {
        "obligations": max(obligations, 1),
        "discharged": discharged if proof_ok else min(discharged, max(obligations - 1, 0)),
        "checker_cmd": " ; ".join(checker_cmds),
        "trusted_base": assumptions_used + list(prop.META.get("trusted_base", [])) + [
            "Coq 8.16.1 kernel; vm_compute (correspondence evaluation, finite-domain and witness proofs); no native_compute",
        ],
        "evaluations": max(len(cases), 1),
        "distinct_nontrivial": len(n_nontrivial_distinct),
        "rule": prop.META.get("rule", "distinct = distinct (input, observation) pairs; non-trivial per the property module's nontrivial()"),
        "samples": samples or [{"note": "no cases"}],
        "correspondence_cases_evaluated_in_coq": len(triples) if corr_ok else 0,
        "correspondence_disagreements": len(mism),
        "oracle_failures": len(oracle_fail),
        "known_findings_reproduced": sorted(reported_known),
        "closure_files": closure,
        "property_theorems": asked,
        "generated_model": gen_info,
        "input_distribution": dist,
        "broken": broken,
    }
    if thorough_chk is not None:
        coverage["coqchk"] = thorough_chk
    if level == "translation_validation":
        coverage["programs"] = max(len(cases), 1)
        coverage["disagreements_checked"] = len(mism)
    if level == "other":
        coverage["explanation"] = prop.META.get("explanation", prop.META.get("level_text", ""))
    evidence = {
        "property_id": prop_id, "tier": tier, "seed": seed, "level": level,
        "coverage": coverage,
        "assumptions": list(prop.META.get("assumptions", [])),
        "wall_s": round(wall, 2), "violations": len(violations),
    }
    # a run against another source tree (VERIF_REPO: seeded defects, revert tests) must not
    # overwrite the evidence of /repo
    evdir = "evidence" if os.path.realpath(REPO) == "/repo" else "evidence_alt"
    os.makedirs(os.path.join(ROOT, evdir), exist_ok=True)
    with open(os.path.join(ROOT, evdir, f"{prop_id}.json"), "w") as f:
        json.dump(evidence, f, indent=1, sort_keys=True, default=repr)
    for path, found in violations:
        rel = os.path.relpath(path, ROOT)
        print(f"VIOLATION property={prop_id} replay={rel}" + ("" if found else " no-failing-input-found"), flush=True)
    log(f"done in {wall:.1f}s: {'VIOLATION' if violations else 'ok'}")
    return 1 if violations else 0


def replay(prop_id, path):
    prop = load_prop(prop_id)
    data = json.load(open(path))
    if "input" not in data:
        print(json.dumps(data, indent=1))
        print("this replay names a broken obligation, not an input; re-run ./check", prop_id)
        return 1
    inp = unjson(data["input"])
    with scratch_dir(f"verif-{prop_id}-") as sd:
        os.environ["VERIF_SCRATCH"] = sd
        if hasattr(prop, "setup"):
            prop.setup(sd)
        o = safe_impl(prop, inp)
        v = prop.oracle(inp, o)
        if hasattr(prop, "teardown"):
            prop.teardown()
    print("input:", json.dumps(jsonable(inp))[:2000])
    print("implementation observation:", json.dumps(jsonable(o), default=repr)[:2000])
    if v:
        print(f"property violated: {v}")
        print(f"VIOLATION property={prop_id} replay={path}")
        return 1
    print("property holds on this input now")
    return 0
