#!/bin/bash
# usage: tools/coqshow.sh coq/Theory/X.v LINE [TAIL] -- prints the proof state after LINE (compiled with coqc)
f="$1"; n="$2"
mkdir -p /verif/coq/_cases/show
t="/verif/coq/_cases/show/Show_$$.v"
( head -n "$n" "/verif/$f"; echo; echo "Show."; echo "Abort."; ) > "$t"
cd /verif/coq && timeout 300 coqc -Q . BV -w -notation-overridden "$t" 2>&1 | tail -n "${3:-40}"
rm -f /verif/coq/_cases/show/Show_$$.*  /verif/coq/_cases/show/.Show_$$.*
