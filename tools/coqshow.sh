#!/bin/bash
# usage: tools/coqshow.sh coq/Theory/X.v LINE  -- prints the proof state after LINE
f="$1"; n="$2"
cd /verif/coq
( head -n "$n" "/verif/$f"; echo; echo "Show."; ) | timeout 120 coqtop -Q . BV -w -notation-overridden 2>&1 | tail -n "${3:-40}"
