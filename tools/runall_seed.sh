#!/bin/bash
# usage: runall_seed.sh <seed> <summaryfile> Cxx...  -- quick tier with VERIF_SEED=<seed>
cd /verif
seed=$1; sum=$2; shift; shift
for p in "$@"; do
  s=$(date +%s)
  VERIF_SEED=$seed ./check $p > /tmp/runallS${seed}_$p.log 2>&1; rc=$?
  e=$(date +%s)
  echo "$p seed=$seed rc=$rc t=$((e-s)) viol=$(grep -c '^VIOLATION' /tmp/runallS${seed}_$p.log) known=$(grep -c '^KNOWN-FINDING' /tmp/runallS${seed}_$p.log)" >> $sum
done
echo ALLDONE >> $sum
