#!/bin/bash
# usage: seedq.sh <logfile> dirs...   -- run tools/seeded.py over several seeded dirs sequentially
cd /verif
log=$1; shift
for d in "$@"; do echo "== $d"; /venv/bin/python tools/seeded.py seeded/$d; done > $log 2>&1
echo QDONE >> $log
