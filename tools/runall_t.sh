#!/bin/bash
# usage: runall_t.sh <summaryfile> Cxx...   -- thorough tier sequentially
cd /verif
sum=$1; shift
for p in "$@"; do
  s=$(date +%s)
  ./check $p --tier thorough > /tmp/runallT_$p.log 2>&1; rc=$?
  e=$(date +%s)
  echo "$p rc=$rc t=$((e-s)) viol=$(grep -c '^VIOLATION' /tmp/runallT_$p.log) known=$(grep -c '^KNOWN-FINDING' /tmp/runallT_$p.log)" >> $sum
done
echo ALLDONE >> $sum
