"""usage: tools/miss_report.py Cxx...  -- write /tmp/miss2-Cxx.txt listing the seeded defects of Cxx the check did not catch with a concrete input"""
import glob, json, os, sys
ROOT = os.path.dirname(os.path.dirname(os.path.abspath(__file__)))
for p in sys.argv[1:]:
    items = []
    for d in sorted(glob.glob(os.path.join(ROOT, "seeded", p + "-m*"))):
        m = json.load(open(os.path.join(d, "meta.json"))); v = m.get("verif", {})
        if v.get("error") or (v.get("detected") and v.get("detected_with_input")):
            continue
        how = "MISSED (exit 0)" if not v.get("detected") else "caught only as a broken tie (no-failing-input-found)"
        items.append(f"=== seeded/{os.path.basename(d)} — {how} (patch: {d}/patch.diff, demo: {d}/demo.py)\nWHAT IT BREAKS: {m.get('what_it_breaks')}\nNEEDS TO MANIFEST: {m.get('needs_to_manifest')}\n")
    if not items:
        print(p, "nothing missed"); continue
    t = (f"Independent seeded defects for {p} that ./check {p} does not catch with a concrete input. For each one below: FIRST decide whether the changed behaviour is inside what the property text in /verif/properties.jsonl states (if it is genuinely outside, say so and skip it). If inside: cover the CLASS of input/sequence it needs (generator bias + a few directed corpus cases + oracle/driver/model extension where the observation or operation is missing; new model operations keep all theorems closed), do not special-case the instance. Keep `./check {p}` exit 0 on /repo for VERIF_SEED=0,1,2,3 (run all four; the acceptance run uses VERIF_SEED=1) with a quick-tier time similar to now. Then confirm by applying the patch in ONE scratch worktree (git -C /repo worktree add --detach /tmp/sd-{p} HEAD && cp /repo/breezy/*.so /tmp/sd-{p}/breezy/ && git -C /tmp/sd-{p} apply <patch>; VERIF_REPO=/tmp/sd-{p} ./check {p}) that the check prints a VIOLATION with a concrete input; remove the worktree (git -C /repo worktree remove --force /tmp/sd-{p}) and the replay files you created. Never loosen a correct check, never list a false alarm as a known finding. Reply very short.\n\n" + "\n".join(items))
    open(f"/tmp/miss2-{p}.txt", "w").write(t)
    print(p, len(items), "missed ->", f"/tmp/miss2-{p}.txt")
