#!/bin/bash
# MANIFEST.setup_cmd: build the whole Coq development once (full .vo build), offline.
set -u
HERE="$(cd "$(dirname "${BASH_SOURCE[0]}")" && pwd)"
cd "$HERE"
export PYTHONPATH="${VERIF_REPO:-/repo}:$HERE/tools:$HERE/harness" PYTHONHASHSEED=0 PYTHONDONTWRITEBYTECODE=1
/venv/bin/python - <<'PY'
import glob, importlib, os, sys
sys.path[:0] = ["tools", "harness"]
import vlib
# 1. generated models (tie T) must exist before coqdep runs
for f in sorted(glob.glob("harness/props/c*.py")):
    name = os.path.basename(f)[:-3]
    try:
        m = importlib.import_module("props." + name)
        if hasattr(m, "translate"):
            print("translate", name, m.translate(vlib.REPO, vlib.COQ).get("files"))
    except Exception as e:
        print("setup: translate failed for", name, repr(e))
# 2. full build; -k so that one broken (unclaimed) file does not stop the rest
rc, out = vlib.coq_make(["all"], timeout=3000, keep_going=True)
print(out[-4000:])
print("setup: make rc", rc)
PY
# OCaml runners (if any)
if [ -f coq/Extract/build.sh ]; then bash coq/Extract/build.sh || echo "setup: extraction build failed"; fi
exit 0
