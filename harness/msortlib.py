"""Merge-sorted histories shared by C22 and C25 (companion of coq/Lib/DagMergeSort.v).

* ref_merge_sort: the documented numbering rules in Python.  Used by the property
  ORACLES and generators only (vocabulary: "the dotted revno of r", "the depth of r");
  the Coq model has its own definition and the implementation's list is what is observed.
* Histories: one real 2a branch per graph value on a memory server, its tip moved
  per case (daglib.build_history materialises the graph).
"""
import json

import daglib
from daglib import rid, idx


def ref_merge_sort(g, tip):
    """[(rev, depth, revno tuple, end_of_merge)] newest first; [] for tip None."""
    n = len(g)
    if tip is None or tip >= n:
        return []
    sched, done, claimed, counts = [], {}, set(), {}

    def visit(x, depth):
        ps = g[x]
        lp = ps[0] if ps and ps[0] < n else None
        first = None
        if lp is not None:
            first = lp not in claimed
            claimed.add(lp)
        if ps:
            for q, d in [(ps[0], depth)] + [(q, depth + 1) for q in reversed(ps[1:])]:
                if q < n and q not in done:
                    visit(q, d)
        pr = done.get(lp) if lp is not None else None
        if pr is not None:
            if not first:
                base = pr[0]
                counts[base] = counts.get(base, 0) + 1
                rv = (base, counts[base], 1)
            else:
                rv = pr[:-1] + (pr[-1] + 1,)
        else:
            rc = counts.get(0, -1) + 1
            rv = (0, rc, 1) if rc else (1,)
            counts[0] = rc
        done[x] = rv
        sched.append((x, depth, rv))

    visit(tip, 0)
    out = list(reversed(sched))
    res = []
    for i, (x, d, rv) in enumerate(out):
        if i + 1 == len(out):
            eom = True
        elif out[i + 1][1] < d:
            eom = True
        elif out[i + 1][1] == d and out[i + 1][0] not in g[x]:
            eom = True
        else:
            eom = False
        res.append((x, d, rv, eom))
    return res


def revno_map(g, tip):
    return {x: rv for x, _d, rv, _e in ref_merge_sort(g, tip)}


def good_tips(g):
    """Revisions a consistent branch can sit on (no ghost on the left-hand history)."""
    return [r for r in range(len(g)) if daglib.lefthand_present(g, r)]


def present_ancestors(g, tip):
    return {x for x in daglib.ancestors(g, [tip]) if x < len(g)} if tip is not None else set()


FIXED = [
    # two side branches off the root, merged one after the other (1.1.1 and 1.2.1)
    [[], [0], [1], [0], [0], [2, 3], [5, 4]],
    # a merge of a merge: 3 and 4 are a side branch, 5 a side branch of the side branch
    [[], [0], [1], [0], [3], [3], [4, 5], [2, 6], [7]],
    # criss-cross and an octopus
    [[], [0], [0], [1, 2], [2, 1], [3, 4], [4, 3], [5, 6, 2]],
    # second root merged in, a ghost as second parent, a ghost as left-hand parent of a side revision
    [[], [0], [], [1, 2], [52], [3, 4, 53], [5]],
    # long side branch merged late, then continued and merged again
    [[], [0], [0], [2], [1, 3], [3], [5], [4, 6], [7], [6], [8, 9]],
    [[], [0], [1], [2], [3]],
    # an old side branch (1.1.1 = r4, off revision 1) merged AFTER a younger one (3.1.1 = r5):
    # newest first the list reads 6, 1.1.1, 5, 3.1.1, 4, 3, 2, 1
    [[], [0], [1], [2], [0], [2], [3, 5], [6, 4]],
    # r5 = 2.1.2 is itself a merge (of 2.2.1 = r4) on a side branch, and the mainline below its
    # branch point contains another merge (r2 merges r1): depths from r5 read 1, 2, 1, 0, 1, 0
    [[], [0], [0, 1], [2], [2], [3, 4], [2], [6, 5]],
    # a branch of a branch: r2-r3-r6 = 1.2.1-1.2.3 is merged by the tip, r4-r5 = 1.3.1, 1.3.2 forked
    # from 1.2.2 (r3) and were merged back by 1.2.3; r1 = 1.1.1 merged by r7 = 2
    [[], [0], [0], [2], [3], [4], [3, 5], [0, 1], [7, 6]],
]


# ---- real branches -------------------------------------------------------------------------

class Histories:
    """Materialised graphs on one memory server (a few kept at a time)."""

    def __init__(self, keep=3, with_file=False, extra=None):
        import breezy.bzr  # noqa: F401
        from dromedary.memory import MemoryServer
        self.srv = MemoryServer()
        self.srv.start_server()
        self.url = self.srv.get_url()
        self.n = 0
        self.cache = {}
        self.keep = keep
        self.with_file = with_file
        self.extra = extra

    def close(self):
        self.srv.stop_server()
        self.cache.clear()

    def _drop(self, br):
        from breezy.transport import get_transport
        get_transport(self.url).delete_tree(br.base[len(self.url):].strip("/"))

    def source(self, g, extra=None):
        from breezy.transport import get_transport
        key = json.dumps(g) + repr(sorted((extra or {}).items(), key=repr))
        if key not in self.cache:
            while len(self.cache) >= self.keep:
                k0 = next(iter(self.cache))
                for b in self.cache.pop(k0)[1:]:
                    self._drop(b)
            self.n += 1
            t = get_transport(self.url + "h%d" % self.n)
            t.ensure_base()
            ex = None
            if extra:
                ex = {int(k): [tuple(a) if not isinstance(a, tuple) else a for a in v] for k, v in extra.items()}
            self.cache[key] = [None, daglib.build_history(g, t, with_file=self.with_file, extra=ex)]
        return self.cache[key][1]

    def at_tip(self, g, tip, extra=None):
        """A freshly opened Branch object on g whose tip is `tip` (None = empty branch)."""
        from breezy.branch import Branch
        br = self.source(g, extra)
        set_tip(br, g, tip)
        return Branch.open(br.base)

    def other_branch(self, g, tip, extra=None):
        """A second branch (own repository) holding the ancestry of `tip`."""
        from breezy import controldir
        src = self.source(g, extra)
        key = json.dumps(g) + repr(sorted((extra or {}).items(), key=repr))
        self.n += 1
        cd = controldir.ControlDir.create(self.url + "o%d" % self.n,
                                          format=controldir.format_registry.make_controldir("2a"))
        cd.create_repository()
        br = cd.create_branch()
        if tip is not None:
            br.repository.fetch(src.repository, revision_id=rid(tip))
        set_tip(br, g, tip)
        self.cache[key].append(br)
        return br


def set_tip(br, g, tip):
    br.lock_write()
    try:
        if tip is None:
            br.set_last_revision_info(0, b"null:")
        else:
            br.set_last_revision_info(daglib.revno_of(g, tip), rid(tip))
    finally:
        br.unlock()
