"""C17 -- tree merges obey the three-way merge laws.

Tie H: coq/Model/TreeMerge.v models Merge3Merger per file id (on top of the decision kernels that
props.c18 regenerates from merge.py on every run: tie T).  This driver builds real trees (2a working
trees, or git working trees) from abstract trees, merges with Merger.from_revision_ids and the
merge3 / weave / lca merge types (plain three-way histories and criss-cross histories, which switch
Merge3Merger to _entries_lca/_lca_multi_way), and observes the resulting versioned tree + cooked conflicts.
"""
import json
import os
import shutil

from vlib import Tag, Err, coq_bytes, coq_list, coq_nat, coq_bool
from props import c18 as _c18

PROP = "C17"
COQ = {
    "property_file": "Properties/C17.v",
    "imports": "From BV Require Import Lib.Bytes Lib.Tree17 Model.TreeMerge.",
}
META = {
    "level": "proof",
    "title": "Tree merges obey the three-way merge laws",
    "technique": ("Coq theorems over a hand model of Merge3Merger's per-file-id orchestration built on the decision kernels "
                  "regenerated from merge.py on every run (py2coq); correspondence run on real 2a and git trees"),
    "level_text": ("The four merge laws (OTHER=BASE gives THIS, THIS=BASE gives OTHER, identical changes, disjoint changes give "
                   "the union; all conflict-free) are proved for every triple of abstract trees (any number of file ids, any "
                   "names/kinds/texts/exec bits), per attribute as well, for the three-way entry enumeration and for the LCA "
                   "enumeration whenever all LCA trees equal the base, for ANY text merger. The model is tied to merge.py by a "
                   "correspondence run (merge3/weave/lca merge types, plain and criss-cross histories, 2a and git trees) that "
                   "compares the merged tree and the cooked conflicts on law-shaped and on arbitrary (conflicting) triples."),
    "level_note": ("Trusted: Coq kernel; the hand model of the per-entry orchestration (validated by the correspondence run); "
                   "py2coq for the kernels (validated by C18). File-system conflicts found by transform.resolve_conflicts are "
                   "not modelled: the model only predicts WHEN they arise (raw result not a well-formed tree). "
                   "The weave/lca text plans are not modelled (the laws never reach the text merger). "
                   "After the repair round (C17-nofinalpath-crash fixed in /repo bbc9cee) the model no longer predicts a "
                   "NoFinalPath crash and the oracle reports one on any input; C17-nondir-parent-crash and "
                   "C17-git-emptied-dir-conflict remain known findings."),
    "design_ref": "DESIGN.md §5 C17",
    "trusted_base": ["coq/Model/TreeMerge.v hand model of Merge3Merger._entries3/_entries_lca/_merge_names/_do_merge_contents/"
                     "_merge_executable (validated on this run)",
                     "tools/py2coq.py translation of _three_way/_lca_multi_way (validated by C18)",
                     "tree building / reading through WorkingTree.add/commit/iter_entries_by_dir"],
    "assumptions": ["text merger (merge3.Merge3, PlanWeaveMerge) is an arbitrary function tm (Section variable, no hypothesis needed)",
                    "CHKInventory.iter_changes reports exactly the file ids whose entry (parent, name, kind, text/target, exec) differs",
                    "InventoryEntry.is_unmodified(lca entry) (same last-changed revision) implies the two entries are equal",
                    "texts are not binary (no NUL byte), so text_merge never raises BinaryFile",
                    "all trees share the root id; no tree references; no unversioned files in the way"],
    "rule": ("path re-use (an entry moved away and a NEW file id put at its old path, children renamed in place) directed + biased; "
             "trees over file ids 1..9, names a-d, 3 kinds, line-edited texts; triples built to satisfy each law's premise "
             "(exhaustive single-entry edits first, then random edit scripts), plus arbitrary triples (conflicts) and criss-cross "
             "histories; non-trivial = OTHER differs from BASE"),
}
SHARD = 100

translate = _c18.translate

NAMES = ["a", "b", "c", "d"]
TEXTS = [b"1\n2\n3\n4\n5\n", b"0\n1\n2\n3\n4\n5\n", b"1\n2\n3\n4\n5\n6\n", b"1\n2\nX\n4\n5\n", b"1\n2\nY\n4\n5\n",
         b"", b"q\n"]
TARGETS = [b"t1", b"t2"]
FS_TYPES = {"duplicate", "parent loop", "missing parent", "deleting parent", "unversioned parent",
            "non-directory parent", "duplicate id"}

_state = {}
_cache = {}


# ---------------------------------------------------------------- abstract trees (python side)
# tree = list of [fid, parent, name, kind, content, exec]; kind in "f","d","l"

def E(fid, parent, name, kind="f", content=b"", x=False):
    if kind == "d":
        content, x = b"", False
    if kind == "l":
        x = False
    return [fid, parent, name, kind, bytes(content), bool(x)]


def tdict(tree):
    return {e[0]: [e[0], e[1], e[2], e[3], bytes(e[4]), bool(e[5])] for e in tree}


def tlist(d):
    return [d[k] for k in sorted(d)]


def wf(tree):
    d = tdict(tree)
    seen = set()
    for f, e in d.items():
        if f == 0 or (e[1], e[2]) in seen:
            return False
        seen.add((e[1], e[2]))
        if e[1] != 0 and (e[1] not in d or d[e[1]][3] != "d"):
            return False
        g, n = f, 0
        while g != 0:
            if g not in d or n > len(d):
                return False
            g = d[g][1]
            n += 1
    return True


def descendants(d, f):
    out, todo = set(), [f]
    while todo:
        g = todo.pop()
        for h, e in d.items():
            if e[1] == g and h not in out:
                out.add(h)
                todo.append(h)
    return out


def rand_entry(rng, d, fid, kind=None):
    dirs = [0] + [f for f, e in d.items() if e[3] == "d" and f != fid and fid not in descendants(d, f) | {f}]
    kind = kind or rng.choice("fffdl")
    return E(fid, rng.choice(dirs), rng.choice(NAMES), kind,
             rng.choice(TEXTS) if kind == "f" else rng.choice(TARGETS) if kind == "l" else b"",
             rng.random() < 0.3)


def gen_tree(rng, fids):
    for _ in range(100):
        d = {}
        for f in fids:
            if rng.random() < 0.75:
                d[f] = rand_entry(rng, d, f, "d" if f <= 2 and rng.random() < 0.7 else None)
        if wf(tlist(d)):
            return tlist(d)
    return []


def edit(rng, tree, fids, nops):
    """Random edit script touching only ids in fids; result is a well-formed tree."""
    for _ in range(60):
        d = tdict(tree)
        for _ in range(nops):
            f = rng.choice(fids)
            op = rng.choice(["del", "ren", "mov", "mod", "mod", "exe", "kind", "add", "renmod"])
            if f not in d:
                if op in ("add", "mod", "kind"):
                    d[f] = rand_entry(rng, d, f)
                continue
            e = d[f]
            if op == "del":
                for g in descendants(d, f) | {f}:
                    d.pop(g, None)
            elif op == "ren":
                e[2] = rng.choice(NAMES)
            elif op == "mov":
                bad = descendants(d, f) | {f}
                e[1] = rng.choice([0] + [g for g, x in d.items() if x[3] == "d" and g not in bad])
            elif op in ("mod", "renmod"):
                if e[3] == "f":
                    e[4] = rng.choice(TEXTS)
                elif e[3] == "l":
                    e[4] = rng.choice(TARGETS)
                if op == "renmod":
                    e[2] = rng.choice(NAMES)
            elif op == "exe":
                if e[3] == "f":
                    e[5] = not e[5]
            elif op == "kind":
                if not descendants(d, f):
                    n = rand_entry(rng, d, f)
                    d[f] = E(f, e[1], e[2], n[3], n[4], n[5])
        # deleting/kind-changing must not have touched ids outside fids
        old = tdict(tree)
        ok = all(d.get(g) == old.get(g) for g in set(d) | set(old) if g not in fids)
        if ok and wf(tlist(d)):
            return tlist(d)
    return [list(e) for e in tree]


def reuse(rng, tree, victims=None, fresh=(8, 9)):
    """Path re-use: move an entry away (rename and/or re-parent) and put a NEW entry (new file id) at its old
    path; a new directory also gets a new child, and a child of the moved directory is renamed/edited in place.
    So one path denotes different file ids in the trees of one merge.  Returns None when not applicable."""
    d = tdict(tree)
    cands = [f for f in d if victims is None or f in victims]
    if not cands or any(n in d for n in fresh):
        return None
    rng.shuffle(cands)
    cands.sort(key=lambda f: 0 if d[f][3] == "d" and descendants(d, f) else 1 if d[f][3] == "d" else 2)
    if rng.random() < 0.35:
        rng.shuffle(cands)
    for f in cands:
        e = d[f]
        old_parent, old_name = e[1], e[2]
        taken = {(x[1], x[2]) for x in d.values()}
        bad = descendants(d, f) | {f}
        spots = [(p, n) for p in [old_parent, 0] + [g for g, x in d.items() if x[3] == "d" and g not in bad]
                 for n in NAMES + ["old"] if (p, n) not in taken]
        if not spots:
            continue
        e[1], e[2] = rng.choice(spots[:5] if rng.random() < 0.7 else spots)
        kids = [g for g, x in d.items() if x[1] == f]
        n1, n2 = fresh
        kind = e[3] if rng.random() < 0.8 else rng.choice("fdl")
        d[n1] = E(n1, old_parent, old_name, kind, rng.choice(TEXTS) if kind == "f" else rng.choice(TARGETS), rng.random() < 0.3)
        if kind == "d":
            d[n2] = E(n2, n1, rng.choice(NAMES + ["new"]), "f", rng.choice(TEXTS), rng.random() < 0.3)
        for g in kids:
            if victims is not None and g not in victims:
                continue
            r = rng.random()
            sib = {x[2] for h, x in d.items() if x[1] == f and h != g}
            free = [n for n in NAMES + ["g"] if n not in sib and n != d[g][2]]
            if r < 0.6 and free:
                d[g][2] = rng.choice(free)                       # renamed in place
            elif r < 0.8 and d[g][3] == "f":
                d[g][4] = rng.choice(TEXTS)
            elif r < 0.9 and d[g][3] == "f":
                d[g][5] = not d[g][5]
        out = tlist(d)
        if wf(out):
            return out
        d = tdict(tree)
    return None


def reuse_cases(rng, tier):
    """Law-shaped and arbitrary triples in which one side re-uses a path (three-way and criss-cross)."""
    fids = [1, 2, 3, 4, 5, 6]
    n = 0
    want = 60 if tier == "quick" else 400
    for i in range(want * 20):
        if n >= want:
            break
        base = gen_tree(rng, fids)
        if i % 2 == 0 and not any(e[3] == "d" and descendants(tdict(base), e[0]) for e in base):
            continue                                   # every other case: a non-empty directory is available
        law = ["l2", "l2", "l4", "l1", "l3", "gen"][n % 6]
        mtype = ["merge3", "weave", "lca"][(n // 6) % 3]
        if law == "l2":
            this, other = base, reuse(rng, base)
        elif law == "l1":
            this, other = reuse(rng, base), base
        elif law == "l3":
            this = other = reuse(rng, base)
        elif law == "l4":
            ids = [e[0] for e in base]
            rng.shuffle(ids)
            k = rng.randint(0, max(0, len(ids) - 1))
            mine = set(ids[:k]) | {7}
            other = reuse(rng, base, victims=set(ids[k:]))
            this = edit(rng, base, sorted(mine), rng.randint(1, 3))
            if other is not None and (changed(base, this) & changed(base, other)):
                this = base
        else:
            other = reuse(rng, base)
            this = edit(rng, base, fids + [7], rng.randint(1, 2))
        if this is None or other is None:
            continue
        n += 1
        if n % 3 == 0:
            yield mk("2a", mtype, base, this, other, lcas=[base, base], tag="xreuse-" + law)
        else:
            yield mk("2a", mtype, base, this, other, tag="reuse-" + law)


def changed(a, b):
    da, db = tdict(a), tdict(b)
    return {f for f in set(da) | set(db) if da.get(f) != db.get(f)}


def union(base, this, other):
    db, dt, do = tdict(base), tdict(this), tdict(other)
    out = {}
    for f in set(db) | set(dt) | set(do):
        e = do.get(f) if do.get(f) != db.get(f) else dt.get(f)
        if e is not None:
            out[f] = e
    return tlist(out)


def mk(fmt, mtype, base, this, other, lcas=None, tag=""):
    inp = {"fmt": fmt, "mtype": mtype, "base": base, "this": this, "other": other, "tag": tag}
    if lcas is not None:
        inp["lcas"] = lcas
    return inp


# ---------------------------------------------------------------- generator

def single_entry_states():
    """A few states of one file id (None = absent) inside a fixed context with directories 1 and 2."""
    return [None,
            E(3, 0, "a", "f", TEXTS[0], False), E(3, 0, "b", "f", TEXTS[0], False), E(3, 1, "a", "f", TEXTS[0], False),
            E(3, 0, "a", "f", TEXTS[3], False), E(3, 0, "a", "f", TEXTS[4], False), E(3, 0, "a", "f", TEXTS[0], True),
            E(3, 2, "c", "f", TEXTS[1], True), E(3, 0, "a", "l", b"t1"), E(3, 0, "a", "l", b"t2"), E(3, 0, "a", "d"),
            E(3, 1, "b", "d")]


def exhaustive_single(tier):
    ctx = [E(1, 0, "x", "d"), E(2, 0, "y", "d")]
    st = single_entry_states()
    n = len(st)
    k = 0
    for ib in range(n):
        for io in range(n):
            for it in range(n):
                lawful = ib == io or ib == it or io == it
                if tier == "quick":
                    # every law-shaped triple over the first 7 states, a fifth of the other triples over them
                    if max(ib, io, it) >= 7 or (not lawful and (ib + 2 * io + 3 * it) % 5):
                        continue
                elif not lawful and (ib + io + it) % 2:
                    continue
                k += 1
                t = lambda i: ctx + ([st[i]] if st[i] else [])
                yield mk("2a", ["merge3", "weave", "lca"][k % 3], t(ib), t(it), t(io), tag="single")


def exhaustive_single_criss(tier):
    """Single-entry triples on criss-cross histories whose LCAs equal BASE (_entries_lca on law-shaped entries)."""
    ctx = [E(1, 0, "x", "d"), E(2, 0, "y", "d")]
    st = single_entry_states()
    n = 7 if tier == "quick" else len(st)
    k = 0
    for ib in range(n):
        for io in range(n):
            for it in range(n):
                if not (it == ib or ((io == ib or io == it) and (ib + io + it) % 3 == 0)
                        or (tier != "quick" and (ib + 2 * io + 3 * it) % 7 == 0)):
                    continue
                k += 1
                t = lambda i: ctx + ([st[i]] if st[i] else [])
                yield mk("2a", ["merge3", "weave", "lca"][k % 3], t(ib), t(it), t(io), lcas=[t(ib), t(ib)], tag="xsingle")


def cases(rng, tier):
    quick = tier == "quick"
    yield from exhaustive_single(tier)
    yield from exhaustive_single_criss(tier)
    yield from reuse_cases(rng, tier)
    fids = [1, 2, 3, 4, 5, 6]
    nrand = 30 if quick else 150
    for i in range(nrand * 6):
        law = ["l1", "l2", "l3", "l4", "l4", "gen"][i % 6]
        mtype = ["merge3", "weave", "lca"][(i // 6) % 3]
        base = gen_tree(rng, fids)
        allf = fids + [7]
        if law == "l1":
            this, other = edit(rng, base, allf, rng.randint(1, 4)), base
        elif law == "l2":
            this, other = base, edit(rng, base, allf, rng.randint(1, 4))
        elif law == "l3":
            this = edit(rng, base, allf, rng.randint(1, 4))
            other = this
        elif law == "l4":
            for _ in range(30):
                rng.shuffle(allf)
                k = rng.randint(1, len(allf) - 1)
                this = edit(rng, base, allf[:k], rng.randint(1, 3))
                other = edit(rng, base, allf[k:], rng.randint(1, 3))
                if not (changed(base, this) & changed(base, other)) and changed(base, other) and changed(base, this):
                    break
            else:
                this, other = base, edit(rng, base, allf, 2)
        else:
            this, other = edit(rng, base, allf, rng.randint(1, 3)), edit(rng, base, allf, rng.randint(1, 3))
        yield mk("2a", mtype, base, this, other, tag=law)
    # git trees (merge3 only; identity = path)
    gf = sorted(GIT_PATHS)
    for i in range((10 if quick else 60) * 5):
        law = ["l1", "l2", "l3", "l4", "gen"][i % 5]
        base = gen_git_tree(rng, law == "gen")
        if law == "l1":
            this, other = edit_git(rng, base, gf, rng.randint(1, 3)), base
        elif law == "l2":
            this, other = base, edit_git(rng, base, gf, rng.randint(1, 3))
        elif law == "l3":
            this = other = edit_git(rng, base, gf, rng.randint(1, 3))
        elif law == "l4":
            rng.shuffle(gf)
            k = rng.randint(1, len(gf) - 1)
            this, other = edit_git(rng, base, gf[:k], rng.randint(1, 3)), edit_git(rng, base, gf[k:], rng.randint(1, 3))
        else:
            this, other = edit_git(rng, base, gf, rng.randint(1, 3), True), edit_git(rng, base, gf, rng.randint(1, 3), True)
        yield mk("git", "merge3", base, this, other, tag="g" + law)
    # criss-cross histories: Merge3Merger runs _entries_lca / _lca_multi_way
    for i in range((12 if quick else 80) * 5):
        law = ["l1", "l2", "l3", "l4", "gen"][i % 5]
        mtype = ["merge3", "weave", "lca"][(i // 5) % 3]
        base = gen_tree(rng, fids)
        allf = fids + [7]
        if law == "gen":
            l1, l2 = edit(rng, base, allf, rng.randint(0, 2)), edit(rng, base, allf, rng.randint(0, 2))
            this = edit(rng, rng.choice([l1, l2]), allf, rng.randint(0, 2))
            other = edit(rng, rng.choice([l1, l2]), allf, rng.randint(0, 2))
        else:
            l1 = l2 = base
            if law == "l1":
                this, other = edit(rng, base, allf, rng.randint(1, 3)), base
            elif law == "l2":
                this, other = base, edit(rng, base, allf, rng.randint(1, 3))
            elif law == "l3":
                this = other = edit(rng, base, allf, rng.randint(1, 3))
            else:
                rng.shuffle(allf)
                k = rng.randint(1, len(allf) - 1)
                this = edit(rng, base, allf[:k], rng.randint(1, 3))
                other = edit(rng, base, allf[k:], rng.randint(1, 3))
                if changed(base, this) & changed(base, other):
                    other = base
        yield mk("2a", mtype, base, this, other, lcas=[l1, l2], tag="x" + law)


# candidate findings (notes/C17.md)
# OTHER turns directory 1 into a file, THIS adds a file inside it: MalformedTransform instead of a conflict
WITNESS_NONDIR = mk("2a", "merge3", [E(1, 0, "x", "d")], [E(1, 0, "x", "d"), E(3, 1, "a", "f", b"q\n")],
                    [E(1, 0, "x", "f", b"q\n")], tag="l4-nondir")
# git: OTHER deletes the only file of directory x, THIS adds another file there: conflict reported on "x"
WITNESS_GITDIR = mk("git", "merge3", [E(1, 0, "a", "f", b"1-1\n"), E(3, 0, "x/a", "f", b"3-1\n3-2\n")],
                    [E(1, 0, "a", "f", b"1-1\n"), E(3, 0, "x/a", "f", b"3-1\n3-2\n"), E(4, 0, "x/b", "f", b"4-1\n4-2\n")],
                    [E(1, 0, "a", "f", b"1-1\n")], tag="gl4-emptied-dir")
# THIS deleted directory 1 and its file, OTHER renamed the file inside it: used to raise NoFinalPath
# (C17-nofinalpath-crash, fixed in /repo bbc9cee); regression input: must give [] + a path conflict
WITNESS_NOFINALPATH = mk("2a", "merge3", [E(1, 0, "x", "d"), E(3, 1, "a", "f", b"q\n")], [],
                         [E(1, 0, "x", "d"), E(3, 1, "b", "f", b"q\n")], tag="gen-nofinalpath")


# path re-use (one path, different file ids in the trees of one merge), THIS = BASE unless said otherwise
def _reuse_corpus():
    D, F = E(1, 0, "d", "d"), E(3, 1, "f", "f", TEXTS[0])
    base = [D, F]
    # OTHER: mv d old; mkdir d (new id); add d/new; mv old/f old/g
    o1 = [E(1, 0, "old", "d"), E(3, 1, "g", "f", TEXTS[0]), E(8, 0, "d", "d"), E(9, 8, "new", "f", b"q\n")]
    # same without the in-place rename, and with an edit instead of the rename
    o2 = [E(1, 0, "old", "d"), F, E(8, 0, "d", "d"), E(9, 8, "new", "f", b"q\n")]
    o3 = [E(1, 0, "old", "d"), E(3, 1, "f", "f", TEXTS[3], True), E(8, 0, "d", "d"), E(9, 8, "f", "f", b"q\n")]
    # the moved directory goes INTO the new one; the child moves to the new directory
    o4 = [E(8, 0, "d", "d"), E(1, 8, "d", "d"), E(3, 1, "g", "f", TEXTS[0]), E(9, 8, "f", "f", b"q\n")]
    o5 = [E(1, 0, "old", "d"), E(8, 0, "d", "d"), E(3, 8, "f", "f", TEXTS[0]), E(9, 1, "f", "f", b"q\n")]
    # file path re-use: rename a file away, new file (and a new directory) at the old path
    fb = [D, F, E(4, 0, "a", "f", TEXTS[1])]
    o6 = [D, E(3, 1, "g", "f", TEXTS[0]), E(8, 1, "f", "f", b"q\n"), E(4, 0, "b", "f", TEXTS[1]), E(9, 0, "a", "f", TEXTS[2])]
    o7 = [D, E(3, 0, "f", "f", TEXTS[0]), E(8, 1, "f", "d"), E(9, 8, "f", "f", b"q\n"), E(4, 0, "a", "f", TEXTS[1])]
    out = []
    k = 0
    for b, o in [(base, o1), (base, o2), (base, o3), (base, o4), (base, o5), (fb, o6), (fb, o7)]:
        for shape in ("l2", "l1", "l4", "xl2"):
            k += 1
            mt = ["merge3", "weave", "lca"][k % 3]
            if shape == "l2":
                out.append(mk("2a", mt, b, b, o, tag="reuse-l2"))
            elif shape == "l1":
                out.append(mk("2a", mt, b, o, b, tag="reuse-l1"))
            elif shape == "l4":
                out.append(mk("2a", mt, b + [E(7, 0, "z", "f", b"q\n")], b + [E(7, 0, "z", "f", TEXTS[0], True)],
                              o + [E(7, 0, "z", "f", b"q\n")], tag="reuse-l4"))
            else:
                out.append(mk("2a", mt, b, b, o, lcas=[b, b], tag="xreuse-l2"))
    return out


REUSE_CORPUS = _reuse_corpus()


def corpus():
    d, f = E(1, 0, "x", "d"), E(3, 0, "a", "f", TEXTS[0], True)
    return [
        # both sides add different ids at one path: the union is not a tree (duplicate)
        mk("2a", "merge3", [d], [d, E(3, 0, "a", "f", b"q\n")], [d, E(4, 0, "a", "f", b"q\n")], tag="l4-dup"),
        # THIS adds into a directory OTHER deletes
        mk("2a", "merge3", [d], [d, E(3, 1, "a", "f", b"q\n")], [], tag="l4-orphan"),
        # modified in OTHER, deleted in THIS: contents conflict
        mk("2a", "merge3", [d, f], [d], [d, E(3, 0, "a", "f", TEXTS[3], True)], tag="cc"),
        # text conflict and clean text merge
        mk("2a", "merge3", [f], [E(3, 0, "a", "f", TEXTS[3], True)], [E(3, 0, "a", "f", TEXTS[4], False)], tag="tc"),
        mk("2a", "weave", [f], [E(3, 0, "a", "f", TEXTS[1], True)], [E(3, 0, "b", "f", TEXTS[2], False)], tag="tm"),
        WITNESS_NONDIR, WITNESS_GITDIR, WITNESS_NOFINALPATH,
    ] + REUSE_CORPUS


# ---------------------------------------------------------------- implementation driver

def setup(scratch):
    import breezy
    import breezy.bzr  # noqa
    os.environ.setdefault("BRZ_EMAIL", "verif <verif@example.com>")
    import logging
    logging.getLogger("brz").setLevel(logging.CRITICAL)
    _state.clear()
    _state["dir"] = scratch
    _state["n"] = 0
    # pack commits are IO bound (3x slower on the shared disk): build the trees on tmpfs when there is one;
    # the directory is removed in teardown() (and at exit)
    if os.path.isdir("/dev/shm") and os.access("/dev/shm", os.W_OK):
        import atexit
        import tempfile
        d = tempfile.mkdtemp(prefix="verif-C17-", dir="/dev/shm")
        atexit.register(shutil.rmtree, d, True)
        _state["dir"] = _state["own"] = d


def teardown():
    for k in ("own", "own2"):
        if _state.get(k):
            shutil.rmtree(_state[k], ignore_errors=True)
    _state.clear()


def _scratch():
    if "dir" not in _state or not os.path.isdir(_state["dir"]):
        import tempfile
        import atexit
        d = tempfile.mkdtemp(prefix="c17-")
        atexit.register(shutil.rmtree, d, True)
        setup(d)
        _state["own2"] = d
    return _state["dir"]


def fidb(n):
    return b"id%d" % n


def fidn(b):
    if b == b"TREE_ROOT":
        return 0
    if not b.startswith(b"id"):
        raise AssertionError("unexpected file id %r" % b)
    return int(b[2:])


def _fresh():
    from breezy import controldir
    _state["n"] += 1
    d = os.path.join(_scratch(), "wt%d" % _state["n"])
    wt = controldir.ControlDir.create_standalone_workingtree(
        d, format=controldir.format_registry.make_controldir("2a"))
    wt.set_root_id(b"TREE_ROOT")
    wt.commit("root")
    _state["wt"], _state["uses"] = wt, 0
    return wt


def _wipe(wt):
    base = wt.basedir
    with wt.lock_tree_write():
        paths = [p for p, e in wt.iter_entries_by_dir() if p != ""]
        if paths:
            wt.unversion(paths)
    for n in os.listdir(base):
        if n == ".bzr":
            continue
        p = os.path.join(base, n)
        if os.path.isdir(p) and not os.path.islink(p):
            shutil.rmtree(p)
        else:
            os.unlink(p)


def _paths(spec):
    byid = tdict(spec)

    def path(f):
        if f == 0:
            return ""
        e = byid[f]
        pp = path(e[1])
        return (pp + "/" if pp else "") + e[2]
    return {f: path(f) for f in byid}


def _set_tree(wt, spec):
    _wipe(wt)
    paths = _paths(spec)
    ps, ids = [], []
    for f in sorted(paths, key=lambda f: paths[f]):
        e = tdict(spec)[f]
        ap = os.path.join(wt.basedir, paths[f])
        if e[3] == "d":
            os.mkdir(ap)
        elif e[3] == "f":
            with open(ap, "wb") as fh:
                fh.write(e[4])
            os.chmod(ap, 0o755 if e[5] else 0o644)
        else:
            os.symlink(e[4].decode(), ap)
        ps.append(paths[f])
        ids.append(fidb(f))
    if ps:
        wt.add(ps, ids=ids)


def _commit(wt, spec, msg, merged=None):
    _set_tree(wt, spec)
    if merged is not None:
        # (adding after set_parent_ids([a, b]) loses entries in the dirstate: add first, then record the merge)
        wt.set_parent_ids([wt.last_revision(), merged])
    rev = wt.commit(msg)
    got = _read(wt.branch.repository.revision_tree(rev))
    if got != tlist(tdict(spec)):
        raise AssertionError(f"tree builder: committed {got!r} for {spec!r}")
    return rev


def _goto(wt, rev, parents=None):
    from breezy import revision as _rev
    with wt.branch.lock_read():
        g = wt.branch.repository.get_graph()
        n = len(list(g.iter_lefthand_ancestry(rev, [_rev.NULL_REVISION])))
    wt.branch.set_last_revision_info(n, rev)
    wt.set_parent_ids(parents or [rev])


def _read(tree):
    out = []
    with tree.lock_read():
        for p, e in tree.iter_entries_by_dir():
            if p == "":
                continue
            k = e.kind
            if k == "file":
                c, x, kk = tree.get_file_text(p), bool(tree.is_executable(p)), "f"
            elif k == "symlink":
                c, x, kk = tree.get_symlink_target(p).encode(), False, "l"
            elif k == "directory":
                c, x, kk = b"", False, "d"
            else:
                raise AssertionError("unexpected kind %r" % k)
            out.append([fidn(e.file_id), fidn(e.parent_id), e.name, kk, c, x])
    return sorted(out)


def _text_table(inp, wt, other_tree, mtype):
    """Tabulate the text merger (environment: merge3 / PlanWeaveMerge) for every id that is a file in THIS and OTHER."""
    from breezy import osutils
    db, dt, do = tdict(inp["base"]), tdict(inp["this"]), tdict(inp["other"])
    tpaths = _paths(inp["this"])
    tab = []
    for f in sorted(set(dt) & set(do)):
        if dt[f][3] != "f" or do[f][3] != "f":
            continue
        bt = db[f][4] if f in db and db[f][3] == "f" else b""
        tt, ot = dt[f][4], do[f][4]
        if tt == ot:
            continue                      # equal texts never reach the text merger
        if mtype == "merge3":
            from merge3 import Merge3
            import patiencediff
            m3 = Merge3(osutils.split_lines(bt), osutils.split_lines(tt), osutils.split_lines(ot),
                        is_cherrypick=False, sequence_matcher=patiencediff.PatienceSequenceMatcher)
            lines = list(m3.merge_lines(name_a=b"TREE", name_b=b"MERGE-SOURCE", name_base=b"BASE-REVISION",
                                        start_marker=b"<" * 7, base_marker=None, reprocess=False))
            conf = any(l.startswith(b"<" * 7) for l in lines)
        else:
            from bzrformats.versionedfile import PlanWeaveMerge
            with wt.lock_read(), other_tree.lock_read():
                if mtype == "weave":
                    plan = wt.plan_file_merge(tpaths[f], other_tree, base=None)
                else:
                    plan = wt.plan_file_lca_merge(tpaths[f], other_tree, base=None)
                pm = PlanWeaveMerge(list(plan), b"<<<<<<< TREE\n", b">>>>>>> MERGE-SOURCE\n")
                lines, conf = pm.merge_lines(False)
                lines, conf = list(lines), bool(conf)
        tab.append([[bt, tt, ot], [b"".join(lines), conf]])
    return tab


def _key(inp):
    return json.dumps(inp, sort_keys=True, default=lambda b: b.decode("latin-1"))


def impl(inp):
    from breezy import merge as _merge
    from breezy.transform import NoFinalPath as _NoFinalPath, MalformedTransform as _Malformed
    if inp["fmt"] != "2a":
        return _impl_git(inp)
    wt = _state.get("wt")
    if wt is None or _state.get("uses", 99) >= 25 or "dir" not in _state or not os.path.isdir(wt.basedir):
        _scratch()
        wt = _fresh()
    _state["uses"] += 1
    wt.set_conflicts([])
    wt.set_parent_ids([wt.last_revision()])
    rb = _commit(wt, inp["base"], "base")
    if "lcas" in inp:
        r1 = _commit(wt, inp["lcas"][0], "lca1")
        _goto(wt, rb)
        r2 = _commit(wt, inp["lcas"][1], "lca2")
        ro = _commit(wt, inp["other"], "other", merged=r1)
        _goto(wt, r1)
        rt = _commit(wt, inp["this"], "this", merged=r2)
    else:
        ro = _commit(wt, inp["other"], "other")
        _goto(wt, rb)
        rt = _commit(wt, inp["this"], "this")
    repo = wt.branch.repository
    if _read(wt) != tlist(tdict(inp["this"])):
        raise AssertionError("working tree is not THIS before the merge")
    other_tree = repo.revision_tree(ro)
    # is_unmodified (same last-changed revision as some LCA entry): data of the input trees
    unm = []
    if "lcas" in inp:
        with repo.lock_read():
            oinv = other_tree.root_inventory
            linvs = [repo.revision_tree(r).root_inventory for r in (r1, r2)]
            for f in sorted(tdict(inp["other"])):
                orev = oinv.get_entry(fidb(f)).revision
                if any(li.has_id(fidb(f)) and li.get_entry(fidb(f)).revision == orev for li in linvs):
                    unm.append(f)
    tab = _text_table(inp, wt, other_tree, inp["mtype"])
    _cache[_key(inp)] = (unm, tab)
    mt = {"merge3": _merge.Merge3Merger, "weave": _merge.WeaveMerger, "lca": _merge.LCAMerger}[inp["mtype"]]
    try:
        with wt.lock_write():
            m = _merge.Merger.from_revision_ids(wt, ro)
            if m.base_rev_id != rb:
                raise RuntimeError(f"base selection: {m.base_rev_id!r} instead of {rb!r}")
            if bool(m._is_criss_cross) != ("lcas" in inp):
                raise RuntimeError("criss-cross detection differs from the built history")
            m.merge_type = mt
            cooked = m.do_merge()
    except AssertionError:
        _state["uses"] = 99
        return Err("AssertionError")
    except _Malformed:
        # candidate finding C17-nondir-parent-crash (notes/C17.md): resolve_conflicts gives up
        _state["uses"] = 99
        return Err("MalformedTransform")
    except _NoFinalPath:
        # C17-nofinalpath-crash (fixed in /repo bbc9cee): reported by the oracle if it ever returns
        _state["uses"] = 99
        return Err("NoFinalPath")
    wt2 = wt.controldir.open_workingtree()
    stored = sorted((c.typestring, c.file_id) for c in wt2.conflicts())
    cs = sorted((c.typestring, c.file_id) for c in cooked)
    if stored != cs:
        raise RuntimeError(f"stored conflicts {stored!r} differ from cooked {cs!r}")
    return [_obs_tree(_read(wt2)), [[fidn(fid) if fid is not None else -1, Tag(ts)] for ts, fid in cs]]


KIND = {"f": "file", "d": "directory", "l": "symlink"}


def _obs_tree(t):
    return [[e[0], e[1], e[2], Tag(KIND[e[3]]), bytes(e[4]), bool(e[5])] for e in tlist(tdict(t))]


# ---- git trees: identity is the path (contents are chosen per path so that dulwich's rename detection
# never pairs two paths); directories are implicit, so the abstract tree is flat: one entry per file path,
# parent 0, name = the whole path.
GIT_PATHS = {1: "a", 2: "b", 3: "x/a", 4: "x/b", 5: "y/a"}
GIT_FID = {v: k for k, v in GIT_PATHS.items()}


def git_texts(f):
    t = b"%d" % f
    ls = [t + b"-1\n", t + b"-2\n", t + b"-3\n", t + b"-4\n", t + b"-5\n"]
    j = b"".join
    return [j(ls), j([t + b"-0\n"] + ls), j(ls + [t + b"-6\n"]), j(ls[:2] + [t + b"-X\n"] + ls[3:]),
            j(ls[:2] + [t + b"-Y\n"] + ls[3:])]


def git_entry(rng, f, fixed=False):
    # fixed: the kind is a function of the path (see notes/C17.md, finding 6: kind clashes between the sides
    # are merged by the git trees in a way the flat model does not follow)
    k = ("l" if f == 4 else "f") if fixed else rng.choice("ffffl")
    if k == "f":
        return E(f, 0, GIT_PATHS[f], "f", rng.choice(git_texts(f)), rng.random() < 0.3)
    return E(f, 0, GIT_PATHS[f], "l", b"t%d-%d" % (f, rng.randint(1, 2)))


def gen_git_tree(rng, fixed=False):
    return [git_entry(rng, f, fixed) for f in sorted(GIT_PATHS) if rng.random() < 0.7]


def edit_git(rng, tree, fids, nops, fixed=False):
    d = tdict(tree)
    for _ in range(nops):
        f = rng.choice(fids)
        op = rng.choice(["del", "mod", "mod", "exe", "kind", "add"])
        if f not in d:
            if op in ("add", "mod", "kind"):
                d[f] = git_entry(rng, f, fixed)
            continue
        e = d[f]
        if op == "del":
            del d[f]
        elif op == "mod":
            d[f] = E(f, 0, e[2], e[3], rng.choice(git_texts(f)) if e[3] == "f" else b"t%d-%d" % (f, rng.randint(1, 2)), e[5])
        elif op == "exe" and e[3] == "f":
            e[5] = not e[5]
        elif op == "kind" and not fixed:
            n = git_entry(rng, f)
            d[f] = n
    return tlist(d)


def _git_fresh():
    import breezy.git  # noqa
    from breezy import controldir
    _state["n"] += 1
    d = os.path.join(_scratch(), "git%d" % _state["n"])
    wt = controldir.ControlDir.create_standalone_workingtree(
        d, format=controldir.format_registry.make_controldir("git"))
    with open(os.path.join(d, "seed"), "wb") as f:
        f.write(b"seed %d\n" % _state["n"])
    wt.add(["seed"])
    wt.commit("root")
    _state["gwt"], _state["guses"] = wt, 0
    return wt


def _git_set(wt, spec):
    base = wt.basedir
    with wt.lock_tree_write():
        paths = [p for p, e in wt.iter_entries_by_dir() if p not in ("", "seed") and e.kind != "directory"]
        if paths:
            wt.unversion(paths)
    for n in os.listdir(base):
        if n in (".git", "seed"):
            continue
        p = os.path.join(base, n)
        if os.path.isdir(p) and not os.path.islink(p):
            shutil.rmtree(p)
        else:
            os.unlink(p)
    ps = []
    for e in tlist(tdict(spec)):
        ap = os.path.join(base, e[2])
        os.makedirs(os.path.dirname(ap), exist_ok=True)
        if e[3] == "f":
            with open(ap, "wb") as fh:
                fh.write(e[4])
            os.chmod(ap, 0o755 if e[5] else 0o644)
        else:
            os.symlink(e[4].decode(), ap)
        ps.append(e[2])
    if ps:
        wt.add(ps)


def _git_read(tree):
    """-> (entries, directories)"""
    out, dirs = [], []
    with tree.lock_read():
        for p, e in tree.iter_entries_by_dir():
            if p in ("", "seed"):
                continue
            if e.kind == "directory":
                dirs.append(p)
                continue
            stem, suf = p, ""
            for s in (".OTHER", ".THIS"):
                if p.endswith(s) and p[:-len(s)] in GIT_FID:
                    stem, suf = p[:-len(s)], s
            if stem not in GIT_FID:
                raise AssertionError("unexpected versioned path %r" % p)
            if hasattr(tree, "abspath") and not os.path.lexists(tree.abspath(p)):
                continue          # conflicted index entry (stage != 0) whose file the merge removed
            if e.kind == "file":
                out.append([GIT_FID[stem], 0, p, "f", tree.get_file_text(p), bool(tree.is_executable(p))])
            elif e.kind == "symlink":
                out.append([GIT_FID[stem], 0, p, "l", tree.get_symlink_target(p).encode(), False])
            else:
                raise AssertionError("unexpected kind %r" % e.kind)
    return sorted(out), dirs


def _git_commit(wt, spec, msg):
    _git_set(wt, spec)
    rev = wt.commit(msg)
    got, _ = _git_read(wt.branch.repository.revision_tree(rev))
    if got != tlist(tdict(spec)):
        raise AssertionError(f"git tree builder: committed {got!r} for {spec!r}")
    return rev


def _impl_git(inp):
    from breezy import merge as _merge
    from breezy.transform import NoFinalPath as _NoFinalPath, MalformedTransform as _Malformed
    wt = _state.get("gwt")
    if wt is None or _state.get("guses", 99) >= 25 or not os.path.isdir(wt.basedir):
        _scratch()
        wt = _git_fresh()
    _state["guses"] += 1
    try:
        wt.set_conflicts([])
        wt.set_parent_ids([wt.last_revision()])
        rb = _git_commit(wt, inp["base"], "base")
    except Exception:
        wt = _git_fresh()                 # stale state from an earlier case: rebuild once in a fresh tree
        rb = _git_commit(wt, inp["base"], "base")
    ro = _git_commit(wt, inp["other"], "other")
    wt.branch.generate_revision_history(rb)
    wt.set_parent_ids([rb])
    rt = _git_commit(wt, inp["this"], "this")
    # side finding (notes/C17.md): committing a file<->symlink kind change in a git working tree drops the path
    # from the index; re-add so that the working tree really is THIS before merging
    wt = wt.controldir.open_workingtree()
    _state["gwt"] = wt
    got, _ = _git_read(wt)
    if got != tlist(tdict(inp["this"])):
        have = {e[2] for e in got}
        wt.add([e[2] for e in tlist(tdict(inp["this"])) if e[2] not in have])
        wt = wt.controldir.open_workingtree()
        _state["gwt"] = wt
        got, _ = _git_read(wt)
        if got != tlist(tdict(inp["this"])):
            raise AssertionError(f"git working tree is {got!r}, not THIS")
    other_tree = wt.branch.repository.revision_tree(ro)
    tab = _text_table(inp, wt, other_tree, "merge3")
    _cache[_key(inp)] = ([], tab)
    try:
        with wt.lock_write():
            m = _merge.Merger.from_revision_ids(wt, ro)
            if m.base_rev_id != rb or m._is_criss_cross:
                raise RuntimeError("git base selection differs from the built history")
            m.merge_type = _merge.Merge3Merger
            cooked = m.do_merge()
    except AssertionError:
        _state["guses"] = 99
        return Err("AssertionError")
    except _Malformed:
        _state["guses"] = 99
        return Err("MalformedTransform")
    except _NoFinalPath:
        _state["guses"] = 99
        return Err("NoFinalPath")
    wt2 = wt.controldir.open_workingtree()
    entries, dirs = _git_read(wt2)
    cs = []
    for c in cooked:
        p = c.path
        for s in (".OTHER", ".THIS"):
            if p.endswith(s) and p[:-len(s)] in GIT_FID:
                p = p[:-len(s)]
        if p in GIT_FID:
            cs.append([GIT_FID[p], Tag(c.typestring)])
        elif c.path in dirs or c.path in ("x", "y"):
            cs.append([-2, Tag(c.typestring)])          # a conflict reported on an (implicit) directory
        else:
            raise AssertionError(f"conflict on unexpected path {c!r}")
    if cs:
        _state["guses"] = 99              # leftovers of conflicts confuse later index updates: start afresh
    return [_obs_tree(entries), sorted(cs)]


def impl_obs(inp, obs):
    """File-system conflicts (transform.resolve_conflicts) are not modelled: project them to one tag."""
    if obs == Err("MalformedTransform"):
        return Tag("fs-conflict")             # resolve_conflicts gave up: still "file-system conflicts arose"
    if isinstance(obs, (Err, Tag)):
        return obs
    if any(str(c[1]) in FS_TYPES for c in obs[1]):
        return Tag("fs-conflict")
    rank = {"path conflict": 0, "contents conflict": 1, "text conflict": 1}
    # git: conflicts reported on implicit directories (candidate finding C17-git-emptied-dir) are outside the flat model
    cs = [c for c in obs[1] if c[0] != -2]
    return [obs[0], sorted(cs, key=lambda c: (c[0], rank.get(str(c[1]), 9)))]


# ---------------------------------------------------------------- model term

def _coq_entry(e):
    body = {"f": f"(BFile {coq_bytes(e[4])} {coq_bool(e[5])})", "d": "BDir", "l": f"(BLink {coq_bytes(e[4])})"}[e[3]]
    return f"({coq_nat(e[0])}, mkE {coq_nat(e[1])} {coq_bytes(e[2])} {body})"


def _coq_tree(t):
    return coq_list([_coq_entry(e) for e in tlist(tdict(t))])


def model_term(inp):
    unm, tab = _cache.get(_key(inp), ([], []))
    trees = [inp["base"], inp["this"], inp["other"]] + list(inp.get("lcas", []))
    U = sorted({e[0] for t in trees for e in t})
    ctab = coq_list([f"(({coq_bytes(k[0])}, {coq_bytes(k[1])}, {coq_bytes(k[2])}), ({coq_bytes(r[0])}, {coq_bool(r[1])}))"
                     for k, r in tab])
    return (f"run_case {coq_bool('lcas' in inp)} {ctab} {coq_list(unm, coq_nat)} {coq_list(U, coq_nat)} "
            f"{_coq_tree(inp['base'])} {coq_list([_coq_tree(l) for l in inp.get('lcas', [])])} "
            f"{_coq_tree(inp['other'])} {_coq_tree(inp['this'])}")


# ---------------------------------------------------------------- oracle: the four laws on the implementation

def oracle(inp, obs):
    if obs == Err("NoFinalPath"):
        # every merge of well-formed trees ends with a tree and a conflict list (repaired crash, bbc9cee)
        return "merge failed with NoFinalPath instead of reporting a path conflict"
    base, this, other = (tlist(tdict(inp[k])) for k in ("base", "this", "other"))
    if any(tlist(tdict(l)) != base for l in inp.get("lcas", [])):
        return None                                  # the laws are stated relative to one common ancestor
    if other == base:
        want, law = this, "OTHER = BASE must give THIS"
    elif this == base:
        want, law = other, "THIS = BASE must give OTHER"
    elif this == other:
        want, law = this, "identical changes must give that tree"
    elif not (changed(base, this) & changed(base, other)):
        want, law = union(base, this, other), "disjoint changes must give the union"
        if not wf(want):
            if isinstance(obs, list) and not obs[1]:
                return "the union of the changes is not a tree, yet no conflict was reported"
            if isinstance(obs, Err):
                return f"disjoint changes whose union is not a tree must give conflicts; merge failed with {obs}"
            return None
    else:
        return None
    if isinstance(obs, (Err, Tag)):
        return f"{law}: merge failed with {obs}"
    if obs[1]:
        return f"{law} without conflicts; got conflicts {obs[1]!r}"
    if obs[0] != _obs_tree(want):
        return f"{law}; got {obs[0]!r}, wanted {_obs_tree(want)!r}"
    return None


def finding_matches(fid, inp, obs, why):
    db, dt, do = tdict(inp["base"]), tdict(inp["this"]), tdict(inp["other"])
    if fid == "C17-nondir-parent-crash":
        return (inp["fmt"] == "2a" and obs == Err("MalformedTransform")
                and any(f in do and db[f][3] == "d" and do[f][3] == "f" and any(e[1] == f for e in dt.values())
                        for f in db))
    if fid == "C17-git-emptied-dir-conflict":
        if inp["fmt"] != "git" or not isinstance(obs, list) or not obs[1] or any(c[0] != -2 for c in obs[1]):
            return False
        # some directory lost all its BASE files in OTHER while THIS has a file there that BASE had not
        def dirs(d):
            return {e[2].rsplit("/", 1)[0] for e in d.values() if "/" in e[2]}
        return any(x in dirs(db) and x not in dirs(do)
                   and any(e[2].startswith(x + "/") and f not in db for f, e in dt.items())
                   for x in dirs(dt))
    return False


def nontrivial(inp, obs):
    return tlist(tdict(inp["other"])) != tlist(tdict(inp["base"]))


def distribution(inputs, observations):
    d = {}
    for i, o in zip(inputs, observations):
        if isinstance(o, (Err, Tag)):
            res = str(o)
        elif any(str(c[1]) in FS_TYPES for c in o[1]):
            res = "fs-conflict"
        elif o[1]:
            res = "+".join(sorted({str(c[1]).split()[0] for c in o[1]}))
        else:
            res = "clean"
        k = f"{i['fmt']}:{i['mtype']}:{i['tag']}:{res}"
        d[k] = d.get(k, 0) + 1
    return d


def shrink(inp, fails):
    """Drop file ids (from all trees at once) while the failure persists."""
    cur = inp
    ids = sorted({e[0] for k in ("base", "this", "other") for e in inp[k]}, reverse=True)
    for f in ids:
        def drop(t):
            d = tdict(t)
            for g in descendants(d, f) | {f}:
                d.pop(g, None)
            return tlist(d)
        cand = dict(cur, base=drop(cur["base"]), this=drop(cur["this"]), other=drop(cur["other"]))
        if "lcas" in cur:
            cand["lcas"] = [drop(l) for l in cur["lcas"]]
        try:
            if fails(cand):
                cur = cand
        except Exception:
            pass
    return cur
