"""Shared helpers for C46 (clean-tree) and C11 (smart_add): real bzr/git working
trees in the scratch directory, materialised from a JSON layout, and their
encoding as coq/Lib/DirTree.v terms.

A layout is a list of [relpath, kind]:
  "f"  regular file          "d"  directory
  "lo" symlink to a directory OUTSIDE the tree      "lf" symlink to a file outside
  "lx" dangling symlink      "li:<relpath>" symlink to <relpath> inside the tree
A FILE named ".git" gets a gitdir pointer line (git worktree / submodule / --separate-git-dir checkout).
Files named branch-format directly inside a ".bzr" directory get a valid bzr
meta-dir format string (so the directory is a control directory for ControlDir.open).
"""
import os
import shutil

from vlib import Tag, coq_bytes

BZR_FORMAT = b"Bazaar-NG meta directory, format 1\n"
OWN_CTL = {"bzr": ".bzr", "git": ".git"}
_st = {}


def setup(scratch):
    import breezy
    import breezy.bzr  # noqa
    import breezy.git  # noqa
    from breezy import controldir
    import logging
    logging.getLogger("brz").setLevel(logging.ERROR)      # "skipping nested tree ..." warnings
    os.environ.setdefault("BRZ_EMAIL", "verif <verif@example.com>")
    _st["dir"] = scratch
    _st["n"] = 0
    _st["tmpl"] = {}
    for fmt, reg in (("bzr", "2a"), ("git", "git")):
        p = os.path.join(scratch, "tmpl-" + fmt)
        controldir.ControlDir.create_standalone_workingtree(
            p, format=controldir.format_registry.make_controldir(reg))
        _st["tmpl"][fmt] = p
    out = os.path.join(scratch, "outside")
    os.makedirs(os.path.join(out, "sub"))
    with open(os.path.join(out, "o"), "w") as f:
        f.write("outside")
    with open(os.path.join(out, "sub", "p"), "w") as f:
        f.write("outside")
    _st["outside"] = out


def reset_outside():
    """Re-create the directory outside the trees (a defective clean-tree may have emptied it)."""
    _ensure()
    out = _st["outside"]
    shutil.rmtree(out, ignore_errors=True)
    os.makedirs(os.path.join(out, "sub"))
    for rel in ("o", os.path.join("sub", "p")):
        with open(os.path.join(out, rel), "w") as f:
            f.write("outside")


def swap_for_outside_link(base, rel):
    """Replace the directory base/rel (after it was versioned) by a symlink to the outside directory."""
    p = os.path.join(base, rel)
    shutil.rmtree(p)
    os.symlink(_st["outside"], p)


def outside_state():
    _ensure()
    out = []
    for dp, dn, fn in os.walk(_st["outside"]):
        for n in sorted(dn + fn):
            out.append(os.path.relpath(os.path.join(dp, n), _st["outside"]))
    return sorted(out)


def _ensure():
    """The framework tears the scratch directory down before it shrinks / replays a failing input:
    re-create the templates in a private temporary directory (removed at exit) when needed."""
    if os.path.isdir(_st.get("dir", "")) and os.path.isdir(_st["tmpl"]["bzr"]):
        return
    import atexit
    import tempfile
    d = tempfile.mkdtemp(prefix="verif-dirtree-", dir=os.environ.get("TMPDIR") or "/tmp")
    atexit.register(shutil.rmtree, d, True)
    setup(d)


def new_tree(fmt):
    """A fresh empty working tree directory (copy of the template); returns its path."""
    _ensure()
    _st["n"] += 1
    base = os.path.join(_st["dir"], "t%d" % _st["n"])
    shutil.copytree(_st["tmpl"][fmt], base, symlinks=True)
    return base


def materialise(base, layout, ignore_lines, fmt):
    for rel, kind in sorted(layout, key=lambda e: e[0].split("/")):
        p = os.path.join(base, rel)
        if kind == "d":
            os.makedirs(p, exist_ok=True)
        elif kind == "f":
            os.makedirs(os.path.dirname(p), exist_ok=True)
            with open(p, "wb") as f:
                if rel.endswith(".bzr/branch-format"):
                    f.write(BZR_FORMAT)
                elif rel == ".git" or rel.endswith("/.git"):
                    f.write(b"gitdir: ../elsewhere/.git/worktrees/x\n")     # gitdir pointer file
                else:
                    f.write(b"x")
        elif kind == "lo":
            os.symlink(_st["outside"], p)
        elif kind == "lf":
            os.symlink(os.path.join(_st["outside"], "o"), p)
        elif kind == "lx":
            os.symlink("no-such-target", p)
        elif kind.startswith("li:"):
            os.symlink(os.path.relpath(os.path.join(base, kind[3:]), os.path.dirname(p)), p)
        else:
            raise ValueError(kind)
    if ignore_lines:
        with open(os.path.join(base, ".bzrignore" if fmt == "bzr" else ".gitignore"), "w") as f:
            f.write("".join(l + "\n" for l in ignore_lines))


def snapshot(base, fmt):
    """[(relpath, kind)] of everything below base, lstat based, sorted by segment list.
    kind: "f" | "d" | "l" (symlink not to a directory) | "L" (symlink resolving to a directory).
    The tree's own control directory is listed as an opaque directory."""
    out = []

    def rec(d, rel):
        for n in sorted(os.listdir(d), key=lambda s: s.encode()):
            p = os.path.join(d, n)
            r = n if not rel else rel + "/" + n
            if os.path.islink(p):
                out.append((r, "L" if os.path.isdir(p) else "l"))
            elif os.path.isdir(p):
                out.append((r, "d"))
                if not (rel == "" and n == OWN_CTL[fmt]):
                    rec(p, r)
            else:
                out.append((r, "f"))

    rec(base, "")
    return out


def obs_snapshot(snap):
    """The observation form the models print: [[path, Tag(kind)]] with l/L merged."""
    return [[p, Tag("l" if k == "L" else k)] for p, k in snap]


def segs(p):
    return p.split("/") if p else []


def coq_path(p):
    s = segs(p)
    return "[" + "; ".join(coq_bytes(x.encode()) for x in s) + "]" if s else "(@nil name)"


def coq_paths(ps):
    return "[" + "; ".join(coq_path(p) for p in ps) + "]" if ps else "(@nil path)"


def coq_node(snap):
    """DirTree node literal of a snapshot (children in byte order of their names)."""
    kids = {}
    kind = {"": "d"}
    for p, k in snap:
        kind[p] = k
        par = p.rsplit("/", 1)[0] if "/" in p else ""
        kids.setdefault(par, []).append(p)

    def term(p):
        k = kind[p]
        if k == "f":
            return "File"
        if k == "l":
            return "(Symlink false)"
        if k == "L":
            return "(Symlink true)"
        cs = kids.get(p, [])
        if not cs:
            return "(Dir [])"
        return "(Dir [" + "; ".join(
            "(" + coq_bytes(c.rsplit("/", 1)[-1].encode()) + ", " + term(c) + ")" for c in cs) + "])"

    return term("")


def is_ctl_dir(snapset, p):
    """p (a path ending in .bzr or .git present in the snapshot dict) marks a nested branch
    as ControlDir.open sees it."""
    last = p.rsplit("/", 1)[-1]
    if last == ".git":
        return True
    if last == ".bzr":
        return snapset.get(p) == "d" and snapset.get(p + "/branch-format") == "f"
    return False
