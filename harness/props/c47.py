"""C47 -- Path and line utilities satisfy their algebraic laws (tie H, Rust core via breezy._osutils_rs)."""
import itertools
import math

from vlib import Err, coq_bytes, coq_list, coq_Z, coq_option

PROP = "C47"
COQ = {
    "property_file": "Properties/C47.v",
    "imports": "From BV Require Import Lib.Bytes Model.OsUtils.",
}
RUST_PACKAGES = ["osutils-py"]
SHARD = 250
META = {
    "level": "proof",
    "title": "Path and line utilities satisfy their algebraic laws",
    "technique": ("Coq theorems (induction over lists, 400-year era arithmetic for the calendar) over a hand model of the "
                  "Rust osutils core + exhaustive small-domain / grid correspondence against breezy._osutils_rs (vm_compute)"),
    "level_text": ("Proved for all inputs of the model: minimum_path_selection returns a subset in which every input lies inside "
                   "exactly one selected path and no selected path lies inside another, and it covers the same region for "
                   "is_inside_any; is_inside_any is the disjunction of is_inside; splitpath/joinpath are mutually inverse on "
                   "normalised paths / valid segments; split_lines concatenates back to the text with exactly the LF-terminated "
                   "line structure; chunks_to_lines depends only on the concatenation (both the pyo3 iterator and the core "
                   "iterator); unpack_highres_date(format_highres_date(t, offset)) = (t, offset) over exact integers "
                   "(secs, nanoseconds) for every whole-minute offset below 100 h and years 0..9999, with a machine-checked "
                   "refutation for offsets that are not whole minutes. Hand model tied to the compiled Rust by exhaustive "
                   "small domains and grids."),
    "level_note": ("Trusted: Coq kernel, vm_compute, the hand model's correspondence (bounded sampling), the environment models of "
                   "std::path components/push, chrono formatting/parsing (canonical widths, years 0..9999), memchr, i32/f64 parsing; "
                   "f64<->decimal conversion stays outside Coq; crates/osutils/src/lib.rs split_lines/chunks_to_lines are not "
                   "reachable from Python and are modelled and proved but not executed by the correspondence run."),
    "design_ref": "DESIGN.md §5 C47",
    "trusted_base": ["hand model coq/Model/OsUtils.v of crates/osutils/src/{path,time,lib}.rs and crates/osutils-py/src/lib.rs",
                     "correspondence harness harness/props/c47.py",
                     "Python's '%.9f' formatting and math.floor as the f64 -> decimal environment"],
    "assumptions": ["Unix build (posix pathjoin, '/' separator only)",
                    "std::path::Path::components / starts_with / PathBuf::push behave as modelled (validated by the run)",
                    "Ord of std::path::Component = declaration order, OsStr compared bytewise",
                    "chrono %a %Y-%m-%d %H:%M:%S formatting/parsing = proleptic Gregorian calendar, canonical field widths, years 0..9999",
                    "str::parse::<f64> on '.<digits>' and format!(\"{:.9}\") are correctly rounded; f64 arithmetic is outside Coq",
                    "ASCII path strings (no unicode normalisation, no non-UTF-8 bytes)"],
    "rule": ("paths: all pairs over a pool of spellings, all subsets of the 6 paths over {a,b} depth<=2, all sets of <=2 of the 39 "
             "paths over {a,b,ab} depth<=3, random sets with odd spellings; lines: all strings over {x,LF} up to the tier's "
             "length (5 quick, 6 thorough) and ALL their chunkings, plus empty chunks; dates: grid of integer seconds x fractions x offsets "
             "-14h..+14h in 15-minute steps, plus boundary years, carries, negative times, non-minute offsets; "
             "non-trivial = more than one path / a LF present / non-zero fraction or offset"),
}

SEGS = ["a", "b", "ab"]
POOL = ["", "a", "b", "ab", "a/b", "a/a", "b/a", "a/ab", "ab/a", "a/b/a", "a/b/ab", "a/", "a//b", "./a", "a/.", "a/./b",
        "/a", "/", "/a/b", ".", "..", "../a", "a/..", "a-b", "a.b", "A", "a/b/", ".a", "..a", "a b"]


def _paths(segs, depth):
    out = []
    for n in range(1, depth + 1):
        for t in itertools.product(segs, repeat=n):
            out.append("/".join(t))
    return out


def _compositions(s):
    """all ways to cut bytes s into non-empty consecutive chunks"""
    n = len(s)
    if n == 0:
        yield []
        return
    for mask in range(1 << (n - 1)):
        out, start = [], 0
        for i in range(n - 1):
            if mask >> i & 1:
                out.append(s[start:i + 1])
                start = i + 1
        out.append(s[start:])
        yield out


def _date(t, off):
    return {"kind": "date", "t": float(t).hex(), "off": off}


def corpus():
    out = []
    # witnesses of the repaired F-C47a/b/c and of the remaining guard
    for t, off in [(10.0, -12600), (-1.5, 0), (-1.5, 3600), (1.9999999999, 0), (-0.0000000001, 0),
                   (10.0, 30), (10.0, -90), (10.0, 59), (10.0, 360000), (10.0, -359940), (0.0, None),
                   (1e9 + 0.123456789, 19800), (253402300799.0, 0), (-62167219200.0, 0),
                   (253402300799.5, 0), (-62167219200.0 + 0.25, 0), (951782400.0, 0), (951868800.0 - 1, 0),
                   (4107542400.0 - 1, 0), (10.0, 2 ** 31 - 1), (10.0, -2 ** 31), (10.0, 2 ** 40)]:
        out.append(_date(t, off))
    for s in ["Mon 1970-01-01 00:00:00.5 +0000", "Xon 1970-01-01 00:00:00.5 +0000", "Mon 1970-02-30 00:00:00.5 +0000",
              "Mon 1970-01-01 00:00:00. +0000", "Mon 1970-01-01 00:00:00.5 0", "Mon 1970-01-01 00:00:00.5 +00:00",
              "Mon 1970-01-01 00:00:00.5  +0000", "Mon 1970-01-01 00:00:00.5 +0000 ", "Mon 1970-01-01 24:00:00.5 +0000",
              "Mon 1970-01-01 00:00:00.5 -0090", "Mon 1970-01-01 00:00:00.5 +99999999999", "Mon 1970-01-01 00:00:00",
              "Mon", "Mon ", "", "Mon.1970", "Tue 1970-01-01 00:00:00.0 +0000", "Mon 1970-01-01 00:00:00.5 ",
              "Mon 1970-01-01 00:00:00.5", "Sun 2000-02-29 23:59:59.125 -0330", "Sun 1900-02-29 00:00:00.5 +0000",
              "Sun 2100-02-29 00:00:00.5 +0000", "Sun 2004-02-29 00:00:00.5 +0000", "Sun 1970-13-01 00:00:00.5 +0000",
              "Sun 1970-00-10 00:00:00.5 +0000", "Sun 1970-04-31 00:00:00.5 +0000", "Sun 1970-01-00 00:00:00.5 +0000",
              "Sun 1970-01-01 00:60:00.5 +0000", "Sun 1970-01-01 00:00:00.5 -0000", "Sun 1970-01-01 00:00:00.5 +1",
              "Sun 1970-01-01 00:00:00.5 -", "Sun 1970-01-01 00:00:00.5 +", "Sun 1970-01-01 00:00:00.x +0000",
              "Sun 1970-01-01 00:00:00.12 +0000", "mon 1970-01-01 00:00:00.5 +0000", "Sun 1970/01/01 00:00:00.5 +0000",
              "Sun 1970-01-01 00:00:00.5 +0159", "Sun 1970-01-01 00:00:00.5 -0159", "Sun 1970-01-01 00:00:00.5 +12345"]:
        out.append({"kind": "unpack", "s": s})
    out.append({"kind": "minsel", "ps": ["a", "a/b", "ab", "b/c", "b"]})
    out.append({"kind": "minsel", "ps": ["a/", "a"]})
    out.append({"kind": "minsel", "ps": ["a-b", "a/b", "a"]})
    out.append({"kind": "minsel", "ps": ["..", "../a", "."]})
    out.append({"kind": "lines", "cs": [b"a", b"", b"b\nc\n"]})
    out.append({"kind": "lines", "cs": [b"", b"\n", b""]})
    return out


def cases(rng, tier):
    quick = tier == "quick"
    # ---- is_inside: all pairs over the pool
    pool = POOL if not quick else POOL[:24]
    for d in pool:
        for f in pool:
            yield {"kind": "inside", "d": d, "f": f}
    p39 = _paths(SEGS, 3)
    p6 = _paths(["a", "b"], 2)
    # ---- minimum_path_selection
    for mask in range(1 << len(p6)):
        yield {"kind": "minsel", "ps": [p for i, p in enumerate(p6) if mask >> i & 1]}
    pairs = list(itertools.combinations(p39, 2))
    if quick:
        pairs = rng.sample(pairs, 250)
    for a, c in pairs:
        ps = [a, c]
        rng.shuffle(ps)
        yield {"kind": "minsel", "ps": ps}
    for _ in range(300 if quick else 2000):
        src = p39 if rng.random() < 0.6 else p39[:12] + POOL
        ps = [rng.choice(src) for _ in range(rng.randint(2, 9))]
        yield {"kind": "minsel", "ps": ps}
    # ---- is_inside_any
    for _ in range(150 if quick else 1000):
        src = p39[:12] + POOL
        yield {"kind": "inside_any", "ds": [rng.choice(src) for _ in range(rng.randint(0, 4))], "f": rng.choice(src)}
    # ---- splitpath / joinpath / pathjoin
    for p in POOL + p39 + ["a/../b", "a/b/..", "a\\b", "a/ b", "//", "a///", "./", "/.", ".//a", "a/./", "x" * 20]:
        yield {"kind": "splitpath", "p": p}
    segpool = ["a", "b", "ab", ".", "..", "", "/a", "a/", "a/b", "/", ".a", "b/"]
    for n in range(0, 3):
        for t in itertools.product(segpool, repeat=n):
            yield {"kind": "joinpath", "ps": list(t)}
            if n:
                yield {"kind": "pathjoin", "ps": list(t)}
    for _ in range(100 if quick else 800):
        n = rng.randint(3, 5)
        t = [rng.choice(segpool if rng.random() < 0.3 else SEGS) for _ in range(n)]
        yield {"kind": "joinpath", "ps": t}
        yield {"kind": "pathjoin", "ps": t}
    # ---- lines: all strings over {x, LF} up to maxlen and ALL their chunkings
    maxlen = 5 if quick else 6
    for n in range(maxlen + 1):
        for t in itertools.product(b"x\n", repeat=n):
            s = bytes(t)
            for cs in _compositions(s):
                yield {"kind": "lines", "cs": cs}
    for _ in range(300 if quick else 3000):
        n = rng.randint(0, 12)
        s = bytes(rng.choice(b"xy\n\n\r") for _ in range(n))
        cs = rng.choice(list(_compositions(s))) if n <= 10 else [s[:4], s[4:9], s[9:]]
        cs = list(cs)
        for _ in range(rng.randint(0, 3)):      # sprinkle empty chunks
            cs.insert(rng.randint(0, len(cs)), b"")
        yield {"kind": "lines", "cs": cs}
    # ---- dates: grid
    secs_grid = [0, 1, 59, 86399, 86400, 951782399, 951782400, 1000000000, 1700000000, 2 ** 31 - 1, 2 ** 31,
                 4102444800, -1, -2, -86400, -86401, -2208988800, 2 ** 22, 2 ** 23 - 1, 2 ** 23, 10 ** 10, 10 ** 11,
                 -62167219200 + 14 * 3600, 253402300799 - 14 * 3600 - 1]
    fracs = [0.0, 0.5, 0.25, 0.125, 0.000000001, 0.999999999, 0.9999999995, 0.9999999994, 0.1, 0.123456789, 1 / 3.0]
    offs = list(range(-14 * 3600, 14 * 3600 + 1, 900))
    if quick:
        for s in secs_grid:
            for fr in fracs:
                yield _date(s + fr, rng.choice(offs))
        for off in offs:
            yield _date(rng.choice(secs_grid[:18]) + rng.choice(fracs), off)
    else:
        for s in secs_grid:
            for fr in fracs:
                for off in offs[::8] + [None]:
                    yield _date(s + fr, off)
    for _ in range(400 if quick else 4000):
        r = rng.random()
        if r < 0.5:
            t = rng.uniform(-3e9, 5e9)
        elif r < 0.7:
            t = rng.uniform(-1e4, 1e4)
        elif r < 0.85:
            t = float(rng.randint(-10 ** 10, 2 * 10 ** 11)) + rng.choice(fracs)
        else:
            t = rng.randint(-10 ** 6, 10 ** 6) + rng.randint(0, 10 ** 9) / 1e9
        r = rng.random()
        if r < 0.7:
            off = rng.choice(offs)
        elif r < 0.8:
            off = 60 * rng.randint(-6000, 6000)
        elif r < 0.9:
            off = rng.randint(-50000, 50000)         # not whole minutes: lossy, model must agree
        else:
            off = rng.choice([None, 0, 359940, -359940, 360000, 3600 * 1000])
        yield _date(t, off)
    # ---- unpack on strings built from parts (canonical field widths only: chrono's leniency is not modelled)
    wds = ["Mon", "Tue", "Wed", "Thu", "Fri", "Sat", "Sun", "Xyz", "mon", ""]
    frs = [".5", ".25", ".125", ".0", ".000000000", ".001953125", ".75", ".999999999", ".000000001", ".123456789", ".1", "."]
    ofs = ["+0000", "-0000", "+0100", "-0330", "+0530", "+1400", "-1200", "+0159", "-0061", "0", "+1", "-5", "+10000",
           "+123456", "", "+", "-", "0x10", "+01:00", " +0100"]
    for _ in range(300 if quick else 3000):
        y = rng.choice([0, 1, 1600, 1900, 1969, 1970, 2000, 2004, 2023, 2100, 2400, 9999, rng.randint(0, 9999)])
        mo = rng.choice([1, 2, 2, 3, 4, 6, 9, 11, 12, rng.randint(0, 13)])
        d = rng.choice([1, 28, 29, 30, 31, rng.randint(0, 32)])
        hh = rng.choice([0, 12, 23, rng.randint(0, 24)])
        mi = rng.choice([0, 30, 59, rng.randint(0, 60)])
        ss = rng.choice([0, 30, 59, rng.randint(0, 59)])
        small = rng.random() < 0.4
        if small:       # |timestamp| < 2^22 s: any 9-digit fraction survives the f64 addition
            y, mo, d = 1970, 1, rng.choice([1, 2, 15, 28, rng.randint(0, 28)])
            fr, of = rng.choice(frs), rng.choice(ofs[:9] if rng.random() < 0.8 else ofs[:12] + ofs[14:])
        else:           # dyadic fractions only (exact in f64 next to any timestamp)
            fr, of = rng.choice(frs[:7] + ["."]), rng.choice(ofs[:9] if rng.random() < 0.7 else ofs)
        s = "%s %04d-%02d-%02d %02d:%02d:%02d%s %s" % (rng.choice(wds[:7] if rng.random() < 0.9 else wds),
                                                      y, mo, d, hh, mi, ss, fr, of)
        r = rng.random()
        if r < 0.1 and len(s) > 2:                 # structural damage
            i = rng.randrange(len(s))
            if s[i] in ".:-":                       # dropping digits/spaces would test chrono's leniency, not time.rs
                s = s[:i] + s[i + 1:]
        elif r < 0.15:
            i = rng.randrange(len(s))
            if not s[i].isdigit() and not (s[i] == " " and i < 4):
                s = s[:i] + rng.choice("x:/") + s[i + 1:]
        yield {"kind": "unpack", "s": s}


# ---------------------------------------------------------------- implementation driver
def _frac9(x):
    """environment: f64 -> (floor, 9-digit rounded fraction); fraction may be 10^9"""
    fl = math.floor(x)
    txt = "%.9f" % (x - fl)
    return int(fl), int(txt.replace(".", ""))


def _norm(x):
    fl, f9 = _frac9(x)
    if f9 == 10 ** 9:
        fl, f9 = fl + 1, 0
    return [fl, f9]


def _unpack_obs(s):
    from breezy import osutils
    try:
        t2, off2 = osutils.unpack_highres_date(s)
    except ValueError:
        return Err("ValueError"), None
    if t2 != t2 or t2 in (float("inf"), float("-inf")):
        return Err("NonFinite"), None
    return _norm(t2) + [off2], t2


def impl(inp):
    from breezy import osutils
    k = inp["kind"]
    if k == "inside":
        return osutils.is_inside(inp["d"], inp["f"])
    if k == "inside_any":
        return [osutils.is_inside_any(list(inp["ds"]), inp["f"]),
                osutils.is_inside_or_parent_of_any(list(inp["ds"]), inp["f"])]
    if k == "minsel":
        return sorted(x.encode() for x in osutils.minimum_path_selection(list(inp["ps"])))
    if k == "splitpath":
        try:
            segs = osutils.splitpath(inp["p"])
        except ValueError:
            return Err("ValueError")
        try:
            back = osutils.joinpath(segs)
        except ValueError:
            back = Err("ValueError")
        return [segs, back]
    if k == "joinpath":
        try:
            p = osutils.joinpath(list(inp["ps"]))
        except ValueError:
            return Err("ValueError")
        try:
            back = osutils.splitpath(p)
        except ValueError:
            back = Err("ValueError")
        return [p, back]
    if k == "pathjoin":
        return osutils.pathjoin(*inp["ps"])
    if k == "lines":
        cs = [bytes(c) for c in inp["cs"]]
        return [osutils.chunks_to_lines(cs), osutils.split_lines(b"".join(cs))]
    if k == "date":
        t = float.fromhex(inp["t"])
        if inp["off"] is None:
            s = osutils.format_highres_date(t)
        else:
            s = osutils.format_highres_date(t, inp["off"])
        o, t2 = _unpack_obs(s)
        return {"s": s, "u": o, "t2": None if t2 is None else t2.hex()}
    if k == "unpack":
        return _unpack_obs(inp["s"])[0]
    raise ValueError(k)


def impl_obs(inp, obs):
    if inp["kind"] == "date" and isinstance(obs, dict):
        return [obs["s"], obs["u"]]
    return obs


def _bl(items):
    return coq_list([coq_bytes(x) for x in items])


def model_term(inp):
    k = inp["kind"]
    if k == "inside":
        return f"run_inside {coq_bytes(inp['d'])} {coq_bytes(inp['f'])}"
    if k == "inside_any":
        return f"run_inside_any {_bl(inp['ds'])} {coq_bytes(inp['f'])}"
    if k == "minsel":
        return f"run_minsel {_bl(inp['ps'])}"
    if k == "splitpath":
        return f"run_splitpath {coq_bytes(inp['p'])}"
    if k == "joinpath":
        return f"run_joinpath {_bl(inp['ps'])}"
    if k == "pathjoin":
        return f"run_pathjoin {_bl(inp['ps'])}"
    if k == "lines":
        return f"run_lines {_bl([bytes(c) for c in inp['cs']])}"
    if k == "date":
        secs, f9 = _frac9(float.fromhex(inp["t"]))
        return f"run_date {coq_Z(secs)} {coq_Z(f9)} {coq_option(inp['off'], coq_Z)}"
    if k == "unpack":
        return f"run_unpack {coq_bytes(inp['s'])}"
    raise ValueError(k)


# ---------------------------------------------------------------- the property itself, on the implementation
def _normalised(p):
    return p == "" or all(s not in ("", ".", "..") for s in p.split("/"))


def _ref_inside(d, f):
    """the documented containment on normalised relative paths"""
    return d == f or d == "" or f.startswith(d + "/")


def _clamp(off):
    return 0 if off is None else max(-2 ** 31, min(2 ** 31 - 1, off))


def date_in_range(t, off):
    """'in range' for the round trip: a whole-minute i32 offset, local time within years 0..9999"""
    o = _clamp(off)
    if off is not None and off != o:
        return False
    return o % 60 == 0 and -62167219200 + 10 <= t + o <= 253402300799 - 10


def oracle(inp, obs):
    if isinstance(obs, Err) and str(obs).startswith("DRIVER:"):
        return "driver error " + str(obs)
    from breezy import osutils
    k = inp["kind"]
    if k == "inside":
        d, f = inp["d"], inp["f"]
        if _normalised(d) and _normalised(f) and obs != _ref_inside(d, f):
            return f"is_inside({d!r}, {f!r}) = {obs} but containment says {_ref_inside(d, f)}"
        return None
    if k == "inside_any":
        want = any(osutils.is_inside(d, inp["f"]) for d in inp["ds"])
        if obs[0] != want:
            return f"is_inside_any({inp['ds']!r}, {inp['f']!r}) = {obs[0]} but some/none is_inside says {want}"
        want2 = any(osutils.is_inside(d, inp["f"]) or osutils.is_inside(inp["f"], d) for d in inp["ds"])
        if obs[1] != want2:
            return f"is_inside_or_parent_of_any({inp['ds']!r}, {inp['f']!r}) = {obs[1]}, expected {want2}"
        return None
    if k == "minsel":
        ps = list(inp["ps"])
        sel = [x.decode() for x in obs]
        for s in sel:
            if s not in ps:
                return f"selected {s!r} is not an input path (input {ps!r})"
        for p in ps:
            n = sum(1 for s in sel if osutils.is_inside(s, p))
            if n != 1:
                return f"input path {p!r} lies inside {n} selected paths (selection {sel!r} of {ps!r})"
        for s in sel:
            for t in sel:
                if s != t and osutils.is_inside(s, t):
                    return f"selected {t!r} lies inside selected {s!r} (input {ps!r})"
        return None
    if k == "splitpath":
        p = inp["p"]
        if _normalised(p):
            if isinstance(obs, Err) or obs[1] != p:
                return f"joinpath(splitpath({p!r})) = {obs!r}, not the normalised path itself"
        return None
    if k == "joinpath":
        ps = list(inp["ps"])
        if all(s not in ("", ".", "..") and "/" not in s for s in ps):
            if isinstance(obs, Err) or obs[1] != ps:
                return f"splitpath(joinpath({ps!r})) = {obs!r}, not the segments"
        return None
    if k == "pathjoin":
        ps = list(inp["ps"])
        if all(s not in ("", "..") and "/" not in s for s in ps) and obs != "/".join(ps):
            return f"pathjoin{tuple(ps)!r} = {obs!r}"
        return None
    if k == "lines":
        cs = [bytes(c) for c in inp["cs"]]
        text = b"".join(cs)
        by_chunks, by_text = obs
        if b"".join(by_text) != text:
            return f"concatenating split_lines({text!r}) gives {b''.join(by_text)!r}"
        for i, l in enumerate(by_text):
            if not l:
                return f"split_lines({text!r}) contains an empty line"
            if b"\n" in l[:-1]:
                return f"split_lines({text!r}): line {l!r} contains an inner LF"
            if i < len(by_text) - 1 and not l.endswith(b"\n"):
                return f"split_lines({text!r}): non-final line {l!r} does not end in LF"
        if by_chunks != by_text:
            return f"chunks_to_lines({cs!r}) = {by_chunks!r} differs from split_lines of the concatenation {by_text!r}"
        return None
    if k == "date":
        t = float.fromhex(inp["t"])
        off = inp["off"]
        if not date_in_range(t, off):
            return None
        if isinstance(obs, Err) or isinstance(obs["u"], Err):
            return f"unpack_highres_date(format_highres_date({t!r}, {off!r})) failed: {obs!r}"
        t2 = float.fromhex(obs["t2"])
        off2 = obs["u"][2]
        if off2 != _clamp(off):
            return f"offset {off!r} came back as {off2!r} via {obs['s']!r}"
        exact = abs(t) >= 2 ** 23
        if (exact and t2 != t) or abs(t2 - t) > 5e-10 + math.ulp(t):
            return f"timestamp {t!r} came back as {t2!r} via {obs['s']!r}"
        return None
    return None


def finding_matches(fid, inp, obs, why):
    return False


def nontrivial(inp, obs):
    k = inp["kind"]
    if k == "minsel":
        return len(set(inp["ps"])) > 1
    if k == "lines":
        return any(b"\n" in bytes(c) for c in inp["cs"])
    if k == "date":
        t = float.fromhex(inp["t"])
        return bool(inp["off"]) or t != math.floor(t)
    if k == "unpack":
        return not isinstance(obs, Err)
    return True


def distribution(inputs, observations):
    d = {"kinds": {}, "minsel_sizes": {}, "minsel_selected": {}, "lines_chunks": {}, "date": {}, "unpack": {}, "errors": 0}
    for i, o in zip(inputs, observations):
        k = i["kind"]
        d["kinds"][k] = d["kinds"].get(k, 0) + 1
        if isinstance(o, Err):
            d["errors"] += 1
        if k == "minsel":
            n = str(len(set(i["ps"])))
            d["minsel_sizes"][n] = d["minsel_sizes"].get(n, 0) + 1
            if not isinstance(o, Err):
                m = str(len(o))
                d["minsel_selected"][m] = d["minsel_selected"].get(m, 0) + 1
        elif k == "lines":
            n = str(min(len(i["cs"]), 8))
            d["lines_chunks"][n] = d["lines_chunks"].get(n, 0) + 1
        elif k == "date":
            t = float.fromhex(i["t"])
            off = i["off"]
            key = ("in_range" if date_in_range(t, off) else "out_of_range")
            d["date"][key] = d["date"].get(key, 0) + 1
            if t < 0:
                d["date"]["negative_t"] = d["date"].get("negative_t", 0) + 1
            if off is not None and off < 0:
                d["date"]["negative_offset"] = d["date"].get("negative_offset", 0) + 1
            if _frac9(t)[1] == 10 ** 9:
                d["date"]["carry"] = d["date"].get("carry", 0) + 1
        elif k == "unpack":
            key = "error" if isinstance(o, Err) else "ok"
            d["unpack"][key] = d["unpack"].get(key, 0) + 1
    return d


def shrink(inp, fails):
    k = inp["kind"]
    if k in ("minsel", "lines"):
        key = "ps" if k == "minsel" else "cs"
        xs = list(inp[key])
        changed = True
        while changed and len(xs) > 1:
            changed = False
            for i in range(len(xs)):
                cand = dict(inp)
                cand[key] = xs[:i] + xs[i + 1:]
                if fails(cand):
                    xs, changed = cand[key], True
                    break
        out = dict(inp)
        out[key] = xs
        return out
    return inp
