"""C28 -- reentrant locking (tie T for CountedLock/LockableFiles: programs regenerated from the
source on every run; tie H for PackRepository)."""
import itertools
import os

from vlib import Tag, Err, coq_list
import py2coq

PROP = "C28"
COQ = {
    "property_file": "Properties/C28.v",
    "imports": "From BV Require Import Lib.PyImp Model.ReentrantRun.",
}
META = {
    "level": "proof",
    "title": "Reentrant locking acquires and releases the physical lock exactly once",
    "technique": "Coq theorems over programs regenerated from counted_lock.py / lockable_files.py by py2coq (deep embedding + interpreter), hand model for PackRepository, exhaustive call-sequence correspondence",
    "level_text": ("CountedLock and LockableFiles lock_read/lock_write/unlock are translated on every run into a small imperative "
                   "language whose interpreter is defined in Coq; for ANY call sequence and ANY behaviour of the underlying lock "
                   "(including failures) the representation invariant holds, and with a non-failing lock acquisitions minus releases "
                   "is 1 exactly while the count is positive; refusals (write after read, over-unlock) leave the state unchanged; "
                   "re-entrant lock_write validates the token without re-acquiring. PackRepository's counters are a hand model with the "
                   "same theorems, tied by exhaustive call sequences on a real 2a repository. Partial: BzrBranch/WorkingTree wrappers "
                   "are exercised only through the correspondence run (real objects), not modelled."),
    "level_note": ("Trusted: Coq kernel; py2coq class-mode translator + the interpreter Lib/PyImp.v as the meaning of the Python subset "
                   "(validated on every run by running the generated programs against the real classes on all call sequences up to length 6 "
                   "with scripted lock failures); abstractions named in the evidence (self._transaction as a 3-valued field; "
                   "lock.cant_unlock_not_held raises LockNotHeld, i.e. -Dunlock off)."),
    "design_ref": "DESIGN.md §5 C28",
    "trusted_base": ["tools/py2coq.py class mode + coq/Lib/PyImp.v interpreter",
                     "abstraction: LockableFiles._transaction modelled as field _txn in {None,'r','w'}; get_transaction().writeable() == (_txn != 'r')",
                     "hand model of PackRepository lock counting (write groups not modelled)"],
    "assumptions": ["exception matching in @only_raises is by class name (the scripted failures use classes without subclass relations)", "debug flag 'unlock' is off (cant_unlock_not_held raises)", "the real lock's methods either return or raise (no re-entrancy into the wrapper)"],
    "rule": "all sequences over {lock_read, lock_write(None), lock_write(tok), unlock} up to the tier's length, with scripted failures of the real lock; non-trivial = at least one successful acquisition",
}

HEADER = ("From Coq Require Import ZArith List String.\nImport ListNotations.\nOpen Scope string_scope.\n"
          "From BV Require Import Lib.PyImp.")
CL_SPEC = dict(classname="CountedLock", collab="_real_lock", prefix="cl",
               fields=["_lock_mode", "_lock_count", "_token"], exceptions=["ReadOnlyError", "LockNotHeld"],
               methods={"lock_read": [], "lock_write": ["token"], "unlock": []})
LF_SPEC = dict(classname="LockableFiles", collab="_lock", prefix="lf",
               fields=["_lock_mode", "_lock_count", "_token_from_lock", "_txn"],
               exceptions=["ReadOnlyError", "ValueError"],
               methods={"lock_read": [], "lock_write": ["token"], "unlock": []},
               exp_map={"self.get_transaction().writeable()": '(ENe (EField "_txn") (EStr "r"))'},
               stmt_map={"self._set_write_transaction()": '(SAssign "_txn" (EStr "w"))',
                         "self._set_read_transaction()": '(SAssign "_txn" (EStr "r"))',
                         "self._finish_transaction()": '(SAssign "_txn" ENone)',
                         "return lock.cant_unlock_not_held(self)": '(SRaise "LockNotHeld")',
                         "raise ValueError(f'invalid lock mode {self._lock_mode!r}')": '(SRaise "ValueError")'})


def translate(repo, coqdir):
    a = py2coq.translate_class(repo, "breezy/counted_lock.py", CL_SPEC, os.path.join(coqdir, "Gen", "CountedLock.v"), HEADER)
    b = py2coq.translate_class(repo, "breezy/bzr/lockable_files.py", LF_SPEC, os.path.join(coqdir, "Gen", "LockableFiles.v"), HEADER)
    return {"files": a["files"] + b["files"], "functions": {**a["functions"], **b["functions"]},
            "abstractions": b["abstractions"]}


OPS = ["r", "w", "wt", "u"]      # lock_read, lock_write(), lock_write(token=5), unlock
EXC = ["LockContention", "TokenLockingNotSupported", "LockBroken", "LockNotHeld"]   # no subclass relations among them
_state = {}


def setup(scratch):
    _state["dir"] = scratch
    _state["n"] = 0


def cases(rng, tier):
    maxlen = 5 if tier == "quick" else 7
    for target in ("cl", "lf"):
        for n in range(1, maxlen + 1):
            for ops in itertools.product(OPS, repeat=n):
                yield {"target": target, "ops": list(ops), "env": [["ok", 7]]}
        # scripted failures of the real lock
        for _ in range(400 if tier == "quick" else 6000):
            n = rng.randint(2, 12)
            ops = [rng.choice(OPS) for _ in range(n)]
            env = []
            for _ in range(rng.randint(0, 6)):
                env.append(["raise", rng.choice(EXC)] if rng.random() < 0.4 else ["ok", rng.choice([None, 3, 7])])
            yield {"target": target, "ops": ops, "env": env}
    plen = 5 if tier == "quick" else 7
    for n in range(1, plen + 1):
        for ops in itertools.product(["r", "w", "u"], repeat=n):
            yield {"target": "pr", "ops": list(ops), "env": []}
    for kind in ("branch", "wt"):
        for n in range(1, 5 if tier == "quick" else 6):
            for ops in itertools.product(["r", "w", "u"], repeat=n):
                yield {"target": kind, "ops": list(ops), "env": []}


class _Fake:
    """Scripted real lock: records calls, replies from a script (default: ok, None)."""

    def __init__(self, script):
        self.script = list(script)
        self.events = []

    def _reply(self, name, args):
        from breezy import errors
        self.events.append([Tag(name)] + [_val(a) for a in args])
        kind, v = self.script.pop(0) if self.script else ("ok", None)
        if kind == "raise":
            cls = {"LockContention": errors.LockContention, "TokenLockingNotSupported": errors.TokenLockingNotSupported,
                   "LockBroken": errors.LockBroken, "LockNotHeld": errors.LockNotHeld}[v]
            raise cls("x")
        return v

    def lock_read(self):
        return self._reply("lock_read", [])

    def lock_write(self, token=None):
        return self._reply("lock_write", [token])

    def unlock(self):
        return self._reply("unlock", [])

    def validate_token(self, token):
        return self._reply("validate_token", [token])


def _val(v):
    if v is None:
        return None
    if isinstance(v, int):
        return [Tag("tok"), v]
    if isinstance(v, str):
        return Tag(v)
    return v


def _mode(v):
    return None if v is None else Tag(v)


def _run_wrapper(obj, fake, ops):
    per = []
    for o in ops:
        try:
            if o == "r":
                r = obj.lock_read()
            elif o == "w":
                r = obj.lock_write()
            elif o == "wt":
                r = obj.lock_write(token=5)
            else:
                r = obj.unlock()
            out = [Tag("ret"), _val(r)]
        except Exception as e:
            out = Err(type(e).__name__)
        per.append([out, _mode(obj._lock_mode), obj._lock_count])
    return [per, fake.events]


def impl(inp):
    import breezy
    import breezy.bzr  # noqa
    ops = inp["ops"]
    t = inp["target"]
    if t == "cl":
        from breezy.counted_lock import CountedLock
        fake = _Fake(inp["env"])
        return _run_wrapper(CountedLock(fake), fake, ops)
    if t == "lf":
        from breezy.bzr.lockable_files import LockableFiles
        from dromedary.memory import MemoryTransport
        fake = _Fake(inp["env"])
        lf = LockableFiles(MemoryTransport(), "lock", lambda *a, **k: fake)
        return _run_wrapper(lf, fake, ops)
    from breezy import controldir
    _state["n"] += 1
    path = os.path.join(_state["dir"], "r%d" % _state["n"])
    fmt = controldir.format_registry.make_controldir("2a")
    if t == "pr":
        cd = controldir.ControlDir.create(path, format=fmt)
        repo = cd.create_repository()
        cf = repo.control_files
        events = []
        real = cf._lock
        # record the physical control-files lock operations with a proxy
        class Proxy:
            def __getattr__(self, n):
                a = getattr(real, n)
                if n in ("lock_read", "lock_write", "unlock"):
                    def w(*x, **k):
                        events.append(Tag(n))
                        return a(*x, **k)
                    return w
                return a
        cf._lock = Proxy()
        per = []
        for o in ops:
            try:
                {"r": repo.lock_read, "w": repo.lock_write, "u": repo.unlock}[o]()
                out = Tag("ok")
            except Exception as e:
                out = Err(type(e).__name__)
            per.append([out, bool(repo.is_locked()), repo._write_lock_count, cf._lock_count])
        seen = list(events)
        while repo.is_locked():
            repo.unlock()
        return [per, seen]
    # branch / working tree: observe only the property (oracle), no model
    wt = controldir.ControlDir.create_standalone_workingtree(path, format=fmt)
    obj = wt.branch if t == "branch" else wt
    obj = obj.controldir.open_branch() if t == "branch" else obj.controldir.open_workingtree()
    cf = obj.control_files if t == "branch" else obj._control_files
    per = []
    for o in ops:
        try:
            {"r": obj.lock_read, "w": obj.lock_write, "u": obj.unlock}[o]()
            out = Tag("ok")
        except Exception as e:
            out = Err(type(e).__name__)
        phys = cf._lock.peek() is not None
        per.append([out, bool(obj.is_locked()), cf._lock_count, phys, _mode(cf._lock_mode)])
    while obj.is_locked():
        obj.unlock()
    return [per]


def _coq_val(v):
    if v is None:
        return "VNone"
    return f"(VTok {int(v)})"


def model_term(inp):
    t = inp["target"]
    if t in ("branch", "wt"):
        return None
    ops = coq_list([{"r": "LockRead", "w": "(LockWrite VNone)", "wt": "(LockWrite (VTok 5))", "u": "Unlock"}[o]
                    for o in inp["ops"]])
    if t == "pr":
        return f"run_pack_repo {ops}"
    env = coq_list([("(RepOk %s)" % _coq_val(v)) if k == "ok" else '(RepRaise "%s")' % v for k, v in inp["env"]])
    return f"{'run_counted_lock' if t == 'cl' else 'run_lockable_files'} {ops} {env}"


def oracle(inp, obs):
    """Property on the implementation: with a non-failing real lock, the physical lock is
    acquired at the first lock and released at the matching last unlock; refusals change nothing."""
    if isinstance(obs, Err):
        return "driver error " + str(obs)
    t = inp["target"]
    if t in ("cl", "lf"):
        per, events = obs
        # a lock request that is refused or fails must leave the lock state unchanged
        pm, pc = None, 0
        for o, (out, m, c) in zip(inp["ops"], per):
            if isinstance(out, Err) and o != "u" and (m, c) != (pm, pc):
                return f"{o} raised {out} but changed the lock state from {(pm, pc)} to {(m, c)}"
            pm, pc = m, c
        if any(k == "raise" for k, _ in inp["env"]):
            return None      # the remaining failure behaviour is checked by the model comparison only
        depth, mode, bal, ei = 0, None, 0, 0
        for o, (out, m, c) in zip(inp["ops"], per):
            ok = not isinstance(out, Err)
            if o in ("r", "w", "wt"):
                if o != "r" and depth > 0 and mode == "r":
                    if ok:
                        return "write lock granted while read-locked"
                elif ok:
                    if depth == 0:
                        mode = "r" if o == "r" else "w"
                    depth += 1
                else:
                    return f"lock call failed unexpectedly: {out}"
            else:
                if depth == 0:
                    if ok:
                        return "unlock without lock was not refused"
                elif ok:
                    depth -= 1
                    if depth == 0:
                        mode = None
                else:
                    return f"unlock failed unexpectedly: {out}"
            if c != depth:
                return f"count {c} differs from nesting depth {depth}"
        acq = sum(1 for e in events if str(e[0]) in ("lock_read", "lock_write"))
        rel = sum(1 for e in events if str(e[0]) == "unlock")
        if acq - rel != (1 if depth > 0 else 0):
            return f"physical acquisitions {acq} - releases {rel} inconsistent with depth {depth}"
        # each acquisition at a 0->1 transition only: count transitions
        trans = 0
        d = 0
        for o, (out, m, c) in zip(inp["ops"], per):
            if c > 0 and d == 0:
                trans += 1
            d = c
        if acq != trans:
            return f"{acq} physical acquisitions for {trans} first-lock transitions"
        return None
    if t == "pr":
        per, events = obs
        depth_r, depth_w = 0, 0
        for o, (out, locked, wlc, cfc) in zip(inp["ops"], per):
            ok = not isinstance(out, Err)
            if o == "w":
                if depth_w == 0 and depth_r > 0:
                    if ok:
                        return "repository write lock granted while read-locked"
                elif ok:
                    depth_w += 1
            elif o == "r":
                if ok:
                    if depth_w > 0:
                        depth_w += 1
                    else:
                        depth_r += 1
            else:
                if depth_w == 0 and depth_r == 0:
                    if ok:
                        return "unlock without lock was not refused"
                elif ok:
                    if depth_w > 0:
                        depth_w -= 1
                    else:
                        depth_r -= 1
            if bool(locked) != (depth_r + depth_w > 0):
                return f"is_locked {locked} but nesting depth {depth_r + depth_w}"
        acq = sum(1 for e in events if str(e) in ("lock_read", "lock_write"))
        rel = sum(1 for e in events if str(e) == "unlock")
        if acq - rel != (1 if depth_r > 0 else 0):
            return f"control-files physical balance {acq - rel} with read depth {depth_r}"
        return None
    (per,) = obs
    depth, mode = 0, None
    for o, (out, locked, cnt, phys, m) in zip(inp["ops"], per):
        ok = not isinstance(out, Err)
        if o in ("r", "w"):
            if o == "w" and depth > 0 and mode == "r":
                if ok:
                    return "write lock granted while read-locked"
            elif ok:
                if depth == 0:
                    mode = o
                depth += 1
        else:
            if depth == 0:
                if ok:
                    return "unlock without lock was not refused"
            elif ok:
                depth -= 1
                if depth == 0:
                    mode = None
        if bool(locked) != (depth > 0):
            return f"is_locked {locked} but nesting depth {depth}"
        if phys != (depth > 0 and mode == "w"):
            return f"physical lock {'held' if phys else 'free'} with depth {depth} mode {mode}"
    return None


def nontrivial(inp, obs):
    return any(o != "u" for o in inp["ops"])


def distribution(inputs, observations):
    d = {}
    for i in inputs:
        k = f"{i['target']}:len{min(len(i['ops']), 8)}:{'fail' if any(k == 'raise' for k, _ in i['env']) else 'ok'}"
        d[k] = d.get(k, 0) + 1
    return d


def search(hints, rng):
    for inp in cases(rng, "quick"):
        if inp["target"] not in ("cl", "lf"):
            continue
        o = impl(inp)
        v = oracle(inp, o)
        if v:
            return inp, o, v
    return None
