"""C04 -- Pack repositories are crash-atomic (tie H with a trace tie and a crash oracle).

One case = a scenario: a repository format (2a / pack-0.92), base operations that build the
repository, and 1..n traced operations (commit / fetch / pack() / empty write group; repository
level write groups or real working-tree commits).  The traced operations run on the REAL code
through a registered recording TransportDecorator (`verifc04+`): it sees every transport
operation of the operation, including the writes of the compiled NewPack.  After EVERY mutating
transport operation (and every write into an open stream) the directory is copied ("the process
died here"), the copy is re-opened with a plain transport and examined:

  * listing of upload/ packs/ indices/ obsolete_packs/, names listed by pack-names, lock/held,
    all_revision_ids(), branch tip                                -> compared with the model
  * every listed revision readable (revision, inventory, file text), check() clean,
    the revisions are the old or the new set                      -> property oracle
  * leftovers: the lock is broken if held, one more revision is committed and the copy is
    packed: both succeed, the result lists exactly old-or-new + the new revision, check() clean

The projection of the recorded operations onto Model/PackFS.v's abstract operations must equal
the model's program for the scenario, and the abstract state delta after every operation must
equal the model's (so a re-ordering mutation is a disagreement even where it is harmless).
"""
import os
import shutil

from vlib import Tag, Err, coq_nat, coq_list, coq_bool

PROP = "C04"
COQ = {
    "property_file": "Properties/C04.v",
    "imports": "From BV Require Import Lib.Obs Model.PackFS.",
}
META = {
    "level": "proof",
    "title": "Pack repositories are crash-atomic",
    "technique": ("Coq proof over a file-system model of the transport operations of commit / fetch / autopack / pack "
                  "(every crash prefix, every good starting state incl. leftovers, any sequence of operations) + trace tie "
                  "(recorded transport operations of the real code == the model's program) + exhaustive per-operation crash "
                  "snapshots of real 2a and pack-0.92 repositories examined by the property oracle"),
    "level_text": ("proved for the model: every prefix of the transport-operation sequence of commit, commit+autopack, pack() "
                   "and any sequence of them leaves every listed pack complete and lists the old or the new revisions, from "
                   "every good state whatever leftovers it contains; the order of operations inside the model's programs is "
                   "tied to the code by comparing the recorded real trace and every intermediate directory state"),
    "level_note": ("Trusted: Coq kernel, vm_compute, the hand model's correspondence (sampled scenarios, exhaustive crash points "
                   "per scenario), atomicity of a single transport operation, pack content = union of its sources."),
    "design_ref": "DESIGN.md §5 C04",
    "trusted_base": ["hand model coq/Model/PackFS.v of breezy/bzr/pack_repo.py (_commit_write_group, _execute_pack_operations, "
                     "_save_pack_names, _obsolete_packs, _clear_obsolete_packs) and the Packer classes' finish/allocate order",
                     "correspondence harness harness/props/c04.py (verifc04+ recording TransportDecorator, directory snapshots)"],
    "assumptions": ["one transport operation (put_file of pack-names, rename/move, delete, open/close of a stream) is atomic; a "
                    "torn write inside put_file and fsync ordering are not modelled",
                    "a file opened by open_write_stream and not yet closed counts as incomplete (Partial) whatever it contains",
                    "the content of a pack produced by a Packer is the union of its sources' content (checked on every snapshot "
                    "by reading all revisions and check())",
                    "NewPack.finish (compiled, bzrformats) writes the indices, closes the pack and moves it in that order "
                    "(recorded on every run, compared with the model)",
                    "which of several equally large packs autopack combines depends on the ordering of Pack objects: taken "
                    "from the run (hint) and validated against Model/AutoPack.v's planner by revision-count multiset",
                    "whether GCCHKPacker finds a single pack 'already optimally packed' (md5 of the repacked bytes == old "
                    "name) is content dependent (true for a fetched or pack()-made pack, false for an autopack-made one): "
                    "taken from the run, accepted by the model only for 2a with exactly one pack",
                    "a stale lock/held directory after a crash needs break-lock before the next write (modelled; not a "
                    "temporary file in the sense of the property)"],
    "rule": ("scenario families x {2a, pack-0.92} x {repository write groups, working-tree commits}; every mutating transport "
             "operation of every traced operation is a crash point; non-trivial = the traced operations change pack-names"),
}
SHARD = 6

_state = {"registered": False, "dir": None, "templates": {}, "n": 0, "hints": {}, "sources": {}}

# --------------------------------------------------------------------------
# recording transport decorator
# --------------------------------------------------------------------------

_rec = {"on": False, "depth": 0, "events": None, "hook": None}

_MUTATING = ["put_file", "put_bytes", "append_file", "append_bytes",
             "mkdir", "rmdir", "delete", "delete_tree", "rename", "move", "copy", "copy_to", "copy_tree",
             "copy_tree_to_transport", "delete_multi", "move_multi", "copy_multi", "mkdir_multi", "put_file_multi",
             "create_prefix", "symlink", "hardlink"]


def _rel(t, relpath):
    a = t.abspath(relpath)
    i = a.find("/.bzr/")
    return a[i + 6:] if i >= 0 else "?" + a


def _emit(kind, a=None, b=None):
    ev = {"kind": kind, "a": a, "b": b}
    _rec["events"].append(ev)
    if _rec["hook"] is not None:
        _rec["hook"](ev)


class _Stream:
    """The write stream of open_write_stream: every write and the close are crash points."""

    def __init__(self, f, rel):
        self._f, self._rel = f, rel

    def write(self, data):
        r = self._f.write(data)
        if _rec["on"]:
            _emit("swrite", self._rel)
        return r

    def close(self, *a, **k):
        r = self._f.close(*a, **k)
        if _rec["on"]:
            _emit("close", self._rel)
        return r

    def __getattr__(self, n):
        return getattr(self._f, n)


def _register():
    if _state["registered"]:
        return
    import dromedary
    from dromedary.decorator import TransportDecorator

    class RecTransport(TransportDecorator):
        """Records every mutating transport operation; changes no behaviour.  `move` is forwarded to the
        decorated transport's own move (atomic rename on LocalTransport)."""

        @classmethod
        def _get_url_prefix(cls):
            return "verifc04+"

        def local_abspath(self, relpath):
            return self._decorated.local_abspath(relpath)

    def mk(name):
        def f(self, *a, **k):
            if not _rec["on"]:
                if name == "move":
                    return self._decorated.move(*a, **k)
                return getattr(TransportDecorator, name)(self, *a, **k)
            _rec["depth"] += 1
            try:
                if name == "move":
                    r = self._decorated.move(*a, **k)
                else:
                    r = getattr(TransportDecorator, name)(self, *a, **k)
            finally:
                _rec["depth"] -= 1
            if _rec["depth"] == 0:
                paths = [_rel(self, x) for x in a[:2] if isinstance(x, str)]
                _emit(name, paths[0] if paths else None, paths[1] if len(paths) > 1 else None)
            return r
        return f

    for n in _MUTATING:
        if hasattr(TransportDecorator, n):
            setattr(RecTransport, n, mk(n))

    def put_bytes_non_atomic(self, relpath, raw, mode=None, create_parent_dir=False, dir_mode=None):
        """A non-atomic put is open(O_TRUNC) followed by write(): on the file system it is (at least) three
        crash points -- truncated, partly written, written.  (TransportDecorator's inherited default would
        silently turn it into an ATOMIC put_file and hide exactly that.)"""
        dec = self._decorated
        if not _rec["on"] or _rec["depth"] > 0:
            return dec.put_bytes_non_atomic(relpath, raw, mode, create_parent_dir, dir_mode)
        rel = _rel(self, relpath)
        stages = [("truncate", b"")]
        if len(raw) > 1:
            stages.append(("partial-write", raw[:len(raw) // 2]))
        stages.append(("put_bytes_non_atomic", raw))
        for kind, data in stages:
            _rec["depth"] += 1
            try:
                dec.put_bytes_non_atomic(relpath, data, mode, create_parent_dir, dir_mode)
            finally:
                _rec["depth"] -= 1
            _emit(kind, rel)

    def put_file_non_atomic(self, relpath, f, mode=None, create_parent_dir=False, dir_mode=None):
        return self.put_bytes_non_atomic(relpath, f.read(), mode, create_parent_dir, dir_mode)

    RecTransport.put_bytes_non_atomic = put_bytes_non_atomic
    RecTransport.put_file_non_atomic = put_file_non_atomic

    def open_write_stream(self, relpath, mode=None):
        _rec["depth"] += 1
        try:
            s = TransportDecorator.open_write_stream(self, relpath, mode)
        finally:
            _rec["depth"] -= 1
        if not _rec["on"]:
            return s
        rel = _rel(self, relpath)
        _emit("open", rel)
        return _Stream(s, rel)
    RecTransport.open_write_stream = open_write_stream

    dromedary.register_transport_proto("verifc04+")
    dromedary.register_transport("verifc04+", RecTransport)
    _state["registered"] = True


# --------------------------------------------------------------------------
# real repository operations
# --------------------------------------------------------------------------

def _revid(n):
    return b"r%03d" % n


def _revno(revid):
    return int(revid[1:])


def _text(n):
    return b"line %d\n" % n


def _commit(repo, revnos):
    """One write group adding the given parentless revisions (root + one file each)."""
    import hashlib
    from bzrformats.inventory import Inventory, InventoryDirectory, InventoryFile
    from breezy.revision import Revision
    with repo.lock_write():
        repo.start_write_group()
        try:
            for n in revnos:
                revid = _revid(n)
                inv = Inventory(root_id=None, revision_id=revid)
                inv.add(InventoryDirectory(file_id=b"root-id", name="", parent_id=None, revision=revid))
                if repo._format.rich_root_data:
                    repo.texts.add_lines((b"root-id", revid), [], [])
                t = _text(n)
                inv.add(InventoryFile(b"f-id", "f", b"root-id", revision=revid,
                                      text_sha1=hashlib.sha1(t).hexdigest().encode(), text_size=len(t)))
                repo.texts.add_lines((b"f-id", revid), [], [t])
                sha = repo.add_inventory(revid, inv, [])
                repo.add_revision(revid, Revision(revid, parent_ids=[], committer="c", message="m", timestamp=0,
                                                  timezone=0, properties={}, inventory_sha1=sha))
        except BaseException:
            repo.abort_write_group()
            raise
        repo.commit_write_group()


def _empty_group(repo):
    with repo.lock_write():
        repo.start_write_group()
        repo.commit_write_group()


def _tree_commit(path, url, n):
    from breezy.workingtree import WorkingTree
    wt = WorkingTree.open(url)
    first = not os.path.exists(os.path.join(path, "f"))
    with open(os.path.join(path, "f"), "wb") as f:
        f.write(_text(n))
    if first:
        wt.add(["f"])
    wt.commit("m", rev_id=_revid(n), timestamp=0, timezone=0, committer="c")


def _source(fmt, revs):
    """A repository holding exactly `revs` (fetch source), cached."""
    from breezy import controldir
    from breezy.repository import Repository
    key = (fmt, tuple(revs))
    p = _state["sources"].get(key)
    if p is None:
        p = os.path.join(_scratch(), "src%d" % _state["n"])
        _state["n"] += 1
        os.makedirs(p)
        controldir.format_registry.make_controldir(fmt).initialize(p).create_repository()
        _commit(Repository.open("file://" + p), revs)
        _state["sources"][key] = p
    return p


def _do_op(path, fmt, mode, op, decorated):
    from breezy.repository import Repository
    url = ("verifc04+file://" if decorated else "file://") + path
    if op[0] == "commit":
        if mode == "tree":
            for n in op[1]:
                _tree_commit(path, url, n)
        else:
            _commit(Repository.open(url), op[1])
    elif op[0] == "fetch":
        src = Repository.open("file://" + _source(fmt, op[1]))
        Repository.open(url).fetch(src)
    elif op[0] == "pack":
        Repository.open(url).pack()
    elif op[0] == "empty":
        _empty_group(Repository.open(url))
    else:
        raise ValueError(op)


# --------------------------------------------------------------------------
# examining a directory as a fresh process would
# --------------------------------------------------------------------------

_DIRS = {"upload": 1, "packs": 2, "indices": 3, "obsolete_packs": 4}
_EXTS = {".pack": 0, ".rix": 1, ".iix": 2, ".tix": 3, ".six": 4, ".cix": 5}


def _listing(path):
    out = {}
    for d in _DIRS:
        p = os.path.join(path, ".bzr/repository", d)
        out[d] = sorted(os.listdir(p)) if os.path.isdir(p) else []
    return out


def _check_clean(repo, nrevs):
    res = repo.check()
    bad = []
    if res.checked_rev_cnt != nrevs:
        bad.append("check() saw %d revisions, not %d" % (res.checked_rev_cnt, nrevs))
    for attr in ("ghosts", "missing_parent_links", "inconsistent_parents", "unreferenced_versions", "_report_items"):
        if getattr(res, attr, None):
            bad.append("check(): %s = %r" % (attr, getattr(res, attr)))
    for attr in ("missing_inventory_sha_cnt", "missing_revision_cnt"):
        if getattr(res, attr, 0):
            bad.append("check(): %s = %r" % (attr, getattr(res, attr)))
    if getattr(res, "revs_with_bad_parents_in_index", None):
        bad.append("check(): bad parents in index")
    return bad


def _examine(path, mode):
    """(names, revnos, problems, tip) of the repository at `path`, opened with a plain transport."""
    from breezy.repository import Repository
    from breezy.branch import Branch
    problems = []
    names, revs, tip = None, None, None
    try:
        repo = Repository.open("file://" + path)
        with repo.lock_read():
            pc = repo._pack_collection
            pc.ensure_loaded()
            names = sorted(pc._names)
            ids = sorted(repo.all_revision_ids())
            revs = [_revno(i) for i in ids]
            for i in ids:
                rev = repo.get_revision(i)
                if rev.revision_id != i:
                    problems.append("get_revision(%r) returned %r" % (i, rev.revision_id))
                tree = repo.revision_tree(i)
                got = [(p, tree.get_file_text(p)) for p, e in tree.iter_entries_by_dir() if e.kind == "file"]
                if got != [("f", _text(_revno(i)))]:
                    problems.append("tree of %r reads %r" % (i, got))
        problems += _check_clean(repo, len(revs))
    except Exception as e:  # noqa: the repository is unusable: that is the observation
        problems.append("unusable: %s: %s" % (type(e).__name__, str(e)[:160]))
    if mode == "tree":
        try:
            last = Branch.open("file://" + path).last_revision()
            tip = None if last == b"null:" else _revno(last)
            if tip is not None and (revs is None or tip not in revs):
                problems.append("branch tip r%03d is not in the repository" % tip)
        except Exception as e:  # noqa
            problems.append("branch unusable: %s: %s" % (type(e).__name__, str(e)[:160]))
    return names, revs, problems, tip


def _followup(path, revs):
    """Leftovers must not make the repository unusable: break a stale lock, commit one more revision,
    pack; the result must list revs + the new revision and be clean."""
    from breezy.repository import Repository
    problems = []
    try:
        held = os.path.join(path, ".bzr/repository/lock/held")
        if os.path.isdir(held):
            repo = Repository.open("file://" + path)
            ld = repo.control_files._lock
            ld.force_break(ld.peek())
        _commit(Repository.open("file://" + path), [999])
        Repository.open("file://" + path).pack()
        repo = Repository.open("file://" + path)
        with repo.lock_read():
            got = sorted(_revno(i) for i in repo.all_revision_ids())
        if got != sorted(revs + [999]):
            problems.append("after one more commit and pack() the repository lists %r, expected %r"
                            % (got, sorted(revs + [999])))
        problems += _check_clean(repo, len(got))
    except Exception as e:  # noqa
        problems.append("follow-up commit/pack failed: %s: %s" % (type(e).__name__, str(e)[:160]))
    return problems


def _snapshot(path, mode, follow=True):
    """Copy the directory as it is NOW, examine the copy, remove it."""
    snap = os.path.join(_scratch(), "snap%d" % _state["n"])
    _state["n"] += 1
    shutil.copytree(path, snap, symlinks=True)
    try:
        raw = _listing(snap)
        lock = os.path.isdir(os.path.join(snap, ".bzr/repository/lock/held"))
        names, revs, problems, tip = _examine(snap, mode)
        if revs is not None and not problems and follow:
            problems += _followup(snap, revs)
        return {"raw": raw, "lock": lock, "names": names, "revs": revs, "problems": problems, "tip": tip}
    finally:
        shutil.rmtree(snap, ignore_errors=True)


# --------------------------------------------------------------------------
# projection of the recorded trace onto the model's operations
# --------------------------------------------------------------------------

class _Ids:
    """Numbers the NewPack objects in creation order: upload/<tmp> -> k, later packs/<md5>.pack -> k."""

    def __init__(self, other=None):
        self.map = dict(other.map) if other else {}
        self.next = other.next if other else 0

    def opened(self, tmp):
        self.map["upload:" + tmp] = self.next
        self.next += 1

    def moved(self, tmp, md5):
        k = self.map.get("upload:" + tmp)
        if k is not None:
            self.map[md5] = k

    def code(self, rel):
        """file code of repository/<dir>/<file> or None."""
        parts = rel.split("/")
        if len(parts) != 3 or parts[0] != "repository" or parts[1] not in _DIRS:
            return None
        d, fn = _DIRS[parts[1]], parts[2]
        if d == 1:
            k, e = self.map.get("upload:" + fn), 0
        else:
            stem, ext = os.path.splitext(fn)
            k, e = self.map.get(stem), _EXTS.get(ext)
        if k is None or e is None:
            return 999999000 + (hash(fn) % 1000)
        return d * 100000 + k * 10 + e


def _note_ids(ids, ev):
    if ev["kind"] == "open" and ev["a"].startswith("repository/upload/"):
        ids.opened(ev["a"].split("/")[2])
    if ev["kind"] in ("move", "rename") and ev["a"] and ev["b"] and \
            ev["a"].startswith("repository/upload/") and ev["b"].startswith("repository/packs/"):
        ids.moved(ev["a"].split("/")[2], os.path.splitext(ev["b"].split("/")[2])[0])


def _project(ids, ev):
    """abstract operation of a recorded event: a list (compared with the model), None = not an operation
    of the model (stream writes, lock directory internals, files outside the repository)."""
    k, a, b = ev["kind"], ev["a"], ev["b"]
    if k == "swrite":
        return None
    if a is None:
        return [Tag("other"), k]
    if k == "rename" and b == "repository/lock/held":
        return [Tag("lock")]
    if k == "rename" and a == "repository/lock/held":
        return [Tag("unlock")]
    if a.startswith("repository/lock/"):
        return None
    if a == "branch/last-revision":
        return [Tag("tip"), ev.get("tip", -1)] if k in ("put_bytes", "put_file") else [Tag("other"), k, a]
    if not a.startswith("repository/"):
        return None
    if a == "repository/pack-names" and k == "put_file":
        return [Tag("names")]
    ca = ids.code(a)
    if ca is None:
        return [Tag("other"), k, a]
    if k == "open":
        return [Tag("open"), ca]
    if k == "close":
        return [Tag("close"), ca]
    if k == "delete":
        return [Tag("delete"), ca]
    if k in ("move", "rename") and b is not None and ids.code(b) is not None:
        return [Tag("move"), ca, ids.code(b)]
    return [Tag("other"), k, a]


def _abstract(ids, snap):
    codes = sorted(ids.code("repository/%s/%s" % (d, f)) for d in _DIRS for f in snap["raw"][d])
    names = sorted(ids.map.get(n, 99999) for n in (snap["names"] or []))
    revs = snap["revs"] if snap["revs"] is not None else []
    return {"codes": codes, "names": names, "lock": snap["lock"], "revs": revs,
            "ok": not snap["problems"] and snap["revs"] is not None,
            "tip": snap["tip"]}


def _state7(before, after):
    b, a = set(before["codes"]), set(after["codes"])
    return [sorted(a - b), sorted(b - a), after["names"], after["lock"], after["revs"], after["ok"], after["tip"]]


def _canonical(steps):
    """os.listdir order (clear of obsolete_packs) and the order of Pack objects (obsolete moves) are
    arbitrary: sort the deletes of one clear run by file, the per-pack groups of one obsolete run by pack."""
    out, i = [], 0
    while i < len(steps):
        op = steps[i][0]
        if str(op[0]) == "delete" and op[1] // 100000 == 4:
            j = i
            while j < len(steps) and str(steps[j][0][0]) == "delete" and steps[j][0][1] // 100000 == 4:
                j += 1
            out += sorted(steps[i:j], key=lambda s: s[0][1])
            i = j
        elif str(op[0]) == "move" and op[2] // 100000 == 4:
            j, groups = i, []
            while j < len(steps) and str(steps[j][0][0]) == "move" and steps[j][0][2] // 100000 == 4:
                if steps[j][0][1] // 100000 == 2 or not groups:
                    groups.append([])
                groups[-1].append(steps[j])
                j += 1
            for g in sorted(groups, key=lambda g: (g[0][0][1] % 100000) // 10):
                out += g
            i = j
        else:
            out.append(steps[i])
            i += 1
    return out


def _run_traced_op(path, fmt, mode, op, ids):
    """Run one operation with a snapshot after every event.  Returns (obs of the operation, hint, problems)."""
    snaps = []
    events = []

    def hook(ev):
        _rec["on"] = False          # the examination itself must not be recorded
        try:
            if ev["kind"] == "put_bytes" and ev["a"] == "branch/last-revision":
                with open(os.path.join(path, ".bzr/branch/last-revision"), "rb") as f:
                    ev["tip"] = _revno(f.read().split()[1])
            # quick tier: the follow-up (one more commit + pack on the copy) only where the abstract state can
            # have changed; stream writes and lock-directory internals are examined without it
            minor = ev["kind"] == "swrite" or (ev["a"] or "").startswith("repository/lock/") or \
                not (ev["a"] or "").startswith(("repository/", "branch/last-revision"))
            snaps.append(_snapshot(path, mode, follow=_state.get("tier") != "quick" or not minor))
        finally:
            _rec["on"] = True

    s0 = _snapshot(path, mode)
    _rec.update(on=True, depth=0, events=events, hook=hook)
    try:
        _do_op(path, fmt, mode, op, True)
    finally:
        _rec.update(on=False, hook=None)
    for ev in events:
        _note_ids(ids, ev)
    problems = [(0, p) for p in s0["problems"]]
    prev = _abstract(ids, s0)
    init = [prev["codes"]] + _state7(prev, prev)
    steps, hint = [], []
    for k, (ev, sn) in enumerate(zip(events, snaps)):
        problems += [(k + 1, p) for p in sn["problems"]]
        cur = _abstract(ids, sn)
        pr = _project(ids, ev)
        if pr is None:
            if _state7(prev, cur) != _state7(prev, prev):
                steps.append([[Tag("unexpected-change"), ev["kind"], ev["a"] or ""]] + _state7(prev, cur))
                prev = cur
            continue
        if str(pr[0]) == "move" and pr[1] // 100000 == 2 and pr[2] // 100000 == 4:
            hint.append((pr[1] % 100000) // 10)
        steps.append([pr] + _state7(prev, cur))
        prev = cur
    return [init, _canonical(steps), True], _op_hint(op, events, hint), problems, len(snaps) + 1


def _run_plain_op(path, fmt, mode, op, ids):
    """Base operation: recorded (for the pack numbering and the autopack hint), not snapshotted."""
    events = []
    _rec.update(on=True, depth=0, events=events, hook=None)
    try:
        _do_op(path, fmt, mode, op, True)
    finally:
        _rec.update(on=False)
    hint = []
    for ev in events:
        _note_ids(ids, ev)
        pr = _project(ids, ev)
        if pr is not None and str(pr[0]) == "move" and pr[1] // 100000 == 2 and pr[2] // 100000 == 4:
            hint.append((pr[1] % 100000) // 10)
    return _op_hint(op, events, hint)


def _op_hint(op, events, obsoleted):
    """What the model cannot know: commit/fetch -> the packs autopack really combined; pack -> whether the
    packer aborted because the repacked bytes hash to the old name ("already optimally packed")."""
    if op[0] == "pack":
        opened = any(e["kind"] == "open" and e["a"].startswith("repository/upload/") for e in events)
        moved = any(e["kind"] in ("move", "rename") and (e["b"] or "").startswith("repository/packs/") for e in events)
        return bool(opened and not moved)
    return obsoleted


def _scratch():
    d = _state["dir"]
    if d is None or not os.path.isdir(d):
        import atexit
        import tempfile
        d = tempfile.mkdtemp(prefix="verif-C04-lazy-")     # --replay / shrink outside setup(); removed at exit
        atexit.register(shutil.rmtree, d, True)
        _state.update(dir=d, templates={}, sources={}, lazy=d)
    return d


def _template(fmt, mode, base):
    from breezy import controldir
    key = (fmt, mode, repr(base))
    t = _state["templates"].get(key)
    if t is None:
        p = os.path.join(_scratch(), "tmpl%d" % _state["n"])
        _state["n"] += 1
        os.makedirs(p)
        cd = controldir.format_registry.make_controldir(fmt)
        if mode == "tree":
            controldir.ControlDir.create_standalone_workingtree(p, format=cd)
        else:
            cd.initialize(p).create_repository()
        ids = _Ids()
        hints = [_run_plain_op(p, fmt, mode, op, ids) for op in base]
        t = (p, ids, hints)
        _state["templates"][key] = t
    return t


def _key(inp):
    return repr(sorted(inp.items()))


def _run(inp):
    _init()
    fmt, mode = inp["fmt"], inp.get("mode", "repo")
    base = [list(o) for o in inp["base"]]
    tp, tids, bhints = _template(fmt, mode, base)
    path = os.path.join(_scratch(), "run%d" % _state["n"])
    _state["n"] += 1
    shutil.copytree(tp, path, symlinks=True)
    try:
        ids = _Ids(tids)
        out, hints, problems, nsnap = [], [], [], 0
        for i, op in enumerate(inp["ops"]):
            o, h, pr, ns = _run_traced_op(path, fmt, mode, op, ids)
            nsnap += ns
            out.append(o)
            hints.append(h)
            problems += ["op %d, after %d transport operations: %s" % (i, k, p) for k, p in pr]
        _state["hints"][_key(inp)] = (bhints, hints)
        # the last element is for the oracle only (not predicted by the model)
        return out + [[problems[:20], nsnap]]
    finally:
        shutil.rmtree(path, ignore_errors=True)


# --------------------------------------------------------------------------
# property-module interface
# --------------------------------------------------------------------------

def _init():
    if _state.get("inited"):
        return
    import breezy
    import breezy.bzr  # noqa
    import breezy.config
    os.environ.setdefault("BRZ_EMAIL", "t <t@example.com>")
    # fdatasync is not a transport operation and durability is outside the model; without it the
    # ~10^4 commits/packs on the snapshot copies are 5x faster (BRZ_HOME is the run's scratch home)
    breezy.config.GlobalStack().set("repository.fdatasync", False)
    _register()
    _state["inited"] = True


def setup(scratch):
    _state.update(dir=scratch, templates={}, sources={}, n=0)
    _init()


def teardown():
    _state.update(templates={}, sources={})


def C(*r):
    return ["commit", list(r)]


def Fe(*r):
    return ["fetch", list(r)]


P = ["pack"]
E = ["empty"]


def _singles(a, b):
    return [C(i) for i in range(a, b)]


BOTH = ("2a", "pack-0.92")


def _families():
    """(name, mode, base, ops, formats run in the quick tier) -- the thorough tier runs all of them on both formats"""
    return [
        ("first-commit", "repo", [], [C(0)], BOTH),
        ("commit", "repo", [C(0)], [C(1)], BOTH),
        ("commit-two-revs", "repo", [C(0), C(1)], [C(2, 3)], ("2a",)),
        ("pack-2", "repo", [C(0), C(1)], [P], BOTH),
        ("autopack-10", "repo", _singles(0, 9), [C(9)], ("2a",)),
        ("autopack-3", "repo", [C(*range(8)), C(8)], [C(9)], BOTH),
        ("autopack-partial", "repo", [C(*range(10))] + _singles(10, 19), [C(19)], ("pack-0.92",)),
        ("pack-again", "repo", [C(0), C(1), P], [P], BOTH),
        ("packed-commit-pack", "repo", [C(0), C(1), P], [C(2), P], BOTH),
        ("fetch", "repo", [C(0)], [Fe(1, 2)], BOTH),
        ("fetch-autopack", "repo", _singles(0, 9), [Fe(9)], ("pack-0.92",)),
        ("pack-empty", "repo", [], [P], BOTH),
        ("pack-single", "repo", [C(0)], [P], BOTH),
        ("empty-group", "repo", [C(0)], [E], BOTH),
        ("sequence", "repo", [C(0)], [C(1), C(2), P, C(3)], ("2a",)),
        ("tree-commit", "tree", [C(0)], [C(1)], BOTH),
        ("tree-autopack", "tree", _singles(0, 8) + [P, C(8)], [C(9)], ("pack-0.92",)),
        ("tree-first", "tree", [], [C(0), C(1)], ("2a",)),
    ]


_THOROUGH = [
    ("autopack-12-packs", "repo", [C(*range(0, 10)), C(*range(10, 20)), C(*range(20, 30))] + _singles(30, 39), [C(39)]),
    ("pack-12-packs", "repo", [C(*range(0, 10)), C(*range(10, 20)), C(*range(20, 30))] + _singles(30, 39), [P]),
    ("fetch-many", "repo", _singles(0, 8), [Fe(8, 9, 10)]),
    ("autopack-then-pack", "repo", _singles(0, 9), [C(9), P]),
    ("tree-sequence", "tree", [C(0)], [C(1), P, C(2)]),
    ("pack-after-autopack", "repo", _singles(0, 10), [P]),
    ("two-autopacks", "repo", [C(*range(10))] + _singles(10, 19), [C(19), C(20), P]),
]


def corpus():
    return []


def _random_scenario(rng):
    fmt = rng.choice(["2a", "pack-0.92"])
    mode = "repo" if rng.random() < 0.8 else "tree"
    ops, nxt = [], 0
    n = rng.randrange(2, 16)
    for _ in range(n):
        r = rng.random()
        if r < 0.12 and ops:
            ops.append(P)
        elif r < 0.17 and mode == "repo":
            ops.append(E)
        else:
            k = 1 if mode == "tree" else rng.choice([1, 1, 1, 1, 2, 3, 10])
            revs = list(range(nxt, nxt + k))
            nxt += k
            ops.append(["fetch", revs] if (mode == "repo" and rng.random() < 0.2) else ["commit", revs])
        if nxt > 44:
            break
    t = rng.choice([1, 1, 2, 3])
    t = min(t, len(ops))
    return {"fmt": fmt, "mode": mode, "base": ops[:-t], "ops": ops[-t:], "family": "random"}


def cases(rng, tier):
    _state["tier"] = tier
    for fmt in BOTH:
        for name, mode, base, ops, qf in _families():
            if tier != "quick" or fmt in qf:
                yield {"fmt": fmt, "mode": mode, "base": base, "ops": ops, "family": name}
    if tier != "quick":
        for fmt in BOTH:
            for name, mode, base, ops in _THOROUGH:
                yield {"fmt": fmt, "mode": mode, "base": base, "ops": ops, "family": name}
        for _ in range(20):
            yield _random_scenario(rng)
    else:
        for _ in range(3):
            yield _random_scenario(rng)


def impl(inp):
    return _run(inp)


def impl_obs(inp, obs):
    if isinstance(obs, Err):
        return obs
    return obs[:-1]


def _coq_opt_nat(v):
    return "None" if v is None else "(Some %s)" % coq_nat(v)


def _coq_sop(op, hint, mode):
    if op[0] in ("commit", "fetch"):
        if mode == "tree":
            raise ValueError("tree commits are expanded one revision at a time")
        return "(SCommit %s %s None)" % (coq_list(op[1], coq_nat), coq_list(sorted(hint), coq_nat))
    return ("(SPack %s)" % coq_bool(bool(hint) if isinstance(hint, bool) else False)) if op[0] == "pack" else "SEmpty"


def _coq_ops(ops, hints, mode):
    out = []
    for op, h in zip(ops, hints):
        if op[0] == "commit" and mode == "tree":
            # one working-tree commit per revision; the hint of the operation belongs to its (only) revision
            for j, n in enumerate(op[1]):
                out.append("(SCommit %s %s (Some %s))" % (coq_list([n], coq_nat),
                                                         coq_list(sorted(h) if j == len(op[1]) - 1 else [], coq_nat),
                                                         coq_nat(n)))
        else:
            out.append(_coq_sop(op, h, mode))
    return coq_list(out)


def model_term(inp):
    mode = inp.get("mode", "repo")
    bh, th = _state["hints"].get(_key(inp), ([[] for _ in inp["base"]], [[] for _ in inp["ops"]]))
    chk = coq_bool(inp["fmt"] == "2a")
    return "run_case %s %s %s" % (chk, _coq_ops(inp["base"], bh, mode), _coq_ops(inp["ops"], th, mode))


def _expected_sets(inp):
    """revision sets after the base and after each traced operation"""
    cur = set()
    for op in inp["base"]:
        if op[0] in ("commit", "fetch"):
            cur |= set(op[1])
    out = [sorted(cur)]
    for op in inp["ops"]:
        if op[0] in ("commit", "fetch"):
            cur |= set(op[1])
        out.append(sorted(cur))
    return out


def oracle(inp, obs):
    """The property itself on the implementation: at every crash point the reopened repository lists the
    old or the new revisions, every listed revision is readable, check() is clean, one more commit and a
    pack() work and list exactly one revision more."""
    if isinstance(obs, Err):
        return "driver error " + str(obs)
    problems = obs[-1][0]
    if problems:
        return "; ".join(problems[:3])
    exp = _expected_sets(inp)
    for i, o in enumerate(obs[:-1]):
        init, steps, _ = o
        old = init[5]
        if old != exp[i]:
            return "op %d starts from revisions %r, expected %r" % (i, old, exp[i])
        new = steps[-1][5] if steps else old
        if new != exp[i + 1]:
            return "op %d ends with revisions %r, expected %r" % (i, new, exp[i + 1])
        for k, st in enumerate(steps):
            if not st[6]:
                return "op %d: unusable after crash point %d (%r)" % (i, k + 1, st[0])
            if st[5] != old and st[5] != new:
                return "op %d: after crash point %d (%r) the repository lists %r: neither old %r nor new %r" % (
                    i, k + 1, st[0], st[5], old, new)
    return None


def finding_matches(fid, inp, obs, why):
    return False


def nontrivial(inp, obs):
    if isinstance(obs, Err):
        return False
    return any(any(str(st[0][0]) == "names" for st in o[1]) for o in obs[:-1])


def distribution(inputs, observations):
    d = {"by_format": {}, "by_family": {}, "crash_points": 0, "traced_ops": 0, "with_autopack": 0,
         "max_packs_listed": 0, "tree_mode": 0}
    for i, o in zip(inputs, observations):
        d["by_format"][i["fmt"]] = d["by_format"].get(i["fmt"], 0) + 1
        d["by_family"][i.get("family", "?")] = d["by_family"].get(i.get("family", "?"), 0) + 1
        if i.get("mode") == "tree":
            d["tree_mode"] += 1
        if isinstance(o, Err):
            continue
        d["crash_points"] += o[-1][1]
        for op in o[:-1]:
            d["traced_ops"] += 1
            d["model_operations"] = d.get("model_operations", 0) + len(op[1])
            d["max_packs_listed"] = max(d["max_packs_listed"], len(op[0][3]))
            if any(str(st[0][0]) == "move" and st[0][2] // 100000 == 4 for st in op[1]):
                d["with_autopack"] += 1
    return d
