"""C12 -- tree-changing commands never silently discard uncommitted work.

Tie H: coq/Model/NoLoss.v models (1) the keep_content / backup decision of transform._alter_files, (2) revert on
flat working-tree states (backup naming, an unversioned file in the way, merge_modified bookkeeping),
(3) InventoryWorkingTree.remove, (4) one path through Merge3Merger (on top of the C19 text-merge model).
This driver builds real 2a working trees (two commits: target tree and basis tree, then uncommitted changes,
unknown files, merge-hashes), runs WorkingTree.revert / remove / Merger / update / pull / switch / uncommit
through the Python API and observes the whole directory.  The oracle is the property itself: every user-edited
content present before is present afterwards (anywhere in the tree) unless the options asked to discard it.
"""
import hashlib
import os
import shutil
import tempfile

from vlib import Tag, Err, coq_bytes, coq_list, coq_bool, coq_option, coq_pair, coq_nat

PROP = "C12"
COQ = {
    "property_file": "Properties/C12.v",
    "imports": "From BV Require Import Lib.Bytes Model.TextMerge Model.NoLoss.",
}
META = {
    "level": "proof",
    "title": "Tree-changing commands never silently discard uncommitted work",
    "technique": ("Coq theorems over a hand model of _alter_files' keep_content decision (finite truth table, exhaustive), of "
                  "revert / remove on flat working-tree states with the real backup naming, and of one path through "
                  "Merge3Merger (on the C19 text-merge model); correspondence run on real 2a trees for revert, remove, merge, "
                  "update, pull, switch and uncommit, with a content-multiset oracle"),
    "level_text": ("Proved for all flat working-tree states (any number of names, files / symlinks / directories holding "
                   "unversioned files, arbitrary basis, target tree, merge-hashes and selections): revert with backups keeps "
                   "every user-edited FILE content in place, under <name>.~N~ or <name>.moved (no guard since the repair "
                   "round: five defects found by this check were fixed in cd17d15, 86c5d42, b356f06); "
                   "revert --no-backup still keeps user-edited added files; remove without --force keeps unversioned and "
                   "modified content (in place with --keep, else under a backup name); a merged path ends as the clean "
                   "three-way merge or with the local text in the file, <name>.THIS or <name>.moved; uncommit leaves the "
                   "files alone.  Symlink retargets are not preserved by revert (refuted witness, by design of the code)."),
    "level_note": ("Trusted: Coq kernel; the hand model (validated by the correspondence run on every check). Model domain: one "
                   "directory level, file identity = name (no renames), no executable bit, sha1 treated as injective. Nested "
                   "trees, renames and multi-step conflict resolution are exercised by the oracle only (cases marked "
                   "'unmodelled')."),
    "design_ref": "DESIGN.md §5 C12",
    "trusted_base": ["coq/Model/NoLoss.v hand model (validated on this run)",
                     "coq/Model/TextMerge.v (C19) for text_merge / helper files",
                     "tree building through WorkingTree.add/commit/unversion/set_merge_modified; os.walk for the snapshot"],
    "assumptions": ["sha1 is injective on the contents compared (the model compares contents instead of hashes)",
                    "iter_changes(working tree, target) reports exactly the names that are versioned in either tree, with "
                    "changed_content as in Model.NoLoss.changed_content (validated by the run)",
                    "merge3 region lists are an input of the merge model (as in C19)",
                    "transform application (TreeTransform.apply) performs the planned renames/deletions/creations (C13)"],
    "rule": ("flat states over a small name pool (incl. names that look like backups / .moved, non-ASCII, trailing blank), every "
             "entry kind, contents incl. empty / no trailing newline / non-NFC; exhaustive truth table of the decision first; "
             "both values of backups/keep/force, selections, target = basis and target != basis; non-trivial = some user-edited "
             "content exists before the command"),
}
SHARD = 100

_state = {}
_cache = {}

NAMES = ["a", "b", "a.~1~", "a.moved", "éx", "b ", "%41", "%41.~1~", "A.~1~"]
CONTENTS = [b"one\n", b"two\n", b"", b"no newline", b"USER \xc3\xa9\n", b"e\xcc\x81 \n", b"three\n"]
TARGETS = ["t1", "USER-é", "é "]
KIDS = [[], [["k1", b"kid\n"]], [["k1", b""], ["k2", b"two\n"]]]


def _b(s):
    return s.encode("utf-8") if isinstance(s, str) else bytes(s)


def _sha(c):
    return hashlib.sha1(bytes(c)).hexdigest().encode("ascii")


# ---------------------------------------------------------------- nodes: ["f", bytes] | ["l", str] | ["d", kids]

def F(c):
    return ["f", bytes(c)]


def L(t):
    return ["l", t]


def D(kids=()):
    return ["d", [[k, bytes(c)] for k, c in kids]]


def tree_node(nd):
    """the node as a revision tree holds it (directories have no unversioned kids)"""
    if nd is None:
        return None
    return ["d", []] if nd[0] == "d" else nd


def coq_node(nd):
    if nd[0] == "f":
        return f"(NFile {coq_bytes(bytes(nd[1]))})"
    if nd[0] == "l":
        return f"(NLink {coq_bytes(_b(nd[1]))})"
    return "(NDir " + coq_list([coq_pair(coq_bytes(_b(k)), coq_bytes(bytes(c))) for k, c in nd[1]]) + ")"


def coq_fmap(pairs):
    return coq_list([coq_pair(coq_bytes(_b(n)), coq_node(nd)) for n, nd in pairs])


def coq_names(ns):
    return coq_list([coq_bytes(_b(n)) for n in ns])


def spec(n, basis=None, target="same", wv=None, disk="basis", mm=None):
    target = basis if target == "same" else target
    disk = basis if disk == "basis" else disk
    wv = (basis is not None) if wv is None else wv
    return {"n": n, "basis": tree_node(basis), "target": tree_node(target), "wv": bool(wv), "disk": disk, "mm": mm}


def mm_content(e):
    """content whose hash is stored in merge-hashes for the entry (None: no entry)"""
    if e["mm"] is None:
        return None
    if e["mm"] == "live" and e["disk"] is not None and e["disk"][0] == "f":
        return bytes(e["disk"][1])
    return b"stale content\n"


def coq_state(inp):
    es = inp["names"]
    basis = [(e["n"], e["basis"]) for e in es if e["basis"] is not None]
    inv = [e["n"] for e in es if e["wv"]]
    disk = [(e["n"], e["disk"]) for e in es if e["disk"] is not None]
    mm = [(e["n"], mm_content(e)) for e in es if mm_content(e) is not None and e["wv"]]
    mmt = coq_list([coq_pair(coq_bytes(_b(n)), coq_bytes(c)) for n, c in mm])
    return (f"{{| basis := {coq_fmap(basis)}; inv := {coq_names(inv)}; disk := {coq_fmap(disk)}; mm := {mmt} |}}")


def coq_target(inp):
    return coq_fmap([(e["n"], e["target"]) for e in inp["names"] if e["target"] is not None])


def universe(inp):
    u = set()
    for e in inp["names"]:
        n = e["n"]
        u.update([n, n + ".~1~", n + ".~2~", n + ".moved"])
    for n in inp.get("extra_universe", []):
        u.add(n)
    return sorted(u)


def user_edited(e):
    """the property's notion, from the input: a file on disk whose content differs from the basis and is not a
    live merge-hash entry"""
    d = e["disk"]
    if d is None or d[0] != "f":
        return False
    if e["mm"] == "live" and e["wv"]:
        return False
    return e["basis"] != ["f", bytes(d[1])]


def decision_row(inp):
    """the chg record of the (single) name of a tt case, computed from the input"""
    e = inp["names"][0]
    wn = e["disk"] if e["wv"] else None
    kinds = {"f": "KFile", "d": "KDir", "l": "KLink"}
    wk = None if wn is None else kinds[wn[0]]
    tk = None if e["target"] is None else kinds[e["target"][0]]
    mmm = bool(e["mm"] == "live" and e["wv"] and wn is not None and wn[0] == "f")
    seb = bool(wn is not None and wn[0] == "f" and e["basis"] is not None and e["basis"] == ["f", bytes(wn[1])])
    return (wk, tk, bool(inp["backups"]), mmm, e["basis"] is not None, e["target"] is not None, seb)


def coq_chg(row):
    wk, tk, bk, mmm, ib, tv, seb = row
    o = lambda k: "None" if k is None else f"(Some {k})"
    return (f"{{| wt_kind := {o(wk)}; target_kind := {o(tk)}; backups := {coq_bool(bk)}; mm_match := {coq_bool(mmm)}; "
            f"in_basis := {coq_bool(ib)}; target_versioned := {coq_bool(tv)}; sha_eq_basis := {coq_bool(seb)} |}}")


# ---------------------------------------------------------------- generators

def _rand_node(rng, kinds="fffld"):
    k = rng.choice(kinds)
    if k == "f":
        return F(rng.choice(CONTENTS))
    if k == "l":
        return L(rng.choice(TARGETS))
    return D(rng.choice(KIDS))


def _rand_entry(rng, n, same_target):
    basis = tree_node(_rand_node(rng)) if rng.random() < 0.7 else None
    if same_target:
        target = basis
    else:
        r = rng.random()
        target = basis if r < 0.4 else (None if r < 0.6 else tree_node(_rand_node(rng)))
    r = rng.random()
    if r < 0.25:
        disk = basis
        if disk is not None and disk[0] == "d":
            disk = D(rng.choice(KIDS))
    elif r < 0.4:
        disk = None
    elif r < 0.5 and target is not None:
        disk = target
    else:
        disk = _rand_node(rng)
    if basis is not None:
        wv = rng.random() < 0.85
    else:
        wv = rng.random() < 0.45
    mm = None
    if rng.random() < 0.3 and (disk is None or disk[0] == "f"):
        # (WorkingTree.merge_modified() raises IsADirectoryError when a recorded file is now a directory: see notes)
        mm = rng.choice(["live", "live", "stale"])
    return {"n": n, "basis": basis, "target": target, "wv": wv, "disk": disk, "mm": mm}


def _rand_state(rng, same_target):
    k = rng.choice([1, 2, 2, 3, 3, 4])
    ns = rng.sample(NAMES, k)
    return [_rand_entry(rng, n, same_target) for n in sorted(ns)]


def _gen_revert(rng):
    same = rng.random() < 0.6
    es = _rand_state(rng, same)
    sel = None
    if rng.random() < 0.4:
        ok = [e["n"] for e in es if e["wv"] or e["target"] is not None]
        if ok:
            sel = sorted(rng.sample(ok, rng.randint(1, len(ok))))
    inp = {"kind": "revert", "names": es, "sel": sel, "backups": rng.random() < 0.65}
    r = rng.random()
    if r < 0.12:
        # Ctrl-C during the apply phase of the transform
        inp["interrupt"] = rng.randint(1, 6)
    elif r < 0.24:
        # a name within a few bytes of NAME_MAX: the backup / .moved name may be refused by the file system
        e = rng.choice(es)
        old = e["n"]
        stem = rng.choice(["x", "é"])
        L = rng.choice([249, 250, 251, 252, 253, 254, 255])
        new = (stem * NAME_MAX).encode("utf-8")[:L].decode("utf-8", "ignore")
        new = new + "y" * (L - len(new.encode("utf-8")))
        e["n"] = new
        if sel is not None:
            inp["sel"] = sorted(new if n == old else n for n in sel)
    return inp


def _gen_remove(rng):
    es = _rand_state(rng, True)
    cand = [e["n"] for e in es if e["wv"] or e["disk"] is not None]
    if not cand:
        cand = [es[0]["n"]]
    files = rng.sample(cand, rng.randint(1, len(cand)))
    keep, force = rng.choice([(False, False), (False, False), (False, True), (True, False), (True, True)])
    return {"kind": "remove", "names": es, "files": files, "keep": keep, "force": force}


def _gen_uncommit(rng):
    es = _rand_state(rng, False)
    return {"kind": "uncommit", "names": es}


def tt_cases():
    """every feasible row of the decision table as a one-name tree (changed_content must hold)"""
    W = b"working\n"
    out = []
    for wk in (None, "f", "d", "l"):
        for tk in (None, "f", "d", "l"):
            for bk in (False, True):
                for mmm in ((False, True) if wk == "f" else (False,)):
                    for ib in (False, True):
                        for seb in ((False, True) if (ib and wk == "f") else (False,)):
                            wnode = {None: None, "f": F(W), "d": D(), "l": L("USER")}[wk]
                            tnode = {None: None, "f": F(b"target\n"), "d": D(), "l": L("t1")}[tk]
                            if wk is None and tk is None:
                                continue            # not a change at all unless versioned: covered by revert cases
                            if wk == "d" and tk == "d":
                                continue            # changed_content is false
                            if ib:
                                bnode = F(W) if seb else (F(b"basis\n") if wk in ("f", None) else
                                                          (L("t0") if wk == "l" else F(b"basis\n")))
                            else:
                                bnode = None
                            e = {"n": "a", "basis": bnode, "target": tnode, "wv": True, "disk": wnode,
                                 "mm": "live" if mmm else None}
                            out.append({"kind": "tt", "names": [e], "sel": None, "backups": bk})
    return out


PLAIN = [b"a\n", b"b\n", b"c\n", b"d\n", b"e\n", b"A\n", b"C\n", b"x \xc3\xa9\n", b"\n"]


def _lines(rng, n):
    return [rng.choice(PLAIN) for _ in range(n)]


def _edit(rng, ls, k):
    ls = list(ls)
    for _ in range(k):
        op = rng.choice(["rep", "ins", "del", "rep"])
        if op == "ins" or not ls:
            ls.insert(rng.randint(0, len(ls)), rng.choice(PLAIN))
        elif op == "del":
            del ls[rng.randrange(len(ls))]
        else:
            ls[rng.randrange(len(ls))] = rng.choice(PLAIN)
    return ls


def _regions(base, this, other, reprocess):
    from merge3 import Merge3
    import patiencediff
    m3 = Merge3(list(base), list(this), list(other), is_cherrypick=False,
                sequence_matcher=patiencediff.PatienceSequenceMatcher)
    rs = m3.merge_regions()
    if reprocess:
        rs = m3.reprocess_merge_regions(rs)
    return [[r[0]] + [0 if x is None else int(x) for x in r[1:]] for r in rs]


def merge_case(cmd, base, this, other, tv=True, sid=True, reprocess=False, show_base=False, rename=None, then=None):
    """rename: OTHER also renames/moves the file to that path ("g", "d/f"); then: a follow-up command on the merged
    tree ("revert" = whole tree, "revert_f" = the file), always with backups.  Both make the case a sequence that
    only the oracle judges (the model covers the single merge of one un-renamed path)."""
    inp = {"kind": "merge", "cmd": cmd, "base": None if base is None else list(base), "this": list(this),
           "other": None if other is None else list(other), "tv": bool(tv), "sid": bool(sid),
           "reprocess": bool(reprocess), "show_base": bool(show_base), "rename": rename, "then": then}
    inp["regions"] = _regions(base or [], this, other or [], reprocess)
    return inp


def _gen_merge(rng, cmd):
    base = _lines(rng, rng.randint(1, 5)) if rng.random() < 0.75 else None
    this = _edit(rng, base or _lines(rng, 2), rng.choice([0, 1, 1, 2]))
    r = rng.random()
    if r < 0.2:
        other = None
    else:
        other = _edit(rng, base or _lines(rng, 2), rng.choice([0, 1, 1, 2]))
        if rng.random() < 0.1:
            other = list(this)
    if rng.random() < 0.15 and this:
        this = this[:-1] + [this[-1].rstrip(b"\n") + b"z"]
    tv = rng.random() < 0.8
    sid = rng.random() < 0.5
    rp, sb = (rng.random() < 0.3, rng.random() < 0.3) if cmd == "merge" else (False, False)
    rename = then = None
    if rng.random() < 0.1:
        c = merge_case(cmd, base, this, other, tv, sid, rp, sb)
        c["interrupt"] = rng.randint(1, 5)
        return c
    if rng.random() < 0.45:
        # sequences: the incoming change renames / moves the file (mostly without touching its text), and / or a
        # revert follows the merge-like command
        if base is not None and other is not None and tv and rng.random() < 0.75:
            rename = rng.choice(["g", "d/f", "f.~1~"])
            if rng.random() < 0.7:
                other = list(base)
        then = rng.choice([None, "revert", "revert", "revert_f"])
        if rename is None and then is None:
            then = "revert"
    return merge_case(cmd, base, this, other, tv, sid, rp, sb, rename, then)


CMDS = ["merge", "pull", "update", "switch"]


def store_case(steps):
    return {"kind": "store", "steps": [list(st) for st in steps]}


def _gen_store(rng):
    steps = []
    for _ in range(rng.randint(3, 8)):
        if rng.random() < 0.4:
            # the added file "n" is created once per sequence (a second add while the first is stored away would be a
            # second file id at the same path: conflict resolution, not modelled)
            name = rng.choice(["f", "f", "n"])
            if name == "n" and any(st[0] == "edit" and st[1] == "n" for st in steps):
                name = "f"
            steps.append(["edit", name, rng.choice(CONTENTS[:2] + CONTENTS[3:])])
        else:
            steps.append(["switch", rng.random() < 0.5, rng.random() < 0.7])
    if not any(st[0] == "edit" for st in steps):
        steps.insert(0, ["edit", "f", b"one\n"])
    if rng.random() < 0.5:
        # the refusal shape: a branch that already holds stored changes is left again with --store
        b = rng.random() < 0.5
        pre = [["edit", "f", rng.choice(CONTENTS[:2])], ["switch", b, True], ["switch", not b, False],
               ["edit", "f", rng.choice(CONTENTS[3:])], ["switch", rng.random() < 0.5, True]]
        steps = pre + [st for st in steps if not (st[0] == "edit" and st[1] == "n")][:3]
    return store_case(steps)


def corpus():
    out = []
    # regression (repaired cd17d15): a file absent from the basis, present in the target tree, edited by the user
    out.append({"kind": "revert", "names": [spec("a", None, F(b"one\n"), True, F(b"USER EDIT\n")),
                                            spec("b", F(b"g\n"))], "sel": ["a"], "backups": True})
    # refuted-by-design witnesses: a user-retargeted symlink; an (empty) user directory replaced by a file
    out.append({"kind": "revert", "names": [spec("a", L("t1"), disk=L("USER"))], "sel": None, "backups": True})
    out.append({"kind": "revert", "names": [spec("a", F(b"one\n"), disk=D())], "sel": None, "backups": True})
    # directory with unknown files replaced by a file (kept as a.new/ by conflict resolution: oracle only)
    out.append({"kind": "revert", "names": [spec("a", F(b"one\n"), disk=D([["k1", b"INNER USER\n"]]))], "sel": None,
                "backups": True})
    # regression (repaired cd17d15): revert to an older tree of a regular file that replaced a versioned symlink
    out.append({"kind": "revert", "names": [spec("a", L("t1"), disk=F(b"USER FILE REPLACING LINK\n")),
                                            spec("b", F(b"y2\n"), F(b"y\n"))], "sel": None, "backups": True})
    # Ctrl-C (KeyboardInterrupt) at each rename of the apply phase: the tree must be as before
    for k in (1, 2, 3, 4):
        out.append({"kind": "revert", "names": [spec("a", F(b"one\n"), disk=F(b"EDIT\n")), spec("b", F(b"g\n"), disk=None)],
                    "sel": None, "backups": True, "interrupt": k})
    # names within a few bytes of NAME_MAX: a.~1~ / a.moved cannot be created (ENAMETOOLONG)
    for ln in (250, 251, 252, 255):
        nm = "x" * ln
        out.append({"kind": "revert", "names": [spec(nm, F(b"one\n"), disk=F(b"EDIT\n"))], "sel": None, "backups": True})
        out.append({"kind": "revert", "names": [spec(nm, F(b"one\n"), wv=False, disk=F(b"EDIT\n"))], "sel": None,
                    "backups": True})
    out.append({"kind": "revert", "names": [spec("é" * 126, F(b"one\n"), disk=F(b"EDIT\n"))], "sel": None, "backups": True})
    # existing backups: the next free number is taken (two digits too)
    for k in (1, 2, 9, 10, 11):
        es = [spec("a", F(b"one\n"), disk=F(b"EDIT\n"))]
        es += [spec("a.~%d~" % i, None, None, False, F(b"old %d\n" % i)) for i in range(1, k + 1)]
        out.append({"kind": "revert", "names": es, "sel": None, "backups": True,
                    "extra_universe": ["a.~%d~" % (k + 1), "a.~%d~" % (k + 2)]})
        out.append({"kind": "remove", "names": es, "files": ["a"], "keep": False, "force": False,
                    "extra_universe": ["a.~%d~" % (k + 1), "a.~%d~" % (k + 2)]})
    # a versioned file named like a backup is missing and comes back (E): conflict resolution, oracle only
    out.append({"kind": "revert", "names": [spec("a", F(b"one\n"), disk=F(b"EDIT\n")),
                                            spec("a.~1~", F(b"vers\n"), disk=None)], "sel": None, "backups": True})
    # unknown file in the way of a file that comes back; and with a.moved taken
    out.append({"kind": "revert", "names": [spec("a", F(b"one\n"), wv=False, disk=F(b"EDIT\n"))], "sel": None,
                "backups": False})
    out.append({"kind": "revert", "names": [spec("a", F(b"one\n"), wv=False, disk=F(b"EDIT\n")),
                                            spec("a.moved", None, None, False, F(b"MOVED OLD\n"))], "sel": None,
                "backups": True})
    # remove: unknown, modified, added, symlink, directory with unknown files
    st = [spec("a", F(b"one\n"), disk=F(b"EDIT\n")), spec("b", None, None, False, F(b"unk\n")),
          spec("éx", None, None, True, F(b"added\n")), spec("a.moved", L("t1"), disk=L("USER")),
          spec("b ", D(), disk=D([["k1", b"dunk\n"]]))]
    for keep, force in ((False, False), (False, True), (True, False), (True, True)):
        out.append({"kind": "remove", "names": st, "files": [e["n"] for e in st], "keep": keep, "force": force})
    # regressions (repaired b356f06): the backup-name probe took a path where a URL is expected: "%41.~1~" was
    # looked up as "A.~1~", a non-ASCII name raised InvalidURL; (86c5d42) rm --keep f, edit, rm f
    out.append({"kind": "remove", "names": [spec("%41", F(b"one\n"), disk=F(b"EDIT 2\n")),
                                            spec("%41.~1~", None, None, False, F(b"PRECIOUS OLD BACKUP\n"))],
                "files": ["%41"], "keep": False, "force": False})
    out.append({"kind": "remove", "names": [spec("%41", F(b"one\n"), disk=F(b"EDIT 2\n")),
                                            spec("A.~1~", None, None, False, F(b"other\n"))],
                "files": ["%41"], "keep": False, "force": False})
    out.append({"kind": "remove", "names": [spec("éx", F(b"one\n"), disk=F(b"EDIT 2\n")), spec("éy", F(b"z\n"))],
                "files": ["éx", "éy"], "keep": False, "force": False})
    out.append({"kind": "remove", "names": [spec("a", F(b"one\n"), wv=False, disk=F(b"EDITED AFTER rm --keep\n")),
                                            spec("b", F(b"g\n"))],
                "files": ["a"], "keep": False, "force": False})
    out.append({"kind": "remove", "names": [spec("%41", F(b"one\n"), disk=D()),
                                            spec("%41.~1~", F(b"three\n"))],
                "files": ["%41"], "keep": False, "force": False})
    for cmd in CMDS:
        out.append(merge_case(cmd, [b"a\n", b"b\n", b"c\n"], [b"A\n", b"b\n", b"c\n"], [b"a\n", b"b\n", b"C\n"]))
        out.append(merge_case(cmd, [b"a\n", b"b\n", b"c\n"], [b"A\n", b"b\n", b"c\n"], None))
        out.append(merge_case(cmd, None, [b"mine\n"], [b"theirs\n"], sid=True))
        out.append(merge_case(cmd, None, [b"mine\n"], [b"theirs\n"], sid=False))
        out.append(merge_case(cmd, None, [b"mine\n"], [b"theirs\n"], tv=False))
        out.append(merge_case(cmd, [b"a\n", b"b\n"], [b"A\n", b"b\n"], [b"a\n", b"B\n"], tv=False))
        out.append(merge_case(cmd, [b"a\n", b"b\n"], [b"A\n", b"b\n"], None, tv=False))
        out.append(merge_case(cmd, [b"a\n"], [b"A\n"], [b"B\n"]))
    out.append(merge_case("merge", [b"a\n"], [b"A\n"], [b"B\n"], reprocess=True, show_base=True))
    # sequences: the incoming change only renames / moves the locally edited file, then revert
    B3 = [b"line 1\n", b"line 2\n", b"line 3\n"]
    T3 = [b"line 1\n", b"line 2 edited\n", b"line 3\n"]
    for cmd in CMDS:
        out.append(merge_case(cmd, B3, T3, B3, rename="g", then="revert"))
        out.append(merge_case(cmd, B3, T3, B3, rename="d/f", then="revert_f"))
    out.append(merge_case("pull", B3, T3, [b"line 1\n", b"line 2\n", b"line 3 theirs\n"], rename="g", then="revert"))
    out.append(merge_case("update", B3, T3, [b"line 1\n", b"line 2\n", b"line 3 theirs\n"], then="revert"))
    for cmd in CMDS:
        for k in (1, 2, 3):
            c = merge_case(cmd, B3, T3, [b"line 1\n", b"line 2\n", b"line 3 theirs\n"])
            c["interrupt"] = k
            out.append(c)
    # both sides add the same text under different file ids: "f" is OTHER's file (written by the merge), the local one
    # is f.moved
    out.append(merge_case("switch", None, [b"c\n", b"b\n"], [b"c\n", b"b\n"], sid=False))
    out.append(merge_case("pull", None, [b"c\n", b"b\n"], [b"c\n", b"b\n"], sid=False, then="revert"))
    # switch --store sequences: round trip; refused because the branch already holds stored changes
    out.append(store_case([["edit", "f", b"one\n"], ["switch", True, True], ["switch", False, True]]))
    out.append(store_case([["edit", "f", b"one\n"], ["switch", True, True], ["switch", False, False],
                           ["edit", "f", b"two\n"], ["edit", "n", b"new file\n"], ["switch", True, True],
                           ["switch", True, False], ["switch", False, True]]))
    out.append(store_case([["edit", "n", b"added\n"], ["switch", True, True], ["edit", "f", b"x\n"],
                           ["switch", False, True], ["switch", True, True]]))
    out.append({"kind": "uncommit", "names": st})
    return out


def cases(rng, tier):
    quick = tier == "quick"
    for c in tt_cases():
        yield c
    for _ in range(150 if quick else 1500):
        yield _gen_revert(rng)
    for _ in range(80 if quick else 800):
        yield _gen_remove(rng)
    for i in range(40 if quick else 400):
        yield _gen_merge(rng, CMDS[i % 4])
    for _ in range(8 if quick else 60):
        yield _gen_uncommit(rng)
    for _ in range(14 if quick else 150):
        yield _gen_store(rng)


# ---------------------------------------------------------------- implementation driver

def setup(scratch):
    import breezy
    import breezy.bzr  # noqa
    os.environ.setdefault("BRZ_EMAIL", "verif <verif@example.com>")
    import logging
    logging.getLogger("brz").setLevel(logging.CRITICAL)
    _state["dir"] = scratch
    _state["n"] = 0


def teardown():
    d = _state.get("own")
    if d:
        shutil.rmtree(d, ignore_errors=True)
    _state.clear()


def _newdir():
    if "dir" not in _state:
        setup(tempfile.mkdtemp(prefix="verif-C12-"))
        _state["own"] = _state["dir"]
    _state["n"] += 1
    d = os.path.join(_state["dir"], "c%d" % _state["n"])
    os.makedirs(d)
    return d


def _mktree(d):
    from breezy import controldir
    return controldir.ControlDir.create_standalone_workingtree(
        d, format=controldir.format_registry.make_controldir("2a"))


def _rm(p):
    if os.path.islink(p) or os.path.isfile(p):
        os.unlink(p)
    elif os.path.isdir(p):
        shutil.rmtree(p)


def _put(root, n, nd):
    p = os.path.join(root, n)
    _rm(p)
    if nd is None:
        return
    if nd[0] == "f":
        with open(p, "wb") as f:
            f.write(bytes(nd[1]))
    elif nd[0] == "l":
        os.symlink(nd[1], p)
    else:
        os.mkdir(p)
        for k, c in nd[1]:
            with open(os.path.join(p, k), "wb") as f:
                f.write(bytes(c))


def _fid(n):
    return b"id-" + n.encode("utf-8").hex().encode("ascii")


def _build(inp):
    """two commits (target tree, basis tree) and the uncommitted state; returns (wt, target revision id)"""
    d = _newdir()
    wt = _mktree(d)
    es = inp["names"]
    with open(os.path.join(d, "zz-keep"), "wb") as f:
        f.write(b"keep\n")
    wt.add(["zz-keep"], ids=[b"keep-id"])
    add = [e["n"] for e in es if e["target"] is not None]
    for e in es:
        _put(d, e["n"], e["target"])
    if add:
        wt.add(add, ids=[_fid(n) for n in add])
    r1 = wt.commit("target", rev_id=b"r1")
    if any(e["basis"] != e["target"] for e in es):
        for e in es:
            if e["basis"] == e["target"]:
                continue
            _put(d, e["n"], e["basis"])
            if e["basis"] is None:
                wt.unversion([e["n"]])
            elif e["target"] is None:
                wt.add([e["n"]], ids=[_fid(e["n"])])
        with open(os.path.join(d, "zz-keep"), "wb") as f:
            f.write(b"keep 2\n")
        wt.commit("basis", rev_id=b"r2")
    for e in es:
        in_basis = e["basis"] is not None
        if e["wv"] and not in_basis:
            _put(d, e["n"], e["disk"] if e["disk"] is not None else F(b"tmp"))
            wt.add([e["n"]], ids=[_fid(e["n"])])
        elif not e["wv"] and in_basis:
            wt.unversion([e["n"]])
        _put(d, e["n"], e["disk"])
    mmd = {}
    for e in es:
        c = mm_content(e)
        if c is not None and e["wv"]:
            mmd[e["n"]] = _sha(c)
    if mmd:
        wt.set_merge_modified(mmd)
    return wt, r1


def _walk(root):
    """every regular file below root (outside .bzr): sorted [relpath, content]"""
    out = []
    for dp, dn, fn in os.walk(root):
        if ".bzr" in dn:
            dn.remove(".bzr")
        for n in fn:
            p = os.path.join(dp, n)
            if os.path.islink(p):
                continue
            with open(p, "rb") as f:
                out.append([os.path.relpath(p, root), f.read()])
    return sorted(out)


def _links(root):
    out = []
    for dp, dn, fn in os.walk(root):
        if ".bzr" in dn:
            dn.remove(".bzr")
        for n in fn + dn:
            p = os.path.join(dp, n)
            if os.path.islink(p):
                out.append([os.path.relpath(p, root), os.readlink(p)])
    return sorted(out)


def _node_at(root, n):
    p = os.path.join(root, n)
    if os.path.islink(p):
        return [Tag("l"), os.readlink(p).encode("utf-8")]
    if os.path.isdir(p):
        kids = []
        for k in sorted(os.listdir(p)):
            q = os.path.join(p, k)
            if os.path.isfile(q) and not os.path.islink(q):
                with open(q, "rb") as f:
                    kids.append([k.encode("utf-8"), f.read()])
            else:
                kids.append([k.encode("utf-8"), Tag("nested")])
        return [Tag("d"), kids]
    if os.path.isfile(p):
        with open(p, "rb") as f:
            return [Tag("f"), f.read()]
    return None


def _obs_state(wt, inp):
    from breezy.workingtree import WorkingTree
    root = wt.basedir
    wt = WorkingTree.open(root)
    u = universe(inp)
    top = [n for n in os.listdir(root) if n not in (".bzr", "zz-keep")]
    with wt.lock_read():
        mm = wt.merge_modified()
        ver = [bool(wt.is_versioned(n)) for n in u]
    return [[_node_at(root, n) for n in u], len(top), ver, [n in mm for n in u]]


class _Interrupt:
    """raise KeyboardInterrupt (a BaseException that is not an Exception: Ctrl-C) instead of performing the k-th
    rename of a tree transform's apply phase (_FileMover.rename: into limbo, out of limbo, into pending-deletion)"""

    def __init__(self, k):
        self.k = k
        self.n = 0

    def __enter__(self):
        from breezy import transform as _t
        self.cls = _t._FileMover
        self.orig = self.cls.rename
        if self.k:
            me = self

            def rename(mover, from_, to):
                me.n += 1
                if me.n == me.k:
                    raise KeyboardInterrupt()
                return me.orig(mover, from_, to)
            self.cls.rename = rename
        return self

    def __exit__(self, *a):
        self.cls.rename = self.orig
        return False


def _impl_tree(inp):
    from breezy import errors
    wt, r1 = _build(inp)
    root = wt.basedir
    before, lbefore = _walk(root), _links(root)
    kind = inp["kind"]
    err = None
    conf = []
    try:
        if kind in ("revert", "tt"):
            target = wt.branch.repository.revision_tree(r1)
            with _Interrupt(inp.get("interrupt")):
                cs = wt.revert(inp["sel"], old_tree=target, backups=inp["backups"])
            conf = sorted([c.typestring, c.path] for c in cs)
        elif kind == "remove":
            wt.remove(list(inp["files"]), keep_files=inp["keep"], force=inp["force"])
        elif kind == "uncommit":
            from breezy import uncommit as _unc
            _unc.uncommit(wt.branch, tree=wt)
    except (errors.BzrError, AssertionError, OSError) as e:
        err = type(e).__name__
    except KeyboardInterrupt:
        if not inp.get("interrupt"):
            raise
        err = "KeyboardInterrupt"
    except Exception as e:
        if type(e).__name__ != "InvalidURL":
            raise
        err = "InvalidURL"
    after, lafter = _walk(root), _links(root)
    m = _obs_state(wt, inp)
    if kind == "remove" and err is not None:
        _cache[_key(inp)] = "skip"           # the oracle reports it; the model never raises
    if kind == "tt":
        e = inp["names"][0]
        wn = e["disk"]
        nodes = dict(zip(universe(inp), m[0]))

        def same(o, nd):
            return o is not None and nd is not None and str(o[0]) == nd[0] and (
                nd[0] == "d" or bytes(o[1]) == _b(nd[1]))
        if wn is None:
            act = "nothing"
        elif same(nodes.get("a.~1~"), wn):
            act = "backup"
        elif same(nodes.get("a"), wn) and e["target"] is None:
            act = "keep"
        else:
            act = "delete"
        m = [Tag(act), Tag(act), m]
    shutil.rmtree(root, ignore_errors=True)
    return {"m": m, "err": err, "conf": conf, "before": before, "after": after, "lbefore": lbefore, "lafter": lafter}


# ---- merge-like commands on one path

def _impl_merge(inp):
    from breezy import merge as _m, switch as _sw, errors
    from breezy.workingtree import WorkingTree
    base = None if inp["base"] is None else b"".join(bytes(x) for x in inp["base"])
    other = None if inp["other"] is None else b"".join(bytes(x) for x in inp["other"])
    this = b"".join(bytes(x) for x in inp["this"])
    cmd = inp["cmd"]
    if _regions(inp["base"] or [], inp["this"], inp["other"] or [], inp["reprocess"]) != [list(r) for r in inp["regions"]]:
        raise AssertionError("merge3 no longer yields the region list stored in the input")
    d = _newdir()
    trunk = _mktree(os.path.join(d, "trunk"))
    td = trunk.basedir
    with open(os.path.join(td, "k"), "wb") as f:
        f.write(b"k\n")
    trunk.add(["k"], ids=[b"k-id"])
    if base is not None:
        _put(td, "f", F(base))
        trunk.add(["f"], ids=[b"f-id"])
    r1 = trunk.commit("1", rev_id=b"r1")
    if cmd in ("merge", "switch"):
        ob = trunk.controldir.sprout(os.path.join(d, "other"), revision_id=r1).open_workingtree()
    else:
        ob = trunk
    od = ob.basedir
    if other is None:
        if base is not None:
            ob.remove(["f"], keep_files=False, force=True)
    else:
        _put(od, "f", F(other))
        if base is None:
            ob.add(["f"], ids=[b"f-id"])
        if inp.get("rename"):
            if "/" in inp["rename"]:
                os.mkdir(os.path.join(od, os.path.dirname(inp["rename"])))
                ob.add([os.path.dirname(inp["rename"])], ids=[b"d-id"])
            ob.rename_one("f", inp["rename"])
    with open(os.path.join(od, "k"), "wb") as f:
        f.write(b"k2\n")
    r2 = ob.commit("2", rev_id=b"r2")
    if cmd == "merge":
        wt = trunk
    elif cmd == "pull":
        wt = trunk.controldir.sprout(os.path.join(d, "wt"), revision_id=r1).open_workingtree()
    elif cmd == "update":
        wt = trunk.branch.create_checkout(os.path.join(d, "wt"), revision_id=r1, lightweight=True)
    else:
        wt = trunk.branch.create_checkout(os.path.join(d, "wt"), lightweight=True)
    wd = wt.basedir
    _put(wd, "f", F(this))
    if base is None and inp["tv"]:
        wt.add(["f"], ids=[b"f-id" if inp["sid"] else b"f-mine-id"])
    if base is not None and not inp["tv"]:
        wt.unversion(["f"])
    before = _walk(wd)
    err = None
    intr = _Interrupt(inp.get("interrupt"))
    try:
      with intr:
        if cmd == "merge":
            with wt.lock_write():
                mg = _m.Merger.from_revision_ids(wt, r2, other_branch=ob.branch)
                mg.merge_type = _m.Merge3Merger
                mg.reprocess = inp["reprocess"]
                mg.show_base = inp["show_base"]
                mg.do_merge()
        elif cmd == "pull":
            wt.pull(ob.branch)
        elif cmd == "update":
            wt.update()
        else:
            _sw.switch(wt.controldir, ob.branch, quiet=True)
    except _m.CantReprocessAndShowBase:
        err = "CantReprocessAndShowBase"
    except KeyboardInterrupt:
        if not inp.get("interrupt"):
            raise
        err = "KeyboardInterrupt"
    after = _walk(wd)
    wt = WorkingTree.open(wd)
    files = dict((p, c) for p, c in after)
    seq = bool(inp.get("rename") or inp.get("then"))
    extra = sorted(set(files) - {"k", "f", "f.BASE", "f.THIS", "f.OTHER", "f.moved"})
    if extra and not inp.get("rename"):
        raise AssertionError(f"unexpected files after {cmd}: {extra!r}")
    ts = sorted(set(c.typestring for c in wt.conflicts()))
    tag = {"text conflict": "text", "contents conflict": "contents", "duplicate": "duplicate"}
    if (len(ts) > 1 or any(t not in tag for t in ts)) and not inp.get("rename"):
        raise AssertionError(f"unexpected conflicts {ts!r}")
    with wt.lock_read():
        mm1 = sorted(wt.merge_modified())
        try:
            # the path of the LOCAL file's id (a file added locally under an id of its own keeps that id; "f-id" is
            # then OTHER's new file, which the merge does write)
            fpath = wt.id2path(b"f-id" if (inp["base"] is not None or inp["sid"]) else b"f-mine-id")
        except Exception as e:
            if type(e).__name__ != "NoSuchId":
                raise
            fpath = None
    if err:
        m = Err(err)
    else:
        m = [files.get("f"), files.get("f.BASE"), files.get("f.THIS"), files.get("f.OTHER"), files.get("f.moved"),
             Tag(tag[ts[0]] if ts else ""), "f" in mm1]
    after2 = None
    err2 = None
    if inp.get("then") and not err:
        try:
            if inp["then"] == "revert":
                wt.revert(backups=True)
            else:
                wt.revert([fpath if fpath is not None else "f"], backups=True)
        except errors.BzrError as e:
            err2 = type(e).__name__
        after2 = _walk(wd)
    shutil.rmtree(d, ignore_errors=True)
    return {"m": m, "err": err, "conf": ts, "before": before, "after": after, "lbefore": [], "lafter": [],
            "mm1": mm1, "fpath": fpath, "after2": after2, "err2": err2, "seq": seq}


# ---- switch --store sequences (two branches A = False, B = True of one shared history; lightweight checkout)

def _impl_store(inp):
    from breezy import switch as _sw, errors
    from breezy.workingtree import WorkingTree
    d = _newdir()
    ta = _mktree(os.path.join(d, "A"))
    for n, c in (("f", b"base\n"), ("k", b"k\n")):
        with open(os.path.join(ta.basedir, n), "wb") as f:
            f.write(c)
    ta.add(["f", "k"], ids=[b"f-id", b"k-id"])
    ta.commit("1", rev_id=b"r1")
    tb = ta.controldir.sprout(os.path.join(d, "B")).open_workingtree()
    with open(os.path.join(tb.basedir, "k"), "wb") as f:
        f.write(b"k in B\n")
    tb.commit("2", rev_id=b"r2")
    br = {False: ta.branch, True: tb.branch}
    wt = ta.branch.create_checkout(os.path.join(d, "wt"), lightweight=True)
    wd = wt.basedir
    out = []
    snaps = []
    for st in inp["steps"]:
        before = _walk(wd)
        raised = None
        if st[0] == "edit":
            p = os.path.join(wd, st[1])
            new = not os.path.lexists(p)
            with open(p, "wb") as f:
                f.write(bytes(st[2]))
            if new:
                WorkingTree.open(wd).add([st[1]], ids=[b"n-id"])
        else:
            try:
                _sw.switch(WorkingTree.open(wd).controldir, br[bool(st[1])], quiet=True, store_uncommitted=bool(st[2]))
            except errors.ChangesAlreadyStored:
                raised = "ChangesAlreadyStored"
        after = _walk(wd)
        files = dict(after)
        fc = files.get("f")
        out.append([raised is not None, [None if fc == b"base\n" else fc, files.get("n")]])
        snaps.append([st[0], raised, before, after])
    # drain: whatever the branches still hold must be restorable
    stored = []
    for b in (False, True):
        if br[b]._transport.has("stored-transform"):
            dr = br[b].create_checkout(os.path.join(d, "drain%d" % b), lightweight=True)
            dr.restore_uncommitted()
            stored += [c for _p, c in _walk(dr.basedir)]
    final = _walk(wd)
    shutil.rmtree(d, ignore_errors=True)
    return {"m": out, "err": None, "conf": [], "snaps": snaps, "stored": stored, "final": final,
            "before": [], "after": final, "lbefore": [], "lafter": []}


def impl(inp):
    if inp["kind"] == "merge":
        return _impl_merge(inp)
    if inp["kind"] == "store":
        return _impl_store(inp)
    return _impl_tree(inp)


# ---------------------------------------------------------------- model side

def _way_names(inp):
    """unversioned things on disk at a name the (selected part of the) target tree versions"""
    sel = inp.get("sel")
    return sorted(e["n"] for e in inp["names"]
                  if e["target"] is not None and not e["wv"] and e["disk"] is not None and (sel is None or e["n"] in sel))


def in_domain(inp, obs):
    """revert: the model covers the run iff conflict resolution did nothing but move unversioned files aside once"""
    if inp["kind"] not in ("revert", "tt"):
        return True
    if obs["err"]:
        return False
    want = sorted(["duplicate", n + ".moved"] for n in _way_names(inp))
    return [list(c) for c in obs["conf"]] == want


def impl_obs(inp, obs):
    if isinstance(obs, Err):
        return obs
    if not in_domain(inp, obs):
        return Tag("unmodelled")
    return obs["m"]


def _coq_sel(sel):
    return "None" if sel is None else "(Some " + coq_names(sel) + ")"


def _coq_lines(ls):
    return coq_list([coq_bytes(bytes(x)) for x in ls])


def _coq_region(r):
    tag = {"unchanged": "IUnchanged", "same": "ISame", "a": "IA", "b": "IB", "conflict": "IConflict"}[r[0]]
    return "(" + tag + " " + " ".join(coq_nat(x) for x in r[1:]) + ")"


def quirky(inp):
    """a versioned entry whose basis kind is not "file" but which is a regular file on disk: the dirstate answers
    (or becomes one through the revert): the dirstate answers get_file_sha1 with None once per lock (bzrformats),
    which the model does not describe -> oracle only"""
    def isf(nd):
        return nd is not None and nd[0] == "f"
    return any(e["wv"] and e["basis"] is not None and e["basis"][0] != "f" and (isf(e["disk"]) or isf(e["target"]))
               for e in inp.get("names", []))


NAME_MAX = 255


def longnames(inp):
    """a name so long that <name>.~1~ or <name>.moved exceeds NAME_MAX bytes: the file system refuses the rename
    (ENAMETOOLONG); not part of the model -> oracle only (a refused command must leave the tree unchanged)"""
    return any(len(_b(e["n"])) + 6 > NAME_MAX for e in inp.get("names", []))


def _key(inp):
    return repr(sorted((k, repr(v)) for k, v in inp.items()))


def model_term(inp):
    k = inp["kind"]
    if quirky(inp) or _cache.get(_key(inp)) == "skip" or inp.get("interrupt") or longnames(inp):
        return None
    if k == "store":
        ops = []
        for st in inp["steps"]:
            if st[0] == "edit":
                ops.append(f"(OEdit {coq_bytes(_b(st[1]))} {coq_bytes(bytes(st[2]))})")
            else:
                ops.append(f"(OSwitch {coq_bool(st[1])} {coq_bool(st[2])})")
        return f"run_store {coq_names(['f', 'n'])} {coq_list(ops)}"
    if k == "merge" and (inp.get("rename") or inp.get("then") or inp.get("interrupt")):
        return None
    if k == "merge":
        o = f"{{| o_reprocess := {coq_bool(inp['reprocess'])}; o_show_base := {coq_bool(inp['show_base'])} |}}"
        base = "None" if inp["base"] is None else "(Some " + _coq_lines(inp["base"]) + ")"
        other = "None" if inp["other"] is None else "(Some " + _coq_lines(inp["other"]) + ")"
        rs = coq_list([_coq_region(r) for r in inp["regions"]])
        return (f"run_merge {o} {base} {_coq_lines(inp['this'])} {coq_bool(inp['tv'])} {coq_bool(inp['sid'])} "
                f"{other} {rs}")
    u = coq_names(universe(inp))
    s = coq_state(inp)
    if k in ("revert", "tt"):
        t = f"run_revert {u} {coq_target(inp)} {_coq_sel(inp['sel'])} {coq_bool(inp['backups'])} {s}"
        if k == "tt":
            return (f"run_tt {coq_chg(decision_row(inp))} {u} {coq_target(inp)} {_coq_sel(inp['sel'])} "
                    f"{coq_bool(inp['backups'])} {s}")
        return t
    if k == "remove":
        files = sorted(set(inp["files"]), reverse=True)          # "files.sort(reverse=True)" of the real loop
        return f"run_remove {u} {coq_names(files)} {coq_bool(inp['keep'])} {coq_bool(inp['force'])} {s}"
    if k == "uncommit":
        return f"run_uncommit {u} {coq_target(inp)} {s}"
    raise ValueError(k)


# ---------------------------------------------------------------- the property itself

def _multiset(xs):
    d = {}
    for x in xs:
        d[x] = d.get(x, 0) + 1
    return d


def _lost(need, after_contents):
    have = _multiset(after_contents)
    out = []
    for c, k in _multiset(need).items():
        if have.get(c, 0) < k:
            out.append(c)
    return sorted(out)


def _kid_contents(e):
    return [bytes(c) for _k, c in e["disk"][1]] if e["disk"] is not None and e["disk"][0] == "d" else []


def _lost_contents(inp, obs):
    after = [bytes(c) for _p, c in obs["after"]]
    need = []
    for e in inp["names"]:
        need += _kid_contents(e)
        if user_edited(e):
            need.append(bytes(e["disk"][1]))
    return _lost(need, after)


def finding_class(inp):
    """the class of the repaired finding C12-revert-added-file-no-backup (for the distribution only): revert with
    backups of a selected versioned FILE that is absent from the basis, present in the target tree, user-edited"""
    if inp["kind"] not in ("revert", "tt") or not inp["backups"]:
        return []
    sel = inp.get("sel")
    return [e["n"] for e in inp["names"]
            if e["wv"] and e["basis"] is None and e["target"] is not None and user_edited(e)
            and e["target"] != e["disk"] and (sel is None or e["n"] in sel)]


HELPERS = (".THIS", ".BASE", ".OTHER")


def _oracle_merge(inp, obs):
    if obs["err"]:
        return None if obs["before"] == obs["after"] else "merge raised and changed the tree"
    cmd = inp["cmd"]
    this = b"".join(bytes(x) for x in inp["this"])
    base = None if inp["base"] is None else b"".join(bytes(x) for x in inp["base"])
    other = None if inp["other"] is None else b"".join(bytes(x) for x in inp["other"])
    files = dict((p, bytes(c)) for p, c in obs["after"])
    fpath = obs.get("fpath") or "f"
    conflict_free = not any(r[0] == "conflict" for r in inp["regions"])
    # (1) the merge-like command itself: local text kept, or no local change, or the clean three-way merge
    ok = this in files.values() or (base is not None and this == base)
    if not ok and base is not None and other is not None and conflict_free:
        from merge3 import Merge3
        import patiencediff
        m3 = Merge3([bytes(x) for x in inp["base"]], [bytes(x) for x in inp["this"]], [bytes(x) for x in inp["other"]],
                    sequence_matcher=patiencediff.PatienceSequenceMatcher)
        ok = files.get(fpath) == b"".join(m3.merge_lines())
    if not ok and base is None and other is not None and conflict_free:
        ok = True
    if not ok:
        return f"{cmd}: local text {this!r} is neither kept nor cleanly merged"
    # (2) merge-hashes: when OTHER did not change the text (or made the same change) the merge has no content to
    # write, so the path holding the untouched local text must not be recorded as written by the merge
    must_write = other is not None and other != base and other != this
    # (a contents conflict moves the file id to <name>.THIS, a helper the merge does write: by the statement's
    # definition that copy is "written by a merge" -- see notes)
    if inp["tv"] and not must_write and files.get(fpath) == this and fpath in obs.get("mm1", []) \
            and this != base and not fpath.endswith(HELPERS):
        return (f"{cmd}: {fpath!r} holds the user's uncommitted text, untouched by the merge, but is recorded in "
                f"merge_modified()")
    # (3) a revert (with backups) after the merge: text that sat in a file of the user's (not in a conflict helper
    # and not written by the merge) must still exist
    if obs.get("after2") is not None:
        if obs.get("err2"):
            return None if obs["after2"] == obs["after"] else "revert raised and changed the tree"
        holders = [p for p, c in files.items() if c == this and not p.endswith(HELPERS)]
        if holders and not must_write and this != base and this not in [bytes(c) for _p, c in obs["after2"]]:
            return (f"{cmd} then {inp['then']} (backups): the uncommitted text {this!r} held by {holders!r} after the "
                    f"{cmd} is gone")
    return None


def _oracle_store(inp, obs):
    # a refused switch changes nothing; afterwards every text the user wrote last to a name is in the tree or
    # restorable from a branch
    for op, raised, before, after in obs["snaps"]:
        if raised and before != after:
            return f"switch raised {raised} and changed the tree"
    last = {}
    for st in inp["steps"]:
        if st[0] == "edit":
            last[st[1]] = bytes(st[2])
    have = [bytes(c) for _p, c in obs["final"]] + [bytes(c) for c in obs["stored"]]
    # an edit made on top of restored/stored work of the same name may legitimately conflict; keep to texts that
    # must survive verbatim: the last text of a name that was edited once
    once = {n for n in last if sum(1 for st in inp["steps"] if st[0] == "edit" and st[1] == n) == 1}
    lost = sorted(last[n] for n in once if last[n] not in have)
    if lost:
        return f"switch --store sequence lost uncommitted text {lost!r}"
    return None


def oracle(inp, obs):
    if isinstance(obs, Err):
        return None                     # driver errors are reported by the framework
    k = inp["kind"]
    after = [bytes(c) for _p, c in obs["after"]]
    if obs["err"] and k == "remove":
        # no option combination of remove is refused: an escaping exception is a failure by itself
        ch = obs["before"] != obs["after"] or obs["lbefore"] != obs["lafter"]
        return f"remove raised {obs['err']}" + (" after changing the tree" if ch else "")
    if obs["err"] and k != "merge":
        # a refused / failing command must leave the tree alone
        if obs["before"] != obs["after"] or obs["lbefore"] != obs["lafter"]:
            return f"{k} raised {obs['err']} and changed the tree"
        return None
    if k == "merge":
        return _oracle_merge(inp, obs)
    if k == "store":
        return _oracle_store(inp, obs)
    if k == "uncommit":
        if obs["before"] != obs["after"] or obs["lbefore"] != obs["lafter"]:
            return "uncommit modified working-tree files"
        return None
    es = inp["names"]
    need = []
    links_need = []
    if k in ("revert", "tt"):
        sel = inp.get("sel")
        for e in es:
            need += _kid_contents(e)
            if not user_edited(e):
                continue
            asked = (not inp["backups"]) and e["wv"] and (sel is None or e["n"] in sel)
            if not asked:
                need.append(bytes(e["disk"][1]))
    else:
        discard = (not inp["keep"]) and inp["force"]
        for e in es:
            named = e["n"] in inp["files"]
            if not (discard and named):
                need += _kid_contents(e)
                if user_edited(e):
                    need.append(bytes(e["disk"][1]))
                if (e["disk"] is not None and e["disk"][0] == "l" and e["basis"] != e["disk"]):
                    links_need.append(e["disk"][1])
    lost = _lost(need, after)
    if lost:
        return f"{k}: user-edited content lost: {lost!r}"
    ll = _lost(links_need, [t for _p, t in obs["lafter"]])
    if ll:
        return f"{k}: user-made symlink lost: {ll!r}"
    return None


def finding_matches(fid, inp, obs, why):
    # all five findings of the first round are repaired (status "fixed"): nothing is excused any more
    return False


def nontrivial(inp, obs):
    if inp["kind"] == "store":
        return any(st[0] == "switch" and st[2] for st in inp["steps"])
    if inp["kind"] == "merge":
        return inp["base"] is None or inp["this"] != inp["base"]
    return any(user_edited(e) or _kid_contents(e) for e in inp["names"])


def distribution(inputs, observations):
    d = {}
    for inp, o in zip(inputs, observations):
        k = inp["kind"] + (":" + inp["cmd"] if inp["kind"] == "merge" else "")
        d[k] = d.get(k, 0) + 1
        if isinstance(o, dict):
            if not in_domain(inp, o):
                d["unmodelled"] = d.get("unmodelled", 0) + 1
            if o.get("err"):
                d["raised:" + o["err"]] = d.get("raised:" + o["err"], 0) + 1
            for c in o.get("conf", []):
                key = "conflict:" + (c if isinstance(c, str) else c[0])
                d[key] = d.get(key, 0) + 1
        if inp["kind"] in ("revert", "tt"):
            d["backups=%s" % inp["backups"]] = d.get("backups=%s" % inp["backups"], 0) + 1
            if finding_class(inp):
                d["added-file-with-target-entry (repaired class)"] = d.get("added-file-with-target-entry (repaired class)", 0) + 1
        if inp["kind"] == "remove":
            key = "keep=%s force=%s" % (inp["keep"], inp["force"])
            d[key] = d.get(key, 0) + 1
    return d
