"""C52 -- format upgrades and reconfigurations preserve history and trees.

Tie T: Reconfigure._plan_changes / _set_use_shared / changes_planned are regenerated from
breezy/reconfigure.py by py2coq (class mode) on every run (coq/Gen/Reconfigure.v); Theory/Reconf52Gen.v
proves the generated programs equal to the hand functions of Model/Reconf52.v on every input.
Tie H: Reconfigure.apply (+ the factories, _check, _select_bind_location) and the upgrade driver
(upgrade.upgrade, Convert, ConvertMetaToMeta, ConvertMetaToColo, branch/tree converters) are hand
models; every case builds the described world in real 2a/knit/pack/... control directories, runs the
real code and compares the complete observable state afterwards with the model.

Two kinds of cases:
  reconf   a world (location + optional outer shared repository + up to three other branches, all
           holding subsets of one generated revision graph), a factory, new_bound_location, force
  upgrade  a control directory in a source format with history/tags/tree changes, a target format
"""
import hashlib
import json
import os
import shutil
import signal

import daglib
from daglib import rid, idx
from vlib import Tag, Err, coq_bool, coq_list, coq_nat, coq_option
import py2coq

PROP = "C52"
COQ = {
    "property_file": "Properties/C52.v",
    "imports": "From BV Require Import Lib.Dag Model.Reconf52 Model.Upgrade52.",
}
META = {
    "level": "translation_validation",
    "title": "Format upgrades and reconfigurations preserve history and trees",
    "technique": ("Coq theorems over (a) the planning kernel of Reconfigure regenerated from the source by py2coq and proved equal to "
                  "the hand function on its whole (finite) input domain, (b) a hand model of Reconfigure.apply on an abstract world with "
                  "unbounded revision sets/tags, (c) a specification-level model of the upgrade driver; all tied to the code by running the "
                  "real factories/apply()/upgrade() on scratch control directories and comparing the complete state afterwards"),
    "level_text": ("refinement style (P-spec): every planned action list reaches the requested layout; tip, tree content and pending changes, "
                   "and every revision stored anywhere in the world are preserved by every completed (factory, world) pair -- proved for all "
                   "worlds by finite case analysis over the layout with symbolic revision sets and tags; revisions reachable from the tip and "
                   "the pending merges of a kept tree stay in the branch's repository (proved when the location ends with a branch of its own); "
                   "refusals by a factory, by _check or by the early bind lookup change nothing; tags are REFUTED in the faithful model "
                   "(to_lightweight_checkout, replayed on the real code) and proved under an executable guard; the upgrade driver carries the "
                   "payload through, ends in the target format and terminates on every combination of known formats. Six defects found by "
                   "this check were repaired in /repo (ea08d31, 300cbf1, 00bc7de, e09d9b1, 69d43de, bcc4656); their witnesses are regression inputs."),
    "level_note": ("Trusted: Coq kernel, vm_compute; py2coq class mode + Lib/PyImp.v for the planning kernel; the hand model of apply()/upgrade "
                   "(validated by the correspondence run on every run); Repository.fetch, Tags.merge_to, find_repository, create_*/destroy_* "
                   "as modelled (environment, compared through the observed end state); testaments are compared by the oracle only."),
    "design_ref": "DESIGN.md §5 C52",
    "trusted_base": ["tools/py2coq.py class mode + coq/Lib/PyImp.v (planning kernel, tie T)",
                     "hand model coq/Model/Reconf52.v of Reconfigure.apply/_check/_select_bind_location and the factories",
                     "hand model coq/Model/Upgrade52.v of upgrade.Convert/ConvertMetaToMeta/ConvertMetaToColo/get_converter",
                     "correspondence harness harness/props/c52.py, harness/daglib.py"],
    "assumptions": ["Repository.fetch(source, revision_id) copies exactly the ancestors of revision_id the source holds; fetch(source) copies everything (compared through the end state)",
                    "Tags.merge_to keeps the destination's value on a name clash; the reference/bind targets are not themselves bound",
                    "ControlDir.find_repository walks up and stops at the first repository (usable if it is the start or shared)",
                    "repository formats used have pairwise unrelated classes (isinstance == class equality); checked in setup",
                    "revision identity stands for the payload: copies made by fetch/CopyConverter are verbatim (checked by the oracle through testaments)",
                    "local bzr control directories only; no stacking, no colocated branches inside one control directory, no nested trees"],
    "rule": ("reconf: every valid (repository, outer, branch kind, tree kind) shape crossed with the eight factories (quick: a seeded third), "
             "plus seeded variations of bind locations/force; upgrade: every creatable source format x targets x layouts. "
             "non-trivial = apply() or a converter actually ran"),
}
SHARD = 120

HEADER = ("From Coq Require Import ZArith List String.\nImport ListNotations.\nOpen Scope string_scope.\n"
          "From BV Require Import Lib.PyImp.")
PLAN_FIELDS = ["_unbind", "_bind", "_destroy_reference", "_create_reference", "_destroy_branch", "_create_branch",
               "_destroy_tree", "_create_tree", "_create_repository", "_destroy_repository"]
_CHG = ("return self._unbind or self._bind or self._destroy_tree or self._create_tree or self._destroy_reference "
        "or self._create_branch or self._create_repository or self._create_reference or self._destroy_repository")
_CHG_TERM = "(SReturn " + "".join('(EOr (EField "%s") ' % f for f in
                                  ["_unbind", "_bind", "_destroy_tree", "_create_tree", "_destroy_reference",
                                   "_create_branch", "_create_repository", "_create_reference"]) + \
            '(EField "_destroy_repository")' + ")" * 9
RC_SPEC = dict(
    classname="Reconfigure", collab="_no_collaborator_", prefix="rc",
    fields=PLAN_FIELDS + ["repository", "local_repository", "referenced_branch", "local_branch", "tree",
                          "repo_is_local", "repo_is_shared", "bound_location"],
    exceptions=["ReconfigurationNotSupported"],
    methods={"_plan_changes": ["want_tree", "want_branch", "want_bound", "want_reference"],
             "_set_use_shared": ["use_shared"], "changes_planned": []},
    exp_map={"self.repository.user_url == self.controldir.user_url": '(EField "repo_is_local")',
             "self.repository.is_shared()": '(EField "repo_is_shared")',
             "self.local_branch.get_bound_location() is None": '(EEq (EField "bound_location") ENone)',
             "self.local_branch.get_bound_location() is not None": '(ENe (EField "bound_location") ENone)',
             "want_branch is True": '(EEq (EArg "want_branch") (EBool true))'},
    stmt_map={_CHG: _CHG_TERM})


def translate(repo, coqdir):
    return py2coq.translate_class(repo, "breezy/reconfigure.py", RC_SPEC,
                                  os.path.join(coqdir, "Gen", "Reconfigure.v"), HEADER)


TARGETS = ["branch", "tree", "checkout", "lightweight", "use-shared", "standalone", "trees-on", "trees-off"]
COQ_TARGET = {"branch": "TBranch", "tree": "TTree", "checkout": "TCheckout", "lightweight": "TLightweight",
              "use-shared": "TUseShared", "standalone": "TStandalone", "trees-on": "(TTrees true)",
              "trees-off": "(TTrees false)"}
WANTS = {"branch": (False, True, False, False), "tree": (True, True, False, False),
         "checkout": (True, True, True, False), "lightweight": (True, False, False, True)}
PLACES = ["inner", "sib", "far"]
NTAGS = 3
DAGS = [
    [[], [0], [1], [1], [2, 3], [4]],
    [[], [0], [0], [1, 2], [3], [2], [4, 5]],
    [[], [0], [1], [2]],
    [[], [0], [0], [2], [1]],
]
# change ids of a working tree: 1 = content of 'f' modified, 2 = new file added, 3 = new directory added
NEWFILE = "n-é x"
NEWDIR = "d́ir"

_state = {}
_PRE = {}      # initial directories of upgrade cases as observed by impl (model_term runs after teardown)


# =====================================================================================
# setup
# =====================================================================================

def _ensure():
    if _state.get("ready"):
        return
    import tempfile
    import breezy
    import breezy.bzr  # noqa: F401
    from breezy import ui, trace, lockdir
    os.environ.setdefault("BRZ_EMAIL", "Verif <verif@example.com>")
    if "dir" not in _state:
        _state["dir"] = tempfile.mkdtemp(prefix="verif-C52-lazy-")
        _state["own_dir"] = True
    trace.be_quiet(True)
    import logging
    logging.getLogger("brz").setLevel(logging.CRITICAL)     # "conversion error: ..." warnings of refused upgrades
    ui.ui_factory = ui.SilentUIFactory()
    try:
        lockdir._DEFAULT_TIMEOUT_SECONDS = 0
    except Exception:
        pass
    _state.update(ready=True, n=0, src={})
    _check_format_classes()


def setup(scratch):
    _state.clear()
    _state["dir"] = scratch
    _ensure()


def teardown():
    if _state.get("own_dir"):
        shutil.rmtree(_state["dir"], ignore_errors=True)
    _state.clear()


def _F(name):
    from breezy import controldir
    return controldir.format_registry.make_controldir(name)


def _source_repo(gi):
    """The revisions of DAGS[gi], built once, from which every repository of a case is filled."""
    if gi not in _state["src"]:
        from breezy.transport import get_transport
        p = os.path.join(_state["dir"], "src%d" % gi)
        os.makedirs(p)
        br = daglib.build_history(DAGS[gi], get_transport(p))
        _state["src"][gi] = br.repository.controldir.root_transport.base
    from breezy.repository import Repository
    return Repository.open(_state["src"][gi])


# =====================================================================================
# reconf: world generation
# =====================================================================================

def _closure(g, heads):
    return sorted(daglib.ancestors(g, list(heads))) if heads else []


def _place_repo_key(world, place):
    """Which repository a branch at `place` uses: 'own:<place>', 'loc', 'outer' or None (unresolvable)."""
    o = world["others"][place]
    if o["own"]:
        return "own:%d" % place
    if place == 0:
        if world["repo"] is not None:
            return "loc" if world["repo"]["shared"] else None
        return "outer" if world["outer"] is not None else None
    if place == 1:
        return "outer" if world["outer"] is not None else None
    return None


def _loc_repo_key(world):
    if world["repo"] is not None:
        return "loc"
    if world["outer"] is not None:
        return "outer"
    return None


def gen_world(rng, repo_kind, outer, branch_kind, tree_kind, gi=None):
    """repo_kind: none|unshared|shared; outer: bool; branch_kind: none|local|bound|oldbound|ref0|ref1|ref2;
    tree_kind: none|clean|dirty|merge.  Returns a world dict or None when the shape is impossible."""
    gi = rng.randrange(len(DAGS)) if gi is None else gi
    g = DAGS[gi]
    n = len(g)
    w = {"gi": gi,
         "repo": None if repo_kind == "none" else {"shared": repo_kind == "shared", "trees": rng.random() < 0.5, "revs": []},
         "outer": {"trees": rng.random() < 0.5, "revs": []} if outer else None,
         "branch": None, "tree": None, "others": [None, None, None]}
    if branch_kind in ("local", "bound", "oldbound") and _loc_repo_key(w) is None:
        return None
    # other branches
    want_place = int(branch_kind[3]) if branch_kind.startswith("ref") else None
    for place in range(3):
        p_exist = (0.45, 0.6, 0.85)[place]
        if place == want_place or rng.random() < p_exist:
            o = {"tip": None, "tags": {}, "own": place == 2 or rng.random() < 0.35}
            w["others"][place] = o
            if _place_repo_key(w, place) is None:
                o["own"] = True
    if branch_kind in ("bound", "oldbound") and not any(w["others"]):
        w["others"][2] = {"tip": None, "tags": {}, "own": True}
    exist = [i for i in range(3) if w["others"][i] is not None]
    # the location's branch
    main_tip = rng.choice([None] + list(range(n)) * 3) if rng.random() < 0.15 else rng.randrange(n)

    def rloc(p_none=0.5, p_bad=0.12):
        r = rng.random()
        if r < p_none or not exist:
            return 3 if rng.random() < p_bad else None
        return rng.choice(exist)
    if branch_kind in ("local", "bound", "oldbound"):
        bloc = None
        if branch_kind == "bound":
            bloc = [True, rng.choice(exist)]
        elif branch_kind == "oldbound":
            bloc = [False, rng.choice(exist)]
        w["branch"] = {"local": {"tip": main_tip, "tags": {}, "bloc": bloc, "push": rloc(), "parent": rloc()}}
    elif want_place is not None:
        w["branch"] = {"ref": want_place}
    # tips of the others: often in sync with the location's branch
    for place in exist:
        o = w["others"][place]
        if place == want_place:
            o["tip"] = main_tip
        elif rng.random() < 0.55:
            o["tip"] = main_tip
        else:
            o["tip"] = rng.choice([None] + list(range(n)) * 4)
    # tags (values anywhere in the graph; clashes between the location and the others are wanted)
    def rtags():
        return {str(t): rng.randrange(n) for t in range(NTAGS) if rng.random() < 0.5}
    if w["branch"] and "local" in w["branch"]:
        w["branch"]["local"]["tags"] = rtags()
    for place in exist:
        w["others"][place]["tags"] = rtags()
    # tree
    if tree_kind != "none":
        if w["branch"] is None:
            return None
        merges = []
        changes = []
        if tree_kind == "merge" and main_tip is None:
            tree_kind = "dirty"
        cand = [] if main_tip is None else [r for r in range(n) if r not in daglib.ancestors(g, [main_tip])]
        if tree_kind == "merge" and not cand:
            if rng.random() < 0.7:          # prefer a tip that leaves something to merge
                tips = [t for t in range(n) if len(daglib.ancestors(g, [t])) < n]
                main_tip = rng.choice(tips)
                if w["branch"] and "local" in w["branch"]:
                    w["branch"]["local"]["tip"] = main_tip
                for place in exist:
                    if place == want_place or rng.random() < 0.5:
                        w["others"][place]["tip"] = main_tip
                cand = [r for r in range(n) if r not in daglib.ancestors(g, [main_tip])]
            else:
                tree_kind = "dirty"
        if tree_kind == "merge":
            merges = [rng.choice(cand)]     # set_parent_ids drops parents that are ancestors of the basis
            if rng.random() < 0.4:
                changes = [2]
        elif tree_kind == "dirty":
            pool = [2, 3] if main_tip is None else [1, 2, 3]
            changes = sorted(rng.sample(pool, rng.randint(1, len(pool))))
        w["tree"] = {"merges": merges, "changes": changes}
    # repository contents: what the branches/trees need, plus extras
    need = {}

    def req(key, revs):
        need.setdefault(key, set()).update(r for r in revs if r is not None)
    lk = _loc_repo_key(w)
    if w["branch"] and "local" in w["branch"]:
        req(lk, [main_tip] + (w["tree"]["merges"] if w["tree"] else []))
    for place in exist:
        req(_place_repo_key(w, place), [w["others"][place]["tip"]])
    if want_place is not None and w["tree"]:
        req(_place_repo_key(w, want_place), w["tree"]["merges"])
    for key in ["loc", "outer"] + ["own:%d" % p for p in exist if w["others"][p]["own"]]:
        if (key == "loc" and w["repo"] is None) or (key == "outer" and w["outer"] is None):
            continue
        heads = set(need.get(key, ()))
        for _ in range(rng.choice([0, 0, 1, 2])):
            heads.add(rng.randrange(n))
        if key == "loc" and rng.random() < 0.6:
            heads.add(n - 1)        # the doomed repository usually holds more than the tip's ancestry
        revs = _closure(g, heads)
        if key == "loc":
            w["repo"]["revs"] = revs
        elif key == "outer":
            w["outer"]["revs"] = revs
        else:
            w["others"][int(key[4:])]["own"] = revs
    for place in exist:
        if w["others"][place]["own"] is False:
            w["others"][place]["own"] = None
        elif w["others"][place]["own"] is True:
            w["others"][place]["own"] = []
    return w


SHAPES = [(r, o, b, t)
          for r in ("none", "unshared", "shared") for o in (False, True)
          for b in ("none", "local", "bound", "oldbound", "ref0", "ref1", "ref2")
          for t in ("none", "clean", "dirty", "merge")]


def _reconf_case(rng, shape, target, nb="auto", force=None, gi=None):
    w = gen_world(rng, *shape, gi=gi)
    if w is None:
        return None
    exist = [i for i in range(3) if w["others"][i] is not None]
    if nb == "auto":
        r = rng.random()
        if target in ("checkout", "lightweight") and exist and r < 0.6:
            nb = rng.choice(exist)
        elif r < 0.08:
            nb = 3
        else:
            nb = None
    if force is None:
        force = rng.random() < 0.15
    return {"kind": "reconf", "world": w, "target": target, "nb": nb, "force": bool(force)}


def _w(gi=0, repo=None, outer=None, branch=None, tree=None, others=(None, None, None)):
    return {"gi": gi, "repo": repo, "outer": outer, "branch": branch, "tree": tree, "others": list(others)}


def corpus():
    g0 = list(range(len(DAGS[0])))
    out = []
    # W1 (regression, fixed 300cbf1): to_standalone of a tree with a pending merge inside a shared repository
    out.append({"kind": "reconf", "target": "standalone", "nb": None, "force": False, "world": _w(
        outer={"trees": True, "revs": g0},
        branch={"local": {"tip": 2, "tags": {}, "bloc": None, "push": None, "parent": None}},
        tree={"merges": [3], "changes": []})})
    # W2 (regression, fixed ea08d31; now refused with NotBranchError): lightweight checkout at the root of a shared repository whose branch lives inside it -> use-shared
    out.append({"kind": "reconf", "target": "use-shared", "nb": None, "force": False, "world": _w(
        repo={"shared": True, "trees": True, "revs": g0}, branch={"ref": 0}, tree={"merges": [], "changes": [1]},
        others=({"tip": 5, "tags": {"0": 1}, "own": None}, None, None))})
    # W3 (finding): to_lightweight_checkout with a tag clash
    out.append({"kind": "reconf", "target": "lightweight", "nb": 2, "force": False, "world": _w(
        repo={"shared": False, "trees": True, "revs": g0},
        branch={"local": {"tip": 4, "tags": {"0": 2, "1": 4}, "bloc": None, "push": None, "parent": None}},
        tree={"merges": [], "changes": [1]},
        others=(None, None, {"tip": 4, "tags": {"0": 1}, "own": _closure(DAGS[0], [4])}))})
    # W4 (regression, fixed 00bc7de): to_checkout without any bind location: NoBindLocation before anything is changed
    out.append({"kind": "reconf", "target": "checkout", "nb": None, "force": False, "world": _w(
        repo={"shared": False, "trees": True, "revs": _closure(DAGS[0], [4])},
        branch={"local": {"tip": 4, "tags": {"2": 0}, "bloc": None, "push": None, "parent": None}},
        others=(None, None, {"tip": 1, "tags": {}, "own": [0, 1]}))})
    # W5: checkout -> lightweight checkout (unbind of a destroyed branch), in sync
    out.append({"kind": "reconf", "target": "lightweight", "nb": None, "force": False, "world": _w(
        repo={"shared": False, "trees": True, "revs": g0},
        branch={"local": {"tip": 5, "tags": {"1": 3}, "bloc": [True, 2], "push": None, "parent": None}},
        tree={"merges": [], "changes": [1, 2]},
        others=(None, None, {"tip": 5, "tags": {}, "own": g0}))})
    # W6 (regression, fixed 300cbf1): lightweight checkout -> tree with a pending merge known only to the referenced repository
    out.append({"kind": "reconf", "target": "tree", "nb": None, "force": False, "world": _w(
        branch={"ref": 2}, tree={"merges": [3], "changes": []},
        others=(None, None, {"tip": 2, "tags": {"0": 0}, "own": g0}))})
    # W7: to_use_shared must fetch EVERYTHING out of the doomed repository (r3..r5 are not ancestors of the tip)
    out.append({"kind": "reconf", "target": "use-shared", "nb": None, "force": False, "world": _w(
        repo={"shared": False, "trees": True, "revs": g0}, outer={"trees": True, "revs": [0]},
        branch={"local": {"tip": 2, "tags": {"0": 5}, "bloc": None, "push": None, "parent": None}},
        tree={"merges": [], "changes": [2]})})
    # W8: the same for to_lightweight_checkout (fetch into the reference's repository)
    out.append({"kind": "reconf", "target": "lightweight", "nb": 2, "force": False, "world": _w(
        repo={"shared": False, "trees": True, "revs": g0},
        branch={"local": {"tip": 2, "tags": {}, "bloc": None, "push": None, "parent": None}},
        tree={"merges": [], "changes": []},
        others=(None, None, {"tip": 2, "tags": {}, "own": [0, 1, 2]}))})
    # W9/W10: _select_bind_location prefers the push location to the parent, the old bound location to both
    for bloc, want in ((None, "push"), ([False, 0], "old")):
        out.append({"kind": "reconf", "target": "checkout", "nb": None, "force": False, "world": _w(
            repo={"shared": False, "trees": True, "revs": g0},
            branch={"local": {"tip": 4, "tags": {}, "bloc": bloc, "push": 1, "parent": 2}},
            tree={"merges": [], "changes": []},
            others=({"tip": 4, "tags": {}, "own": g0}, {"tip": 4, "tags": {}, "own": g0}, {"tip": 4, "tags": {}, "own": g0}))})
    # W11 (finding): to_standalone of a lightweight checkout whose branch lives INSIDE it and uses the outer shared
    # repository: the new (empty, unshared) repository cuts that branch off from its repository
    out.append({"kind": "reconf", "target": "standalone", "nb": None, "force": False, "world": _w(
        outer={"trees": False, "revs": [0, 1, 2, 3]}, branch={"ref": 0}, tree={"merges": [], "changes": [1]},
        others=({"tip": 3, "tags": {"1": 0}, "own": None}, None, None))})
    # upgrade regressions (fixed e09d9b1, 69d43de): colo target on an old directory; lowering the tree format
    out.append({"kind": "upgrade", "src": "1.14-rich-root", "dst": "development-colo", "layout": "tree", "clean_up": False,
                "nrev": 2, "tags": {}, "changes": [], "merge": False, "locs": [None, None, None]})
    out.append({"kind": "upgrade", "src": "1.14", "dst": "1.9", "layout": "tree", "clean_up": False,
                "nrev": 2, "tags": {}, "changes": [], "merge": False, "locs": [None, None, None]})
    return out


# ---- upgrade cases ----------------------------------------------------------------------
# name -> (colo, repo class id, rich root, tree references, branch format, tree format)
FORMATS = {
    "knit": (False, 1, False, False, 5, 3),
    "dirstate": (False, 1, False, False, 5, 4),
    "dirstate-tags": (False, 1, False, False, 6, 4),
    "pack-0.92": (False, 2, False, False, 6, 4),
    "rich-root": (False, 3, True, False, 6, 4),
    "rich-root-pack": (False, 4, True, False, 6, 4),
    "1.6": (False, 5, False, False, 7, 4),
    "1.6.1-rich-root": (False, 6, True, False, 7, 4),
    "1.9": (False, 7, False, False, 7, 4),
    "1.9-rich-root": (False, 8, True, False, 7, 4),
    "1.14": (False, 7, False, False, 7, 5),
    "1.14-rich-root": (False, 8, True, False, 7, 5),
    "2a": (False, 9, True, True, 7, 6),
    "development-colo": (True, 9, True, True, 7, 6),
}
REPO_CLASS = {1: "RepositoryFormatKnit1", 2: "RepositoryFormatKnitPack1", 3: "RepositoryFormatKnit4",
              4: "RepositoryFormatKnitPack4", 5: "RepositoryFormatKnitPack5", 6: "RepositoryFormatKnitPack5RichRoot",
              7: "RepositoryFormatKnitPack6", 8: "RepositoryFormatKnitPack6RichRoot", 9: "RepositoryFormat2a"}
BRANCH_CLASS = {5: "BzrBranchFormat5", 6: "BzrBranchFormat6", 7: "BzrBranchFormat7", 8: "BzrBranchFormat8"}
TREE_CLASS = {3: "WorkingTreeFormat3", 4: "WorkingTreeFormat4", 5: "WorkingTreeFormat5", 6: "WorkingTreeFormat6"}
HANG_SECONDS = 90


def _check_format_classes():
    """Environment assumption of Model/Upgrade52.v: the table above is what the registry creates and the
    repository format classes are unrelated by inheritance."""
    fs = {}
    for name, (colo, rid_, rich, tref, bf, tf) in FORMATS.items():
        f = _F(name)
        fs[name] = f
        got = (type(f).__name__ == "BzrDirMetaFormat1Colo", type(f.repository_format).__name__,
               bool(f.repository_format.rich_root_data), bool(f.repository_format.supports_tree_reference),
               type(f.get_branch_format()).__name__, type(f.workingtree_format).__name__)
        want = (colo, REPO_CLASS[rid_], rich, tref, BRANCH_CLASS[bf], TREE_CLASS[tf])
        if got != want:
            raise AssertionError("format table out of date for %s: %r != %r" % (name, got, want))
    for a in fs:
        for b in fs:
            ra, rb = fs[a].repository_format, fs[b].repository_format
            if isinstance(ra, type(rb)) != (FORMATS[a][1] == FORMATS[b][1]):
                raise AssertionError("repository format classes related: %s %s" % (a, b))


def _hangs(src, dst, layout):
    """Inputs the model predicts to diverge: none since the repairs e09d9b1 (colo target) and 69d43de (lowered tree
    format); every call runs under a 90 s alarm and a real divergence is reported by the oracle."""
    return False


def _upgrade_cases(rng, tier):
    names = list(FORMATS)
    targets = ["2a", "1.14", "1.14-rich-root", "1.9", "pack-0.92", "development-colo", "rich-root-pack", "dirstate-tags"]
    layouts = ["tree", "branch", "shared"]
    combos = []
    for src in names:
        for dst in targets:
            for layout in layouts:
                if _hangs(src, dst, layout):
                    continue
                combos.append((src, dst, layout))
    rng.shuffle(combos)
    # every source format to 2a always (quick: as a tree, and one other layout); the rest sampled in the quick tier
    must = [(s, "2a", l) for s in names for l in layouts if not _hangs(s, "2a", l)]
    if tier == "quick":
        must = [(s, "2a", "tree") for s in names] + [(s, "2a", rng.choice(["branch", "shared"])) for s in names[::2]]
    rest = [c for c in combos if c not in must]
    if tier == "quick":
        rest = rest[:14]
    for (src, dst, layout) in must + rest:
        yield {"kind": "upgrade", "src": src, "dst": dst, "layout": layout, "clean_up": rng.random() < 0.4,
               "nrev": rng.randint(1, 4), "tags": {str(t): rng.randint(1, 4) for t in range(2) if rng.random() < 0.6},
               "changes": sorted(rng.sample([1, 2, 3], rng.randint(0, 3))) if layout != "branch" else [],
               "merge": layout != "branch" and rng.random() < 0.4,
               "locs": [rng.choice([None, 1]), rng.choice([None, 2]), rng.choice([None, 3])]}


def _pref_cases(rng, tier):
    """Reconfigure._select_bind_location: every way of filling new/bound/old-bound/push/parent with
    DIFFERENT existing branches (and a missing one), for the two factories that use it."""
    import itertools
    gi = 0
    g = DAGS[gi]
    full = list(range(len(g)))
    combos = []
    for bloc in (None, [True, 0], [False, 0]):
        for push in (None, 1, 2, 3):
            for parent in (None, 1, 2, 3):
                if push is not None and push == parent and push != 3:
                    continue
                for nb in (None, 2):
                    combos.append((bloc, push, parent, nb))
    rng.shuffle(combos)
    if tier == "quick":
        combos = combos[:16]
    for k, (bloc, push, parent, nb) in enumerate(combos):
        tip = rng.choice([2, 4, 5])
        others = [{"tip": tip if rng.random() < 0.85 else 1, "tags": {}, "own": full} for _ in range(3)]
        yield {"kind": "reconf", "target": ("checkout", "lightweight")[k % 2], "nb": nb, "force": False,
               "world": _w(gi=gi, repo={"shared": rng.random() < 0.3, "trees": True, "revs": full},
                           outer={"trees": False, "revs": []} if rng.random() < 0.3 else None,
                           branch={"local": {"tip": tip, "tags": {}, "bloc": bloc, "push": push, "parent": parent}},
                           tree={"merges": [], "changes": []} if rng.random() < 0.5 else None, others=others)}


def cases(rng, tier):
    shapes = list(SHAPES)
    if tier == "quick":
        per_shape = 1
    else:
        per_shape = 4
    for k, shape in enumerate(shapes):
        ts = list(TARGETS)
        rng.shuffle(ts)
        if per_shape == 1:
            ts = [TARGETS[(k * 3 + k // 8) % 8]]      # every factory gets its share of the shapes
        for t in ts[:per_shape]:
            c = _reconf_case(rng, shape, t)
            if c is not None:
                yield c
    # variations of the bind-location preference and force on the layouts where they matter
    nvar = 40 if tier == "quick" else 300
    for _ in range(nvar):
        shape = (rng.choice(["none", "unshared", "shared"]), rng.random() < 0.5,
                 rng.choice(["local", "bound", "oldbound", "ref2", "ref1"]),
                 rng.choice(["none", "clean", "dirty", "merge"]))
        c = _reconf_case(rng, shape, rng.choice(["checkout", "lightweight", "checkout", "lightweight", "tree", "branch"]),
                         nb=rng.choice([None, None, None, 0, 1, 2, 3]), force=rng.random() < 0.3)
        if c is not None:
            yield c
    for c in _pref_cases(rng, tier):
        yield c
    for c in _upgrade_cases(rng, tier):
        yield c


# =====================================================================================
# reconf: the implementation
# =====================================================================================

def _paths(base):
    loc = os.path.join(base, "outer", "loc")
    return {"outer": os.path.join(base, "outer"), "loc": loc,
            0: os.path.join(loc, "inner"), 1: os.path.join(base, "outer", "sib"), 2: os.path.join(base, "far"),
            3: os.path.join(base, "nowhere")}


def _url(path):
    from breezy import urlutils
    return urlutils.local_path_to_url(path).rstrip("/") + "/"


def _fill(repo, src, revs, g):
    heads = daglib.heads(g, list(revs)) if revs else []
    for h in heads:
        repo.fetch(src, revision_id=rid(h))


def _set_tip(br, tip):
    with br.lock_write():
        if tip is None:
            br.set_last_revision_info(0, b"null:")
        else:
            br.generate_revision_history(rid(tip))


def _set_tags(br, tags):
    with br.lock_write():
        br.tags._set_tag_dict({"t%s" % k: rid(v) for k, v in tags.items()})


def _apply_changes(wt, changes):
    base = wt.basedir
    if 1 in changes:
        with open(os.path.join(base, "f"), "wb") as f:
            f.write(b"locally modified \xc3\xa9\r\n")
    if 2 in changes:
        with open(os.path.join(base, NEWFILE), "wb") as f:
            f.write(b"new\n")
        wt.add([NEWFILE], ids=[b"new-id"])
    if 3 in changes:
        os.mkdir(os.path.join(base, NEWDIR))
        wt.add([NEWDIR], ids=[b"dir-id"])


def build_world(w, base):
    import breezy.bzr  # noqa: F401
    g = DAGS[w["gi"]]
    src = _source_repo(w["gi"])
    P = _paths(base)
    F = _F("2a")
    os.makedirs(P["outer"])
    if w["outer"] is not None:
        r = F.initialize(P["outer"]).create_repository(shared=True)
        r.set_make_working_trees(w["outer"]["trees"])
        _fill(r, src, w["outer"]["revs"], g)
    os.makedirs(P["loc"])
    cd = F.initialize(P["loc"])
    if w["repo"] is not None:
        r = cd.create_repository(shared=w["repo"]["shared"])
        r.set_make_working_trees(w["repo"]["trees"])
        _fill(r, src, w["repo"]["revs"], g)
    for place in range(3):
        o = w["others"][place]
        if o is None:
            continue
        os.makedirs(P[place])
        ocd = F.initialize(P[place])
        if o["own"] is not None:
            r = ocd.create_repository(shared=False)
            _fill(r, src, o["own"], g)
        br = ocd.create_branch()
        _set_tip(br, o["tip"])
        _set_tags(br, o["tags"])
    b = w["branch"]
    if b is not None and "local" in b:
        lb = b["local"]
        br = cd.create_branch()
        _set_tip(br, lb["tip"])
        _set_tags(br, lb["tags"])
        with br.lock_write():
            if lb["push"] is not None:
                br.set_push_location(_url(P[lb["push"]]))
            if lb["parent"] is not None:
                br.set_parent(_url(P[lb["parent"]]))
            if lb["bloc"] is not None:
                br.set_bound_location(_url(P[lb["bloc"][1]]))
                if not lb["bloc"][0]:
                    br.set_bound_location(None)
    elif b is not None:
        from breezy.branch import Branch
        cd.set_branch_reference(Branch.open(P[b["ref"]]))
    if w["tree"] is not None:
        wt = cd.create_workingtree()
        with wt.lock_tree_write():
            _apply_changes(wt, w["tree"]["changes"])
            if w["tree"]["merges"]:
                wt.set_parent_ids([wt.last_revision()] + [rid(m) for m in w["tree"]["merges"]])
    return P


def _loc_of(url, P):
    if url is None:
        return None
    from breezy import urlutils
    try:
        path = urlutils.local_path_from_url(url)
    except Exception:
        return 9
    path = os.path.normpath(path)
    for k in (0, 1, 2, 3):
        if os.path.normpath(P[k]) == path:
            return k
    return 9


def _revs_of(repo, n):
    with repo.lock_read():
        return [bool(repo.has_revision(rid(i))) for i in range(n)]


def _tags_of(br):
    d = br.tags.get_tag_dict()
    return [idx(d["t%d" % t]) if ("t%d" % t) in d else None for t in range(NTAGS)], sorted(d.items())


def _decode_changes(wt):
    out = []
    with wt.lock_read():
        for ch in wt.iter_changes(wt.basis_tree()):
            p = ch.path[1] if ch.path[1] is not None else ch.path[0]
            if p == "":
                continue
            if p == "f" and ch.versioned == (True, True) and ch.changed_content and ch.path[0] == "f":
                out.append(1)
            elif p == NEWFILE and ch.versioned == (False, True):
                out.append(2)
            elif p == NEWDIR and ch.versioned == (False, True):
                out.append(3)
            else:
                out.append(90)
    return sorted(out)


def _tree_snapshot(wt):
    """Everything the property calls 'working tree content and pending changes'."""
    snap = {}
    with wt.lock_read():
        snap["parents"] = [p.decode() for p in wt.get_parent_ids()]
        chg = []
        nonroot = 0
        for ch in wt.iter_changes(wt.basis_tree()):
            chg.append(repr((ch.file_id, ch.path, ch.changed_content, ch.versioned, ch.kind, ch.executable)))
            if (ch.path[1] if ch.path[1] is not None else ch.path[0]) != "":
                nonroot += 1      # the root of a tree on the null revision is not an uncommitted change
        snap["changes"] = sorted(chg)
        snap["nonroot_changes"] = nonroot
        files = {}
        for path, entry in wt.iter_entries_by_dir():
            if entry.kind == "file":
                try:
                    files[path] = hashlib.sha1(wt.get_file_text(path)).hexdigest()
                except Exception as e:   # missing file
                    files[path] = "ERR " + type(e).__name__
            else:
                files[path] = entry.kind
        snap["files"] = sorted(files.items())
        snap["conflicts"] = len(wt.conflicts())
    return snap


def _testaments(repo, acc):
    from breezy.bzr.testament import StrictTestament3
    with repo.lock_read():
        for revid in repo.all_revision_ids():
            sha = StrictTestament3.from_revision(repo, revid).as_sha1()
            k = revid.decode()
            if k in acc and acc[k] != sha:
                acc[k] = "INCONSISTENT"
            else:
                acc.setdefault(k, sha)


def observe_world(P, n):
    """(model observation, oracle facts) of the world on disk, through fresh objects."""
    from breezy import controldir, errors
    from breezy.branch import Branch
    testaments = {}

    def repo_obs(path, with_flags=True):
        try:
            cd = controldir.ControlDir.open(path)
            r = cd.open_repository()
        except (errors.NotBranchError, errors.NoRepositoryPresent):
            return None
        _testaments(r, testaments)
        if with_flags:
            return [bool(r.is_shared()), bool(r.make_working_trees()), _revs_of(r, n)]
        return _revs_of(r, n)
    facts = {}
    m_repo = repo_obs(P["loc"])
    m_outer = repo_obs(P["outer"])
    cd = controldir.ControlDir.open(P["loc"])
    try:
        ref = cd.get_branch_reference()
    except errors.NotBranchError:
        ref = None
    br = None
    if ref is not None:
        m_branch = [Tag("ref"), _loc_of(ref, P)]
        try:
            br = cd.open_branch()
        except (errors.NotBranchError, errors.NoRepositoryPresent):
            br = None
    else:
        try:
            br = cd.open_branch()
        except errors.NotBranchError:
            br = None
        if br is None:
            m_branch = Tag("none")
        else:
            bound = br.get_bound_location()
            old = br.get_old_bound_location()
            if bound is not None:
                bl = [True, _loc_of(bound, P)]
            elif old is not None:
                bl = [False, _loc_of(old, P)]
            else:
                bl = None
            m_branch = [Tag("local"), idx(br.last_revision()), _tags_of(br)[0], bl,
                        _loc_of(br.get_push_location(), P), _loc_of(br.get_parent(), P)]
    if br is not None:
        facts["tip"] = br.last_revision().decode()
        facts["revno_ok"] = True
        facts["tags"] = [(k, v.decode()) for k, v in _tags_of(br)[1]]
        try:
            facts["eff_revs"] = _revs_of(br.repository, n)
        except Exception as e:
            facts["eff_revs"] = "ERR " + type(e).__name__
    m_tree = None
    try:
        wt = cd.open_workingtree()
    except (errors.NoWorkingTree, errors.NotBranchError, errors.NoRepositoryPresent):
        wt = None
    if wt is not None:
        m_tree = [[idx(p) for p in wt.get_parent_ids()], _decode_changes(wt)]
        facts["tree"] = _tree_snapshot(wt)
    m_others = []
    for place in range(3):
        try:
            ob = Branch.open(P[place])
            o_tip, o_tags = idx(ob.last_revision()), _tags_of(ob)[0]
        except errors.NotBranchError:
            m_others.append(None)
            continue
        except errors.NoRepositoryPresent:
            o_tip, o_tags = _raw_branch(P[place])      # the branch files are there, its repository is gone
        m_others.append([o_tip, o_tags, repo_obs(P[place], with_flags=False)])
    facts["testaments"] = testaments
    return [m_repo, m_outer, m_branch, m_tree] + m_others, facts


def _raw_branch(path):
    """Tip and tags of a format-7 branch read from its files (used when its repository cannot be opened)."""
    import fastbencode
    bdir = os.path.join(path, ".bzr", "branch")
    with open(os.path.join(bdir, "last-revision"), "rb") as f:
        tip = f.read().split()[1]
    tags = {}
    tp = os.path.join(bdir, "tags")
    if os.path.exists(tp):
        raw = open(tp, "rb").read()
        if raw:
            tags = fastbencode.bdecode(raw)
    return idx(tip), [idx(tags[b"t%d" % t]) if (b"t%d" % t) in tags else None for t in range(NTAGS)]


def _plan_obs(rc):
    return [bool(getattr(rc, f)) for f in
            ["_unbind", "_bind", "_destroy_reference", "_create_reference", "_destroy_branch", "_create_branch",
             "_destroy_tree", "_create_tree", "_create_repository", "_destroy_repository"]] + [rc._repository_trees]


def impl_reconf(inp):
    from breezy import controldir, reconfigure
    w = inp["world"]
    n = len(DAGS[w["gi"]])
    _state["n"] += 1
    base = os.path.join(_state["dir"], "case%d" % _state["n"])
    os.makedirs(base)
    try:
        P = build_world(w, base)
        before_m, before_f = observe_world(P, n)
        cd = controldir.ControlDir.open(P["loc"])
        nb = _url(P[inp["nb"]]) if inp["nb"] is not None else None
        t = inp["target"]
        R = reconfigure.Reconfigure
        plan = None
        applied = None
        try:
            if t == "branch":
                rc = R.to_branch(cd)
            elif t == "tree":
                rc = R.to_tree(cd)
            elif t == "checkout":
                rc = R.to_checkout(cd, nb)
            elif t == "lightweight":
                rc = R.to_lightweight_checkout(cd, nb)
            elif t == "use-shared":
                rc = R.to_use_shared(cd)
            elif t == "standalone":
                rc = R.to_standalone(cd)
            else:
                rc = R.set_repository_trees(cd, t == "trees-on")
            plan = _plan_obs(rc)
        except BaseException as e:   # noqa: B902 -- pyo3 panics are BaseException
            plan = Err(type(e).__name__)
            rc = None
        if rc is not None:
            try:
                rc.apply(force=inp["force"])
                applied = Tag("ok")
            except BaseException as e:   # noqa: B902
                applied = Err(type(e).__name__)
        after_m, after_f = observe_world(P, n)
        return {"model": [plan, applied, after_m], "before_m": before_m, "before": before_f, "after": after_f}
    finally:
        shutil.rmtree(base, ignore_errors=True)


# =====================================================================================
# upgrade: the implementation
# =====================================================================================

class _Hang(BaseException):
    pass


def _alarm(signum, frame):
    raise _Hang()


def _format_ids(cd):
    """(colo, repo id, branch format, tree format) of a control directory, None where absent."""
    from breezy import errors
    rev = {v: k for k, v in REPO_CLASS.items()}
    brev = {v: k for k, v in BRANCH_CLASS.items()}
    trev = {v: k for k, v in TREE_CLASS.items()}
    colo = type(cd._format).__name__ == "BzrDirMetaFormat1Colo"
    try:
        r = rev.get(type(cd.open_repository()._format).__name__, 99)
    except errors.NoRepositoryPresent:
        r = None
    try:
        b = brev.get(type(cd.open_branch(unsupported=True)._format).__name__, 99)
    except errors.NotBranchError:
        b = None
    try:
        t = trev.get(type(cd.open_workingtree(recommend_upgrade=False)._format).__name__, 99)
    except (errors.NoWorkingTree, errors.NotBranchError):
        t = None
    return colo, r, b, t


def _observe_cdir(path, ulocs):
    """Model observation + oracle facts of one control directory."""
    from breezy import controldir, errors
    from breezy.bzr.testament import Testament
    cd = controldir.ControlDir.open_unsupported(path)
    colo, r, b, t = _format_ids(cd)
    facts = {}
    m_repo = None
    if r is not None:
        repo = cd.open_repository()
        with repo.lock_read():
            ids = sorted(repo.all_revision_ids())
            facts["testaments"] = {i.decode(): Testament.from_revision(repo, i).as_sha1().decode() for i in ids}
            facts["texts"] = {}
            for i in ids:
                tree = repo.revision_tree(i)
                facts["texts"][i.decode()] = sorted(
                    (p, e.kind, hashlib.sha1(tree.get_file_text(p)).hexdigest() if e.kind == "file" else "")
                    for p, e in tree.iter_entries_by_dir())
        m_repo = [r, [int(i[1:]) for i in ids]]
    m_branch = None
    if b is not None:
        br = cd.open_branch(unsupported=True)
        tags = sorted((int(k[1:]), int(v[1:])) for k, v in br.tags.get_tag_dict().items()) if br.supports_tags() else []

        def lo(u):
            if u is None:
                return None
            if u == "":
                return 0          # an empty location string (not None)
            for k, v in ulocs.items():
                if u.rstrip("/") == v.rstrip("/"):
                    return k
            return 9
        tip = br.last_revision()
        m_branch = [b, [int(tip[1:]) if tip != b"null:" else 0, [list(x) for x in tags],
                        lo(br.get_parent()), lo(br.get_bound_location()), lo(br.get_push_location())]]
        facts["revno"] = br.revno()
    m_tree = None
    if t is not None:
        wt = cd.open_workingtree(recommend_upgrade=False)
        m_tree = [t, [int(p[1:]) for p in wt.get_parent_ids()], _decode_changes(wt)]
        facts["tree"] = _tree_snapshot(wt)
    backup = any(n.startswith("backup.bzr") for n in os.listdir(path))
    return [colo, m_repo, m_branch, m_tree, backup], facts


def _commit(wt, i):
    with open(os.path.join(wt.basedir, "f"), "wb") as f:
        f.write(b"%d\n" % i)
    if not wt.is_versioned("f"):
        wt.add(["f"], ids=[b"f-id"])
    uni = "naïve é"
    with open(os.path.join(wt.basedir, uni), "wb") as f:
        f.write(b"u%d \xff\n" % i)
    if not wt.is_versioned(uni):
        wt.add([uni], ids=[b"u-id"])
    return wt.commit("revision %d é\n second line " % i, rev_id=b"r%d" % i, timestamp=1000000000 + 100 * i + 0.5,
                     timezone=3600, committer="C é <c@example.com>", revprops={"k": "v é"})


def build_upgrade(inp, base):
    """Returns (main path, [dependent paths], ulocs)."""
    from breezy import controldir
    F = _F(inp["src"])
    ulocs = {1: _url(os.path.join(base, "elsewhere1")), 2: _url(os.path.join(base, "elsewhere2")),
             3: _url(os.path.join(base, "elsewhere3"))}
    main = os.path.join(base, "main")
    deps = []
    nrev = inp["nrev"]

    def populate(wt, first, count, merge_from=None):
        for i in range(first, first + count):
            _commit(wt, i)

    def decorate(br):
        with br.lock_write():
            if br.supports_tags() and inp["tags"]:
                br.tags._set_tag_dict({"t%s" % k: b"r%d" % min(v, nrev) for k, v in inp["tags"].items()})
            pa, bo, pu = inp["locs"]
            if pa is not None:
                br.set_parent(ulocs[pa])
            if pu is not None and FORMATS[inp["src"]][4] != 5:
                # a format-5 branch keeps its push location in locations.conf, not in the branch
                br.set_push_location(ulocs[pu])
            if bo is not None:
                br.set_bound_location(ulocs[bo])
    layout = inp["layout"]
    if layout in ("tree", "branch"):
        wt = controldir.ControlDir.create_standalone_workingtree(main, format=F)
        populate(wt, 1, nrev)
        if inp["merge"]:
            side = wt.controldir.sprout(os.path.join(base, "side")).open_workingtree()
            _commit(side, nrev + 1)
            wt.branch.repository.fetch(side.branch.repository, revision_id=b"r%d" % (nrev + 1))
            wt.set_parent_ids([wt.last_revision(), b"r%d" % (nrev + 1)])
        _apply_changes(wt, inp["changes"])
        decorate(wt.branch)
        if layout == "branch":
            wt.controldir.destroy_workingtree_metadata()
    else:
        os.makedirs(main)
        cd = F.initialize(main)
        cd.create_repository(shared=True)
        for k, name in enumerate(("dep-a", "dep-b")):
            p = os.path.join(main, name)
            br = controldir.ControlDir.create_branch_convenience(p, force_new_tree=(k == 0), format=F)
            if k == 0:
                wt = br.controldir.open_workingtree()
                populate(wt, 1, nrev)
                _apply_changes(wt, inp["changes"])
                if inp["merge"]:
                    side = wt.controldir.sprout(os.path.join(base, "side")).open_workingtree()
                    _commit(side, nrev + 1)
                    wt.branch.repository.fetch(side.branch.repository, revision_id=b"r%d" % (nrev + 1))
                    wt.set_parent_ids([wt.last_revision(), b"r%d" % (nrev + 1)])
                decorate(br)
            else:
                with br.lock_write():
                    br.generate_revision_history(b"r1")
            deps.append(p)
    return main, deps, ulocs


def impl_upgrade(inp):
    from breezy import upgrade
    _state["n"] += 1
    base = os.path.join(_state["dir"], "case%d" % _state["n"])
    os.makedirs(base)
    try:
        main, deps, ulocs = build_upgrade(inp, base)
        before = [_observe_cdir(p, ulocs) for p in [main] + deps]
        hang = False
        old = signal.signal(signal.SIGALRM, _alarm)
        signal.alarm(HANG_SECONDS)
        try:
            try:
                excs = upgrade.upgrade(_url(main), _F(inp["dst"]), clean_up=inp["clean_up"])
                names = [Err(type(e).__name__) for e in excs]
            except _Hang:
                hang = True
                names = [Err("Hang")]
        finally:
            signal.alarm(0)
            signal.signal(signal.SIGALRM, old)
        if hang:
            return {"model": [names, Err("Hang"), [b[0] for b in before[1:]]],
                    "before": [b[1] for b in before], "after": None, "before_m": [b[0] for b in before]}
        after = [_observe_cdir(p, ulocs) for p in [main] + deps]
        return {"model": [names, after[0][0], [a[0] for a in after[1:]]], "before": [b[1] for b in before],
                "after": [a[1] for a in after], "before_m": [b[0] for b in before]}
    finally:
        shutil.rmtree(base, ignore_errors=True)


def impl(inp):
    _ensure()
    if inp["kind"] == "reconf":
        out = impl_reconf(inp)
    else:
        out = impl_upgrade(inp)
    if inp["kind"] == "upgrade":
        _PRE[json.dumps(inp, sort_keys=True)] = out.get("before_m")
    return out


def impl_obs(inp, obs):
    if isinstance(obs, Err):
        return obs
    return obs["model"]


# =====================================================================================
# model terms
# =====================================================================================

def _c_opt_nat(v):
    return coq_option(v, coq_nat)


def _c_tags(tags):
    return coq_list(["(%s, %s)" % (coq_nat(int(k)), coq_nat(v)) for k, v in sorted(tags.items())])


def _c_revs(revs):
    return coq_list([coq_nat(r) for r in revs])


def coq_world(w):
    g = DAGS[w["gi"]]
    repo = "None" if w["repo"] is None else "(Some (mkRepo %s %s %s))" % (
        coq_bool(w["repo"]["shared"]), coq_bool(w["repo"]["trees"]), _c_revs(w["repo"]["revs"]))
    outer = "None" if w["outer"] is None else "(Some (mkRepo true %s %s))" % (
        coq_bool(w["outer"]["trees"]), _c_revs(w["outer"]["revs"]))
    b = w["branch"]
    if b is None:
        br = "BNone"
    elif "local" in b:
        lb = b["local"]
        bloc = "None" if lb["bloc"] is None else "(Some (%s, %s))" % (coq_bool(lb["bloc"][0]), coq_nat(lb["bloc"][1]))
        br = "(BLocal (mkLB %s %s %s %s %s))" % (_c_opt_nat(lb["tip"]), _c_tags(lb["tags"]), bloc,
                                                _c_opt_nat(lb["push"]), _c_opt_nat(lb["parent"]))
    else:
        br = "(BRef %s)" % coq_nat(b["ref"])
    tip = None
    if b is not None and "local" in b:
        tip = b["local"]["tip"]
    elif b is not None:
        tip = w["others"][b["ref"]]["tip"]
    if w["tree"] is None:
        tree = "None"
    else:
        parents = ([tip] if tip is not None else []) + list(w["tree"]["merges"])
        tree = "(Some (mkTree %s %s))" % (_c_revs(parents), _c_revs(w["tree"]["changes"]))
    others = []
    for o in w["others"]:
        if o is None:
            others.append("None")
        else:
            own = "None" if o["own"] is None else "(Some %s)" % _c_revs(o["own"])
            others.append("(Some (mkOB %s %s %s))" % (_c_opt_nat(o["tip"]), _c_tags(o["tags"]), own))
    return "(mkW %s %s %s %s %s %s)" % (daglib.coq_dag(g), repo, outer, br, tree, " ".join(others))


def _coq_cdir(colo, repo, branch, tree, backup):
    r = "None" if repo is None else "(Some (mkRF %s %s %s, %s))" % (
        coq_nat(repo[0]), coq_bool(repo[1]), coq_bool(repo[2]), _c_revs(repo[3]))
    if branch is None:
        b = "None"
    else:
        fmt, (tip, tags, pa, bo, pu) = branch
        b = "(Some (%s, mkBP %s %s %s %s %s))" % (
            coq_nat(fmt), coq_nat(tip), coq_list(["(%s, %s)" % (coq_nat(k), coq_nat(v)) for k, v in tags]),
            _c_opt_nat(pa), _c_opt_nat(bo), _c_opt_nat(pu))
    t = "None" if tree is None else "(Some (%s, mkTP %s %s))" % (coq_nat(tree[0]), _c_revs(tree[1]), _c_revs(tree[2]))
    return "(mkCD %s %s %s %s %s)" % (coq_bool(colo), r, b, t, coq_bool(backup))


def model_term(inp):
    if inp["kind"] == "reconf":
        return "(run_reconf %s %s %s %s)" % (COQ_TARGET[inp["target"]], coq_bool(inp["force"]),
                                           _c_opt_nat(inp["nb"]), coq_world(inp["world"]))
    # upgrade: the initial directories are described by what the implementation observed BEFORE the call
    pre = _PRE.get(json.dumps(inp, sort_keys=True))
    if pre is None:
        return None
    s, d = FORMATS[inp["src"]], FORMATS[inp["dst"]]
    dirs = []
    for (colo, repo, branch, tree, backup) in pre:
        rr = None if repo is None else (repo[0], s[2], s[3], repo[1])
        bb = None if branch is None else (branch[0], (branch[1][0], [tuple(x) for x in branch[1][1]],
                                                       branch[1][2], branch[1][3], branch[1][4]))
        tt = None if tree is None else (tree[0], tree[1], tree[2])
        dirs.append(_coq_cdir(colo, rr, bb, tt, backup))
    target = "(mkTF %s (mkRF %s %s %s) %s %s)" % (coq_bool(d[0]), coq_nat(d[1]), coq_bool(d[2]), coq_bool(d[3]),
                                                  coq_nat(d[4]), coq_nat(d[5]))
    return "(run_upgrade %s %s %s %s)" % (coq_bool(inp["clean_up"]), dirs[0], coq_list(dirs[1:]), target)


# =====================================================================================
# the property itself, evaluated on the implementation
# =====================================================================================

def _anc_in(g, tip, present):
    if tip is None:
        return []
    return [r for r in daglib.ancestors(g, [tip]) if r < len(present) and present[r]]


def oracle_reconf(inp, obs):
    w = inp["world"]
    g = DAGS[w["gi"]]
    bf, af = obs["before"], obs["after"]
    plan, applied, after_m = obs["model"]
    refused = isinstance(plan, Err) or isinstance(applied, Err)
    # O6: no revision stored anywhere in the world is lost or altered
    for k, sha in bf["testaments"].items():
        if sha == "INCONSISTENT":
            return "setup: inconsistent testaments before"
        if k not in af["testaments"]:
            return "revision-lost: %s is in no repository any more" % k
        if af["testaments"][k] != sha:
            return "testament-changed: %s" % k
    # O7: a refusal leaves the world unchanged
    if refused and obs["before_m"] != after_m:
        return "refusal-changed-state: %s left a modified location" % (plan if isinstance(plan, Err) else applied)
    if "tip" in bf:
        if "tip" not in af:
            return "branch-lost: the location shows no branch any more"
        unsynced_forced = inp["force"] and inp["target"] == "lightweight"
        # O1 tip
        if af["tip"] != bf["tip"] and not unsynced_forced:
            return "tip-changed: %s -> %s" % (bf["tip"], af["tip"])
        # O2 revisions reachable from the tip
        if isinstance(af["eff_revs"], str) or isinstance(bf["eff_revs"], str):
            return "repository-unusable: %s / %s" % (bf["eff_revs"], af["eff_revs"])
        tip = idx(bf["tip"].encode())
        if not unsynced_forced:
            for r in _anc_in(g, tip, bf["eff_revs"]):
                if not af["eff_revs"][r]:
                    return "ancestry-lost: r%d reachable from the tip is not in the branch's repository" % r
        # O3 tags
        at = dict(af["tags"])
        for k, v in bf["tags"]:
            if at.get(k) != v:
                return "tags-lost: tag %s was %s, now %s" % (k, v, at.get(k))
    # O4 tree content and pending changes
    if "tree" in bf:
        if "tree" in af:
            if af["tree"] != bf["tree"]:
                return "tree-changed: working tree content/pending changes differ"
        else:
            dirty = len(bf["tree"]["parents"]) > 1 or bf["tree"]["nonroot_changes"] > 0
            if dirty and not inp["force"]:
                return "tree-changes-destroyed: a tree with uncommitted changes was removed without force"
        # O5 the revisions of the pending merges stay available to the tree's branch
        if "tree" in af and not isinstance(af.get("eff_revs"), str) and not isinstance(bf.get("eff_revs"), str):
            for p in bf["tree"]["parents"]:
                r = idx(p.encode())
                if r is not None and bf["eff_revs"][r] and not af["eff_revs"][r]:
                    return "pending-merge-lost: tree parent r%d is no longer in the branch's repository" % r
    # O8 the requested layout is reached
    if not refused:
        t = inp["target"]
        if t in WANTS:
            wt_, wb, wbound, wref = WANTS[t]
            br = after_m[2]
            has_tree = after_m[3] is not None
            is_local = isinstance(br, list) and br[0] == "local"
            is_ref = isinstance(br, list) and br[0] == "ref"
            bound = is_local and br[3] is not None and br[3][0] is True
            if (has_tree, is_local, bound, is_ref) != (wt_, wb, wbound, wref):
                return "layout-not-reached: wanted %r got %r" % (WANTS[t], (has_tree, is_local, bound, is_ref))
        elif t == "use-shared" and after_m[0] is not None:
            return "layout-not-reached: still a local repository"
        elif t == "standalone" and after_m[0] is None:
            return "layout-not-reached: no local repository"
    return None


def oracle_upgrade(inp, obs):
    names, main_out, _dep_outs = obs["model"]
    if obs["after"] is None:
        return "upgrade-hang: upgrade(%s -> %s) did not finish" % (inp["src"], inp["dst"])
    d = FORMATS[inp["dst"]]
    for k, (bf, af) in enumerate(zip(obs["before"], obs["after"])):
        for key in ("testaments", "texts"):
            if key in bf:
                if key not in af:
                    return "repository-lost in directory %d" % k
                for rev, v in bf[key].items():
                    if rev not in af[key]:
                        return "revision-lost: %s (directory %d)" % (rev, k)
                    if af[key][rev] != v:
                        return "%s-changed: %s (directory %d)" % (key, rev, k)
        if bf.get("revno") != af.get("revno"):
            return "revno-changed in directory %d" % k
        if ("tree" in bf) != ("tree" in af) or ("tree" in bf and bf["tree"] != af["tree"]):
            return "tree-changed: working tree content/pending changes differ in directory %d" % k
    for k, (bm, out) in enumerate(zip(obs["before_m"], [main_out] + list(_dep_outs))):
        am = out
        # branch payload: tip, tags, parent/bound/push locations
        if bm[2] is not None and (am[2] is None or am[2][1] != bm[2][1]):
            return "branch-payload-changed in directory %d: %r -> %r" % (k, bm[2], am[2])
        if bm[1] is not None and (am[1] is None or am[1][1] != bm[1][1]):
            return "revision-set-changed in directory %d" % k
        if not names:
            want = (d[0], d[1] if bm[1] is not None else None, d[4] if bm[2] is not None else None,
                    d[5] if bm[3] is not None else None)
            got = (am[0], am[1][0] if am[1] else None, am[2][0] if am[2] else None, am[3][0] if am[3] else None)
            if got != want:
                return "format-not-reached in directory %d: wanted %r got %r" % (k, want, got)
    return None


def oracle(inp, obs):
    if isinstance(obs, Err):
        return None
    if inp["kind"] == "reconf":
        return oracle_reconf(inp, obs)
    return oracle_upgrade(inp, obs)


def _tags_clash(inp):
    w = inp["world"]
    b = w["branch"]
    if not b or "local" not in b:
        return False
    mine = b["local"]["tags"]
    return any(o is not None and any(k in o["tags"] and o["tags"][k] != v for k, v in mine.items())
               for o in w["others"])


def finding_matches(fid, inp, obs, why):
    """Still-known findings only (fixed in /repo, no longer excused: C52-repository-destroyed-without-fetch ea08d31,
    C52-pending-merge-not-fetched 300cbf1, C52-late-bind-refusal 00bc7de, C52-upgrade-colo-hang e09d9b1,
    C52-upgrade-tree-downgrade-hang 69d43de, C52-upgrade-5to6-empty-push-location bcc4656)."""
    why = why or ""
    if inp["kind"] != "reconf":
        return False
    w = inp["world"]
    if fid == "C52-lightweight-tag-clash":
        return why.startswith("tags-lost:") and inp["target"] == "lightweight" and _tags_clash(inp)
    if fid == "C52-standalone-shadows-outer-repository":
        return (why.startswith("branch-lost:") and inp["target"] == "standalone" and w["repo"] is None
                and w["outer"] is not None and w["branch"] == {"ref": 0} and w["others"][0]["own"] is None)
    return False


def nontrivial(inp, obs):
    if isinstance(obs, Err):
        return False
    if inp["kind"] == "reconf":
        return obs["model"][1] is not None
    return obs["after"] is not None and obs["before_m"] != [obs["model"][1]] + list(obs["model"][2])


def distribution(inputs, observations):
    d = {}
    for i, o in zip(inputs, observations):
        if i["kind"] == "reconf":
            k = "reconf:" + i["target"]
            if isinstance(o, Err):
                r = "driver-error"
            elif isinstance(o["model"][0], Err):
                r = str(o["model"][0])
            else:
                r = str(o["model"][1])
            d.setdefault(k, {})
            d[k][r] = d[k].get(r, 0) + 1
        else:
            k = "upgrade:%s->%s" % (i["src"], i["dst"])
            d[k] = d.get(k, 0) + 1
    return d
