"""C05 -- Concurrent pack writers and packers never lose committed data (tie H).

Two correspondence families, both against coq/Model/PackNames.v:

 (a) set algebra: the REAL RepositoryPackCollection of a real 2a repository is
     driven directly -- `_diff_pack_names`, `_save_pack_names`, `reload_pack_names` --
     for every triple of subsets of a 4-name universe (at_load, current, disk);
 (b) schedules: 2-4 real Repository objects opened on ONE directory inside this
     process through the registered `verif+` transport decorator; every object runs
     in its own thread, but only one thread runs at a time: the decorator parks the
     thread before each shared-directory interaction that the model treats as a
     step boundary (read pack-names, first data read after a (re)load, new pack
     moved into packs/, names lock, put pack-names, list obsolete_packs, unlock,
     first move to obsolete_packs/) and the scheduler resumes the pid the schedule
     names.  The same schedule is run by the model (`run_case`).
"""
import itertools
import os
import shutil
import threading

from vlib import Tag, Err, coq_nat, coq_list

PROP = "C05"
COQ = {
    "property_file": "Properties/C05.v",
    "imports": "From BV Require Import Model.PackNames.",
}
META = {
    "level": "proof",
    "title": "Concurrent pack writers and packers never lose committed data",
    "technique": ("Coq invariant proof over an interleaving semantics (any number of processes, any schedule) of a hand model of "
                  "RepositoryPackCollection's pack-names protocol + machine-checked refutation + exhaustive set-algebra "
                  "comparison + cooperative-scheduler replay of model schedules on real Repository objects"),
    "level_text": ("partial: proved for the state-machine core (load / add pack / plan+create / lock / three-way-merge save / "
                   "clear obsolete / unlock / obsolete / reload-and-retry) for any number of committers, packers and readers "
                   "under any interleaving of those steps, GUARDED by 'no two operations produce a byte-identical pack'; the "
                   "unguarded statement is refuted in the model and the refuting schedule reproduces on the real code "
                   "(finding C05-identical-repack-relisted). Disk formats, real OS processes and the pack planner are covered "
                   "only by the correspondence run."),
    "level_note": ("Trusted: Coq kernel, vm_compute, the hand model's correspondence (bounded sampling of schedules; exhaustive "
                   "4-name set algebra), the cooperative scheduler's step granularity (one pack with its indices moves "
                   "atomically; reads of one operation are atomic)."),
    "design_ref": "DESIGN.md §5 C05",
    "trusted_base": ["hand model coq/Model/PackNames.v of breezy/bzr/pack_repo.py RepositoryPackCollection",
                     "correspondence harness harness/props/c05.py (verif+ TransportDecorator, thread-per-repository cooperative scheduler)"],
    "assumptions": ["pack names are content hashes: equal name => equal content (md5 collision freedom); packers are deterministic",
                    "pack-names is only written under the names lock (LockDir mutual exclusion, property C26)",
                    "transport put_file of pack-names and rename of a pack file are atomic (LocalTransport on a POSIX fs)",
                    "a pack file and its five index files are moved/seen as one unit (scheduler granularity)",
                    "autopack plan = all packs of the view (exact for the scenarios generated; planner itself is property C07)"],
    "rule": ("(a) all 16^3 (at_load,current,disk) subset triples of a 4-name universe x {diff, save, reload}; (b) scenarios "
             "{2 committers, committer+packer, 2 packers+auto-committer, packer+reader, ...} x context-bounded and random "
             "schedules; non-trivial = some process reloaded, or a packer ran, or the merge changed the disk set"),
}
SHARD = 48

_state = {}
_tl = threading.local()

# --------------------------------------------------------------------------
# cooperative scheduler + transport decorator
# --------------------------------------------------------------------------


class _Proc:
    def __init__(self, pid, fn):
        self.pid, self.fn = pid, fn
        self.resume = threading.Semaphore(0)
        self.done = False
        self.result = None
        self.label = None
        self.fresh = False      # a (re)load happened, next data read is a step boundary
        self.fresh2 = False     # next read of packs/ is a step boundary (packer/reader data phase, autopack source read)
        self.fresh3 = False     # reader: next read of a .cix (CHK inventory pages) is a step boundary
        self.role = None
        self.loads = 0
        self.haslock = False
        self.obsoleting = False
        self.trace = []
        self.thread = None


class _Sched:
    def __init__(self):
        self.procs = {}
        self.back = threading.Semaphore(0)
        self.holder = None

    def spawn(self, pid, fn, role=None):
        p = _Proc(pid, fn)
        p.role = role
        self.procs[pid] = p

        def run():
            _tl.proc, _tl.sched = p, self
            p.resume.acquire()
            try:
                p.result = ("ok", fn())
            except BaseException as e:  # noqa -- the operation failed; canonicalised by the driver
                p.result = ("fail", type(e).__name__ + ": " + str(e)[:120])
            p.done = True
            p.label = None
            _tl.proc = None
            self.back.release()
        p.thread = threading.Thread(target=run, daemon=True)
        p.thread.start()
        p.label = "start"
        self._go(p)             # run up to the first yield (nothing shared is touched before it)

    def _go(self, p):
        p.resume.release()
        if not self.back.acquire(timeout=120):
            raise RuntimeError("scheduler: process %d did not yield" % p.pid)

    def step(self, pid):
        p = self.procs.get(pid)
        if p is None or p.done:
            return "done"
        if p.label == "lock":
            if self.holder is not None:
                return "blocked"
            self.holder = pid
            p.haslock = True
        if p.label == "unlock":
            self.holder = None
            p.haslock = False
        p.trace.append(p.label)
        self._go(p)
        return "ok"

    def finish(self):
        n = len(self.procs)
        for _ in range(n + 1):
            for pid in sorted(self.procs):
                while self.step(pid) == "ok":
                    pass
        for p in self.procs.values():
            if not p.done:
                raise RuntimeError("scheduler: process %d stuck at %r" % (p.pid, p.label))
            p.thread.join(10)


def _vyield(label):
    p = getattr(_tl, "proc", None)
    if p is None:
        return
    p.label = label
    _tl.sched.back.release()
    p.resume.acquire()


def _rel(t, relpath):
    a = t.abspath(relpath)
    i = a.find("/.bzr/repository/")
    return a[i + len("/.bzr/repository/"):] if i >= 0 else None


def _register():
    if _state.get("registered"):
        return
    import dromedary
    from dromedary.decorator import TransportDecorator

    class VerifTransport(TransportDecorator):
        """Parks the calling thread before the step-boundary operations; changes no behaviour.

        `move` is forwarded to the decorated transport's own `move` (an atomic rename on
        LocalTransport); the generic Transport.move would copy+delete through the decorator."""

        @classmethod
        def _get_url_prefix(cls):
            return "verif+"

        def _data_read(self, r, p):
            if p is None or r is None:
                return
            if (r.startswith("packs/") or r.startswith("indices/")) and p.fresh:
                p.fresh = False
                _vyield("read")
            elif r.startswith("packs/") and p.fresh2:
                p.fresh2 = False
                _vyield("read")
            elif r.startswith("indices/") and r.endswith(".cix") and p.fresh3:
                p.fresh3 = False
                _vyield("read")

        def get(self, relpath):
            r = _rel(self, relpath)
            p = getattr(_tl, "proc", None)
            if p is not None and r == "pack-names":
                if not p.haslock:
                    _vyield("load")
                    p.fresh = True
                    p.loads += 1
                    # pack(): planning (index key counts) and the packer's source reads are two phases,
                    # re-armed by every reload because _try_pack_operations restarts;
                    # reader: index phase, data phase, CHK-walk phase, armed once
                    if p.role == "pack" or (p.role == "read" and p.loads == 1):
                        p.fresh2 = True
                    if p.role == "read" and p.loads == 1:
                        p.fresh3 = True
            else:
                self._data_read(r, p)
            return super().get(relpath)

        def _readv(self, relpath, offsets):
            self._data_read(_rel(self, relpath), getattr(_tl, "proc", None))
            return super()._readv(relpath, offsets)

        def move(self, a, b):
            ra, rb = _rel(self, a), _rel(self, b)
            p = getattr(_tl, "proc", None)
            newpack = False
            if p is not None and ra is not None and rb is not None:
                if ra.startswith("upload/") and rb.startswith("packs/"):
                    _vyield("newpack")
                    p.fresh2 = True
                    newpack = True
                elif ra.startswith("packs/") and rb.startswith("obsolete_packs/") and not p.obsoleting:
                    p.obsoleting = True
                    _vyield("obsolete")
            res = self._decorated.move(a, b)
            if newpack:
                _note_pack(os.path.basename(rb)[:-5])
            return res

        def rename(self, a, b):
            ra, rb = _rel(self, a), _rel(self, b)
            p = getattr(_tl, "proc", None)
            if p is not None and ra is not None:
                if rb == "lock/held":
                    _vyield("lock")
                elif ra == "lock/held":
                    _vyield("unlock")
            return super().rename(a, b)

        def put_file(self, relpath, f, mode=None):
            if getattr(_tl, "proc", None) is not None and _rel(self, relpath) == "pack-names":
                _vyield("save")
            return super().put_file(relpath, f, mode)

        def list_dir(self, relpath):
            r = _rel(self, relpath)
            if getattr(_tl, "proc", None) is not None and r is not None and r.rstrip("/.") == "obsolete_packs":
                _vyield("clear")
            return super().list_dir(relpath)

    dromedary.register_transport_proto("verif+")
    dromedary.register_transport("verif+", VerifTransport)
    _state["registered"] = True


# --------------------------------------------------------------------------
# real repository operations
# --------------------------------------------------------------------------

def _revid(n):
    return b"r%02d" % n


def _revno(revid):
    return int(revid[1:])


def _commit(repo, revnos):
    """One write group adding the given (parentless, root-only) revisions."""
    from bzrformats.inventory import Inventory, InventoryDirectory
    from breezy.revision import Revision
    with repo.lock_write():
        repo.start_write_group()
        try:
            for n in revnos:
                revid = _revid(n)
                inv = Inventory(root_id=None, revision_id=revid)
                inv.add(InventoryDirectory(file_id=b"root-id", name="", parent_id=None, revision=revid))
                repo.texts.add_lines((b"root-id", revid), [], [])
                sha = repo.add_inventory(revid, inv, [])
                repo.add_revision(revid, Revision(revid, parent_ids=[], committer="c", message="m", timestamp=0,
                                                  timezone=0, properties={}, inventory_sha1=sha))
        except BaseException:
            repo.abort_write_group()
            raise
        repo.commit_write_group()
    return None


def _pack(repo):
    repo.pack()
    return None


def _read(repo):
    """all_revision_ids (revision indices), then every revision + its lazily loaded revision tree
    (pack data, inventory index), then a walk over every inventory (CHK pages through the .cix indices)."""
    with repo.lock_read():
        ids = sorted(repo.all_revision_ids())
        revs = [repo.get_revision(i).revision_id for i in ids]
        trees = [repo.revision_tree(i) for i in ids]
        for t in trees:
            t.root_inventory.root_id          # inventory text read, CHK root key known, pages not read
        # every "process" of the model has its own CHK page cache; in this single OS process the cache is
        # global (and filled by the other operations), so it is dropped before the walk
        from bzrformats import chk_map
        chk_map.clear_cache()
        for t in trees:
            for _path, ie in t.iter_entries_by_dir():
                ie.file_id
        return sorted(_revno(r) for r in revs)


def _index_revs(dirpath, name):
    """Revision numbers recorded in <dirpath>/<name>.rix (read with the real index class)."""
    import dromedary
    from bzrformats.btree_index import BTreeGraphIndex
    t = dromedary.get_transport_from_path(dirpath)
    size = t.stat(name + ".rix").st_size
    return sorted(_revno(e[1][0]) for e in BTreeGraphIndex(t, name + ".rix", size).iter_all_entries())


def _note_pack(name):
    d = _state.get("cur")
    if d is None:
        return
    if name in _state["table"]:
        _state["dups"].add(name)      # a pack file with an already existing name was produced
    try:
        _state["table"][name] = _index_revs(os.path.join(d, ".bzr/repository/indices"), name)
    except Exception:
        pass


def _template(base):
    """A repository whose packs contain the given revision lists (one commit pack each); cached per base."""
    from breezy import controldir
    from breezy.repository import Repository
    key = repr(base)
    tp = _state["templates"].get(key)
    if tp is None:
        tp = os.path.join(_state["dir"], "tmpl%d" % len(_state["templates"]))
        os.makedirs(tp)
        controldir.format_registry.make_controldir("2a").initialize(tp).create_repository()
        for revs in base:
            _commit(Repository.open("file://" + tp), revs)
        table = {}
        for f in os.listdir(os.path.join(tp, ".bzr/repository/packs")):
            table[f[:-5]] = _index_revs(os.path.join(tp, ".bzr/repository/indices"), f[:-5])
        _state["templates"][key] = tp
        _state["ttables"][key] = table
    return tp, dict(_state["ttables"][key])


def _listing(d, sub, table):
    p = os.path.join(d, ".bzr/repository", sub)
    if not os.path.isdir(p):
        return []
    out = []
    for f in sorted(os.listdir(p)):
        if f.endswith(".pack"):
            n = f[:-5]
            if n not in table:
                try:
                    table[n] = _index_revs(os.path.join(d, ".bzr/repository", "indices" if sub == "packs" else sub), n)
                except Exception:
                    table[n] = [-1]
            out.append(table[n])
    return sorted(out)


def _run_sched(inp):
    from breezy.repository import Repository
    _register()
    base = [list(b) for b in inp["base"]]
    tp, table = _template(base)
    _state["n"] += 1
    d = os.path.join(_state["dir"], "run%d" % _state["n"])
    shutil.copytree(tp, d)
    _state["cur"], _state["table"], _state["dups"] = d, table, set()
    url = "verif+file://" + d
    try:
        s = _Sched()
        for pid, r in enumerate(inp["roles"]):
            if r[0] == "commit":
                fn = (lambda revs: lambda: _commit(Repository.open(url), revs))(list(r[1]))
            elif r[0] == "pack":
                fn = lambda: _pack(Repository.open(url))
            else:
                fn = lambda: _read(Repository.open(url))
            s.spawn(pid, fn, r[0])
        for pid in inp["sched"]:
            s.step(pid)
        s.finish()
        results = []
        for pid, r in enumerate(inp["roles"]):
            p = s.procs[pid]
            reloads = max(0, p.trace.count("load") - 1)
            if p.result[0] == "ok":
                results.append([Tag("ok"), p.result[1], reloads] if r[0] == "read" else [Tag("ok"), reloads])
            else:
                results.append([Tag("fail"), reloads])
        # what is on disk afterwards
        repo = Repository.open("file://" + d)
        with repo.lock_read():
            pc = repo._pack_collection
            pc.ensure_loaded()
            listed_names = sorted(pc._names)
        listed = sorted(table.get(n, [-1]) for n in listed_names)
        present = _listing(d, "packs", table)
        obsolete = _listing(d, "obsolete_packs", table)
        try:
            final = _read(Repository.open("file://" + d))
        except Exception as e:
            final = Err(type(e).__name__)
        _state["last_traces"] = [p.trace for p in s.procs.values()]
        dup_contents = sorted(table.get(n, [-1]) for n in _state["dups"])
        # the last element is harness-side information for finding_matches only (not predicted by the model)
        return [results, listed, present, obsolete, final, bool(_state["dups"]), dup_contents]
    finally:
        _state["cur"] = None
        shutil.rmtree(d, ignore_errors=True)


# ---- (a) direct set-algebra driving of the real RepositoryPackCollection ----
_VALUE = b"1 1 1 1 1"


def _algebra(inp):
    return [_algebra1(inp["kind"], inp["at"], inp["cur"], dsk) for dsk in inp["disks"]]


def _algebra1(kind, at, cur, disk):
    from breezy.repository import Repository
    tp, _ = _template([[0]])
    d = _state.get("alg")
    if d is None:
        d = os.path.join(_state["dir"], "alg")
        shutil.copytree(tp, d)
        _state["alg"] = d
        _state["alg_repo"] = Repository.open("file://" + d)
    repo = _state["alg_repo"]
    pc = repo._pack_collection
    nm = lambda i: "p%d" % i
    idx = lambda nodes: sorted(int(n[0][1:]) for n in nodes)
    with repo.lock_write():
        builder = pc._index_builder_class()
        for i in disk:
            builder.add_node((nm(i).encode("ascii"),), _VALUE)
        pc.transport.put_file("pack-names", builder.finish())
        pc.reset()
        pc._names = {nm(i): (1, 1, 1, 1, 1) for i in cur}
        pc._packs_at_load = {(nm(i), _VALUE) for i in at}
        try:
            if kind == "diff":
                disk_nodes, deleted, new, orig = pc._diff_pack_names()
                return [idx(disk_nodes), idx(deleted), idx(new), idx(orig)]
            if kind == "save":
                pc._save_pack_names()
                on_disk = [(k[0].decode("ascii"), v) for _i, k, v in pc._iter_disk_pack_index()]
                return [idx(on_disk), idx(pc._packs_at_load), sorted(int(n[1:]) for n in pc._names)]
            changed = pc.reload_pack_names()
            return [idx(pc._packs_at_load), sorted(int(n[1:]) for n in pc._names), bool(changed)]
        finally:
            pc.reset()


# --------------------------------------------------------------------------
# property-module interface
# --------------------------------------------------------------------------

def setup(scratch):
    import breezy
    import breezy.bzr  # noqa
    _state.update(dir=scratch, templates={}, ttables={}, n=0, cur=None, table={}, alg=None, dups=set())
    _register()


def teardown():
    _state["alg_repo"] = None


B9 = [[0, 1, 2, 3, 4, 5, 6, 7], [8]]
B2 = [[0], [1]]
B3 = [[0], [1], [2]]
C = lambda *r: ["commit", list(r)]
P = ["pack"]
R = ["read"]

# the refuting schedule of Theory/PackNames.v (relist_witness): two packers produce the
# identical pack, an auto-packing committer retires it in between
WITNESS = {"kind": "sched", "base": B9, "roles": [P, P, C(10)],
           "sched": [1, 1, 1, 1] + [0] * 10 + [2] * 12 + [1] * 6}

SCENARIOS = [
    (B2, [C(10), C(11)]), (B2, [C(10), P]), (B2, [P, R]), (B2, [P, P]), (B2, [C(10), P, R]),
    (B9, [C(10), P]), (B9, [C(10), R]), (B9, [C(10), C(11)]), (B3, [P, C(10), C(11)]),
    (B9, [C(10), P, R]), (B2, [P, P, R]), (B3, [C(10), C(11), C(12)]), (B9, [P, P, C(10)]),
]
STEPS = 14   # upper bound on the number of scheduler steps of one process


def corpus():
    out = [WITNESS]
    # hand-picked schedules that exercise every retry path (stale packer / reader / committer / auto-packer)
    for base, roles, k in [(B2, [P, P], 2), (B2, [R, P], 2), (B2, [C(10), P], 2), (B9, [C(10), P], 2),
                           (B9, [C(10), P], 3), (B9, [C(10), P], 4), (B9, [C(10), P], 5), (B2, [P, P], 3),
                           (B2, [R, P], 1), (B2, [R, P], 3), (B2, [P, P], 1), (B9, [R, C(10)], 3)]:
        out.append({"kind": "sched", "base": base, "roles": roles, "sched": [0] * k + [1] * STEPS})
    for k in ("diff", "save", "reload"):
        out.append({"kind": k, "at": [0, 1], "cur": [1, 2], "disks": [[0, 1, 3], [], [2], [0, 1, 2, 3]]})
    return out


def cases(rng, tier):
    uni = [list(c) for k in range(5) for c in itertools.combinations(range(4), k)]
    uni3 = [x for x in uni if 3 not in x]
    # (a) exhaustive: every (at_load, current) pair x every disk set; diff over the 4-name universe,
    #     save/reload over the 3-name sub-universe (quick) or the full one (thorough)
    for a in uni:
        for c in uni:
            yield {"kind": "diff", "at": a, "cur": c, "disks": uni}
    su = uni3 if tier == "quick" else uni
    for a in su:
        for c in su:
            yield {"kind": "save", "at": a, "cur": c, "disks": su}
            yield {"kind": "reload", "at": a, "cur": c, "disks": su}
    # (b) schedules: context-bounded (one and two preemptions) then random
    scen = SCENARIOS
    per = 18 if tier == "quick" else 120
    for base, roles in scen:
        n = len(roles)
        # one preemption: p runs k steps, then q runs to completion, then the rest
        ks = list(range(1, STEPS))
        pairs = [(p, q) for p in range(n) for q in range(n) if p != q]
        picks = [(p, q, k) for (p, q) in pairs for k in ks]
        rng.shuffle(picks)
        for p, q, k in picks[: (18 if tier == "quick" else len(picks))]:
            yield {"kind": "sched", "base": base, "roles": roles, "sched": [p] * k + [q] * STEPS}
        for _ in range(per):
            # random: bursts of random length
            sched = []
            while len(sched) < n * STEPS:
                sched += [rng.randrange(n)] * rng.choice([1, 1, 1, 2, 3, 5])
            yield {"kind": "sched", "base": base, "roles": roles, "sched": sched}


def impl(inp):
    if inp["kind"] == "sched":
        return _run_sched(inp)
    return _algebra(inp)


def impl_obs(inp, obs):
    if inp["kind"] == "sched" and not isinstance(obs, Err):
        return obs[:6]
    return obs


def _coq_role(r):
    if r[0] == "commit":
        return "(RCommit %s)" % coq_list(r[1], coq_nat)
    return "RPack" if r[0] == "pack" else "RRead"


def model_term(inp):
    if inp["kind"] == "sched":
        base = coq_list([coq_list(b, coq_nat) for b in inp["base"]])
        roles = coq_list([_coq_role(r) for r in inp["roles"]])
        return f"run_case {base} {roles} {coq_list(inp['sched'], coq_nat)}"
    f = {"diff": "run_diffs", "save": "run_saves", "reload": "run_reloads"}[inp["kind"]]
    disks = coq_list([coq_list(d, coq_nat) for d in inp["disks"]])
    return f"{f} {coq_list(inp['at'], coq_nat)} {coq_list(inp['cur'], coq_nat)} {disks}"


def oracle(inp, obs):
    """The property itself, evaluated on what the real code did."""
    if isinstance(obs, Err):
        return "driver error " + str(obs)
    if inp["kind"] != "sched":
        a, c = set(inp["at"]), set(inp["cur"])
        for d, o in zip(inp["disks"], obs):
            dsk = set(d)
            want = sorted((dsk - (a - c)) | (c - a))
            got = o[0] if inp["kind"] != "reload" else o[1]
            if got != want:
                return (f"{inp['kind']}: pack list {got} is not the three-way merge {want} of "
                        f"at_load={sorted(a)} current={sorted(c)} disk={sorted(dsk)}")
            if inp["kind"] == "save" and not (o[0] == o[1] == o[2]):
                return f"save: written list {o[0]}, _packs_at_load {o[1]} and _names {o[2]} differ afterwards"
        return None
    results, listed, present, obsolete, final = obs[:5]
    base_revs = sorted(r for b in inp["base"] for r in b)
    must = set(base_revs)
    for r, res in zip(inp["roles"], results):
        if str(res[0]) == "fail":
            if r[0] == "read":
                return "reader failed: it could not find the data of its view even after reloading"
            if not obs[5]:
                # every pack that vanished was replaced by listed, present packs (nothing collided), so
                # reload-and-retry must let the operation finish
                return (f"operation {r} failed although every vanished pack was replaced by listed packs: "
                        "reload-and-retry did not recover")
            # after a pack-name collision a pack()/commit may fail (allocate clash); it loses nothing and
            # is compared with the model's prediction
            continue
        if r[0] == "commit":
            must |= set(r[1])
        if r[0] == "read" and not set(base_revs) <= set(res[1]):
            return f"reader saw only {res[1]}; previously committed {base_revs}"
    for pk in listed:
        if pk not in present:
            return f"listed pack missing: pack-names lists a pack with revisions {pk} that is not in packs/ (present: {present})"
    if isinstance(final, Err):
        return f"repository unreadable afterwards: {final}"
    if not must <= set(final):
        return f"committed revisions lost: {sorted(must - set(final))}"
    have = set(r for pk in listed for r in pk)
    if not must <= have:
        return f"committed revisions not covered by listed packs: {sorted(must - have)}"
    return None


def finding_matches(fid, inp, obs, why):
    """C05-identical-repack-relisted, and nothing else: pack-names lists a pack that is absent from
    packs/, that very pack (same content hash = same name) was produced by two different operations
    of this run, and no committed revision is lost or unlisted.  Failed operations / an unreadable
    repository are accepted only as consequences of exactly that state."""
    if fid != "C05-identical-repack-relisted":
        return False
    if inp.get("kind") != "sched" or isinstance(obs, Err) or len(obs) < 7:
        return False
    results, listed, present, obsolete, final, collided, dup_contents = obs
    missing = [pk for pk in listed if pk not in present]
    if not collided or not missing or any(pk not in dup_contents for pk in missing):
        return False
    why = why or ""
    if not (why.startswith("listed pack missing") or why.startswith("reader failed")
            or why.startswith("repository unreadable")):
        return False
    # every other clause of the property must hold, otherwise it is a different violation
    must = set(r for b in inp["base"] for r in b)
    for r, res in zip(inp["roles"], results):
        if r[0] == "commit" and str(res[0]) == "ok":
            must |= set(r[1])
        if r[0] == "read" and str(res[0]) == "ok" and not set(x for b in inp["base"] for x in b) <= set(res[1]):
            return False
    have_present = set(r for pk in listed if pk in present for r in pk)
    if not must <= have_present:
        return False          # a committed revision is only in the missing pack (or nowhere): real data loss
    if not isinstance(final, Err) and not must <= set(final):
        return False
    return True


def nontrivial(inp, obs):
    if isinstance(obs, Err):
        return False
    if inp["kind"] != "sched":
        return bool(set(inp["at"]) ^ set(inp["cur"]))
    return any(r[0] == "pack" for r in inp["roles"]) or any(res[-1] for res in obs[0])


def distribution(inputs, observations):
    d = {"diff": 0, "save": 0, "reload": 0, "sched": 0, "sched_with_reload": 0, "sched_with_obsolete": 0,
         "sched_two_packs_listed_with_overlap": 0, "by_process_count": {}}
    for i, o in zip(inputs, observations):
        d[i["kind"]] += 1
        if i["kind"] == "sched" and not isinstance(o, Err):
            if any(res[-1] for res in o[0]):
                d["sched_with_reload"] += 1
            if o[3]:
                d["sched_with_obsolete"] += 1
            revs = [r for pk in o[1] for r in pk]
            if len(revs) != len(set(revs)):
                d["sched_two_packs_listed_with_overlap"] += 1
            k = str(len(i["roles"]))
            d["by_process_count"][k] = d["by_process_count"].get(k, 0) + 1
    return d


def shrink(inp, fails):
    if inp["kind"] != "sched" or not os.path.isdir(_state.get("dir") or "/nonexistent"):
        return inp          # the scratch directory is gone when the framework shrinks: keep the original
    sched = list(inp["sched"])
    changed = True
    while changed and len(sched) > 0:
        changed = False
        for i in range(len(sched)):
            cand = dict(inp, sched=sched[:i] + sched[i + 1:])
            if fails(cand):
                sched, changed = cand["sched"], True
                break
    return dict(inp, sched=sched)
