"""C44 -- fast-export followed by fast-import preserves history (tie H, refinement style).

A case is a whole history (revision graph, one full inventory per revision with explicit file ids,
committer/authors/timestamp/timezone/message per revision, tags) plus the exporter's flags.  The
implementation side builds that history in a real 2a repository, runs the REAL BzrFastExporter into a
byte stream, parses the stream back (fastimport package = environment) to observe the emitted file
commands, and runs the REAL GenericProcessor/CommitHandler on the unmodified stream in an empty branch.
The Coq model (Model/FastIO.v tree level, Model/FastHist.v history level) predicts, from the same
history value: the export order, every commit's reset/from/merge/file commands, the tag resets, and the
complete imported repository (parents by mark, committer, authors, timestamp, timezone, message, tree of
every revision, tags, branch tip, revno) -- or the exception class that aborts the import.

The oracle is the property itself: the imported repository must be isomorphic to the exported history.
After the repair round (six fix commits, notes/C44.md) it still fails on the current code for eleven classes
of inputs; each is a known finding recognised by a predicate on the INPUT (finding_matches), never by the
failure alone.  The witnesses of the repaired findings stay in corpus() and must pass.
"""
import email.utils
import json
import os
import shutil
import tempfile

from vlib import Tag, Err, coq_bool, coq_bytes, coq_list, coq_nat, coq_N, coq_Z, coq_option

from props import _c44_gen as G
from props import _c44_mirror as M
from props import _c44_real as R

PROP = "C44"
COQ = {
    "property_file": "Properties/C44.v",
    "imports": "From BV Require Import Lib.Bytes Lib.Obs Model.FastIO Model.FastHist.",
}
META = {
    "level": "translation_validation",
    "title": "Fast-export followed by fast-import preserves history",
    "technique": ("hand model (Coq) of BzrFastExporter._get_filecommands/_process_renames_and_deletes/"
                  "_get_commit_command/emit_tags/check_ref_format/sanitize_ref_name_for_git and of "
                  "CommitHandler (_modify_item/_delete_item/_rename_item/_rename_pending_change/_add_entry/"
                  "_ensure_directory/_get_final_delta), GenericProcessor (commit/reset/tag handling) and "
                  "BranchUpdater, validated against the real exporter and importer on generated histories; "
                  "Coq theorems about the model (refutations with replayed witnesses, exporter completeness, "
                  "history shape, metadata, tag names)"),
    "level_text": ("translation validation: on every run the real fast-export output and the real fast-import "
                   "result of generated histories (merges, renames incl. directory renames, swaps, chains, kind "
                   "changes, deletions, symlinks, exec bits, empty directories, unicode, tags, both stream "
                   "formats) are compared with the Coq model's prediction, and the round-trip property is "
                   "evaluated on the implementation.  Proved about the model, for all inputs: the exporter emits "
                   "the new content of every added/changed file and symlink at its new path; import∘export "
                   "preserves the number of revisions and the parent structure (roots included); every tag reset "
                   "stays below refs/tags/; timestamps/timezones/idents/tags round-trip exactly under executable "
                   "guards.  The full statement is still FALSE of the faithful model and of the code (rename order, "
                   "directory replaced by a file, empty directories, format limits): C44_*_refuted theorems with "
                   "witnesses replayed on the real code on every run; the witnesses repaired in the repair round "
                   "are now positive theorems (C44_filecmds_sound_repaired_witnesses, C44_two_roots_preserved, "
                   "C44_rewritten_tag_stays_tag, C44_ident_empty_name_roundtrip)."),
    "level_note": ("Trusted: Coq kernel + vm_compute; the hand models' correspondence (sampling); the `fastimport` "
                   "package (stream syntax), bzrformats inventories/apply_delta, vcsgraph merge_sort and "
                   "email.utils.parseaddr as environment.  The order of the M commands, and of the D commands for "
                   "kind changes, inside a commit (CHK hash order, text storage order) is taken from the observed "
                   "stream.  Rich streams of non-linear histories are compared on the export side only.  No general "
                   "theorem that the file commands reproduce the tree under the guard: validated by the runs only."),
    "design_ref": "DESIGN.md §5 C44",
    "trusted_base": ["hand models coq/Model/FastIO.v, coq/Model/FastHist.v of breezy/plugins/fastimport/"
                     "{exporter,bzr_commit_handler,revision_store,branch_updater}.py and processors/generic_processor.py",
                     "coq/Lib/DagMergeSort.v as a model of vcsgraph merge_sort (export order; compared on every case)",
                     "correspondence harness harness/props/c44.py, _c44_real.py, _c44_gen.py"],
    "assumptions": ["the fastimport package's serializer+parser are the identity on names, e-mails, messages, paths "
                    "and inline data, keep whole seconds and whole minutes of UTC offset (compared on every case)",
                    "email.utils.parseaddr(ident) is supplied to the model as an input of the case",
                    "the order of M commands (and of the leading D commands of kind changes) within a commit is supplied "
                    "to the model from the observed stream",
                    "only linear histories are imported in rich mode",
                    "Inventory.apply_delta / CHKInventory.create_by_apply_delta reject exactly the deltas that "
                    "FastIO.apply_delta rejects (duplicate ids, wrong old paths, duplicate names, missing or "
                    "non-directory parents, wrong new paths) -- compared on every case",
                    "2a source and target repositories; standalone target branch; no ghosts; ref refs/heads/master; "
                    "no marks files, no --revision range, no --baseline"],
    "rule": ("seeded histories of 2-6 revisions (thorough: up to 30, one of 1003) edited by add/modify/exec/rename/"
             "move/remove/kind/swap/replace/chain/dirrename/moveout/retarget; non-trivial = at least two exported "
             "revisions and at least one rename, delete or kind change"),
}
SHARD = 12

_state = {"dir": None, "n": 0, "mp": {}}


def setup(scratch):
    os.environ.setdefault("BRZ_EMAIL", "Verif <verif@example.com>")
    _state["dir"] = scratch


def teardown():
    _state["dir"] = None
    own = _state.pop("own", None)
    if own:
        shutil.rmtree(own, ignore_errors=True)


def _workdir():
    base = _state["dir"]
    if base is None or not os.path.isdir(base):
        base = tempfile.mkdtemp(prefix="verif-c44-")
        _state["dir"] = base
        _state["own"] = base
        import atexit
        atexit.register(shutil.rmtree, base, True)
    _state["n"] += 1
    return os.path.join(base, "c%d-%d" % (os.getpid(), _state["n"]))


def _key(case):
    return json.dumps(case, sort_keys=True)


# ---------------------------------------------------------------------------- cases

def _rev(parents, inv, committer=0, authors=(), ts4=4000, tz=0, msg=1):
    return {"parents": list(parents), "inv": [list(e) for e in inv], "committer": committer,
            "authors": list(authors), "ts4": ts4, "tz": tz, "msg": msg}


def _case(names, strings, revs, plain=1, rewrite=0, no_tags=0, tags=(), props=1, chunk=0, checkpoint=0):
    return {"plain": plain, "rewrite": rewrite, "no_tags": no_tags, "props": props, "chunk": chunk,
            "checkpoint": checkpoint, "names": list(names), "strings": ["Joe <joe@x.org>", "m"] + list(strings),
            "revs": revs, "tip": len(revs) - 1, "tags": [list(t) for t in tags]}


def corpus():
    """Witnesses of the refutation theorems and of the findings (strings 0 = ident, 1 = message)."""
    n = ["a", "b", "c", "d", "e"]
    s = ["A\n", "B\n", "t", "X\n", "v1", ".hid", "Ann <ann@y>", "Bob <bob@z>", "<joe@x.org>"]
    f = lambda i, par, nm, data=2, ex=0: [i, par, nm, "f", data, ex]
    d = lambda i, par, nm: [i, par, nm, "d", 0, 0]
    l = lambda i, par, nm, data=4: [i, par, nm, "l", data, 0]
    out = []
    # swap a <-> b
    out.append(_case(n, s, [_rev([], [f(1, 0, 0), f(2, 0, 1, 3)]), _rev([0], [f(1, 0, 1), f(2, 0, 0, 3)])]))
    # a -> c, b -> a : the second rename deletes what the first one moved
    out.append(_case(n, s, [_rev([], [f(1, 0, 0), f(2, 0, 1, 3)]), _rev([0], [f(1, 0, 2), f(2, 0, 0, 3)])]))
    # b -> c, a -> b (chain)
    out.append(_case(n, s, [_rev([], [f(1, 0, 0), f(2, 0, 1, 3)]), _rev([0], [f(1, 0, 1), f(2, 0, 2, 3)])]))
    # directory rename with a modified child, plain and rich
    dr = [_rev([], [d(1, 0, 3), f(2, 1, 0), f(3, 1, 1, 3)]), _rev([0], [d(1, 0, 4), f(2, 1, 0, 5), f(3, 1, 1, 3)])]
    out.append(_case(n, s, dr))
    out.append(_case(n, s, dr, plain=0))
    out.append(_case(n, s, dr, plain=0, props=0))
    # symlink replaced by a directory with two files (InconsistentDelta)
    out.append(_case(n, s, [_rev([], [l(1, 0, 0)]), _rev([0], [d(1, 0, 0), f(2, 1, 1), f(3, 1, 2, 3)])]))
    # directory replaced by a file while its child moves out
    out.append(_case(n, s, [_rev([], [d(1, 0, 0), f(2, 1, 1)]), _rev([0], [f(1, 0, 0, 3), f(2, 0, 1)])]))
    # symlink becomes an empty directory: nothing is emitted, the link stays
    out.append(_case(n, s, [_rev([], [l(1, 0, 0), f(2, 0, 1)]), _rev([0], [d(1, 0, 0), f(2, 0, 1)])]))
    # empty directory
    out.append(_case(n, s, [_rev([], [d(1, 0, 3), f(2, 0, 0)]), _rev([0], [d(1, 0, 3), f(2, 0, 0, 3)])]))
    # two roots joined by a merge
    out.append(_case(n, s, [_rev([], [f(1, 0, 0)]), _rev([], [f(2, 0, 1, 3)]),
                            _rev([0, 1], [f(1, 0, 0), f(2, 0, 1, 3)])]))
    # tags: valid, invalid (dropped), invalid rewritten, rewritten out of refs/tags/
    two = [_rev([], [f(1, 0, 0)]), _rev([0], [f(1, 0, 0, 3)])]
    out.append(_case(n, s, two, tags=[[6, 0]]))
    out.append(_case(n, s, two, tags=[[6, 0], [7, 0]]))
    out.append(_case(n, s, two, tags=[[6, 1], [7, 0]], rewrite=1))
    out.append(_case(n, s, two, tags=[[6, 0]], no_tags=1))
    # metadata: sub-second timestamp, odd timezone, authors, normalised ident
    out.append(_case(n, s, [_rev([], [f(1, 0, 0)], ts4=4003, tz=0)]))
    out.append(_case(n, s, [_rev([], [f(1, 0, 0)], ts4=4000, tz=-90)]))
    out.append(_case(n, s, [_rev([], [f(1, 0, 0)], authors=[8])]))
    out.append(_case(n, s, [_rev([], [f(1, 0, 0)], authors=[8, 9])]))
    out.append(_case(n, s, [_rev([], [f(1, 0, 0)], authors=[8, 9])], plain=0, props=0))
    out.append(_case(n, s, [_rev([], [f(1, 0, 0)], committer=10)]))
    # the last file below nested directories is deleted: the importer must prune d/e and then d
    out.append(_case(n, s, [_rev([], [d(1, 0, 3), d(2, 1, 4), f(3, 2, 0), f(4, 0, 1)]), _rev([0], [f(4, 0, 1)])]))
    out.append(_case(n, s, [_rev([], [d(1, 0, 3), d(2, 1, 4), f(3, 2, 0), f(4, 0, 1)]),
                            _rev([0], [f(3, 0, 0), f(4, 0, 1)])]))
    # rich streams (reported after 8f7ca2e made them importable):
    # (1) rename directory d -> e, then in a later commit rename e/a: was NoSuchFile (text looked up by path in
    #     ie.revision); repaired, must pass
    out.append(_case(n, s, [_rev([], [d(1, 0, 3), f(2, 1, 0)]), _rev([0], [d(1, 0, 4), f(2, 1, 0)]),
                            _rev([1], [d(1, 0, 4), f(2, 1, 1)])], plain=0))
    # (2) rename directory d -> e and chmod a child in the same commit: InconsistentDelta
    out.append(_case(n, s, [_rev([], [d(1, 0, 3), f(2, 1, 0)]), _rev([0], [d(1, 0, 4), f(2, 1, 0, 2, 1)])], plain=0))
    # (3) mv d/a c; rm d  in one commit: the moved file is lost
    out.append(_case(n, s, [_rev([], [d(1, 0, 3), f(2, 1, 0), f(3, 0, 1)]), _rev([0], [f(2, 0, 2), f(3, 0, 1)])],
                     plain=0))
    # plain: an (empty) directory renamed onto the path of a removed file: the file's D is swallowed, the file stays
    out.append(_case(n, s, [_rev([], [d(1, 0, 3), f(2, 0, 0), f(3, 0, 4)]), _rev([0], [d(1, 0, 4), f(2, 0, 0)])]))
    # rename + executable-bit flip with identical content in one commit (plain and rich), then a later commit
    rx = [_rev([], [f(1, 0, 0), f(2, 0, 1, 3)]), _rev([0], [f(1, 0, 2, 2, 1), f(2, 0, 1, 3)]),
          _rev([1], [f(1, 0, 2, 2, 1), f(2, 0, 1, 5)])]
    out.append(_case(n, s, rx))
    out.append(_case(n, s, rx, plain=0))
    out.append(_case(n, s, [_rev([], [d(1, 0, 3), f(2, 1, 0, 2, 1)]), _rev([0], [d(1, 0, 3), f(2, 0, 1, 2, 0)])]))
    # tags on revisions of a merged side branch (reachable only through a right-hand parent), on the
    # mainline and on the merge itself
    mg = [_rev([], [f(1, 0, 0)]), _rev([0], [f(1, 0, 0, 3)]), _rev([0], [f(1, 0, 0), f(2, 0, 1)]),
          _rev([2], [f(1, 0, 0), f(2, 0, 1, 3)]), _rev([1, 3], [f(1, 0, 0, 3), f(2, 0, 1, 3)])]
    out.append(_case(n, s, mg, tags=[[6, 2], [4, 3]]))
    out.append(_case(n, s, mg, tags=[[6, 3]], plain=0))
    return out


def cases(rng, tier):
    quick = tier == "quick"
    n_mixed = 45 if quick else 600
    n_focus = 2 if quick else 25
    n_rich = 14 if quick else 200
    for _ in range(n_mixed):
        # rich streams of non-linear histories are compared on the export side only (see _doimport)
        c = G.gen_case(rng, plain=1 if rng.random() < 0.85 else 0)
        c["props"] = 1
        yield c
    for focus in ["rename", "move", "swap", "chain", "dirrename", "kind", "replace", "moveout", "remove", "nest",
                  "emptyout", "renexec"]:
        for _ in range(n_focus):
            c = G.gen_case(rng, n=rng.choice([2, 3]), focus=focus, plain=1, nasty=0.0)
            c["props"] = 1
            yield c
    # rich streams, linear histories (imported for real): directory renames followed by renames below them,
    # modified children of renamed directories, children moved out of removed directories ...
    for k in range(n_rich):
        focus = [None, "dirrename", "move", "moveout", "rename", "kind", "renexec"][k % 7]
        c = G.gen_case(rng, n=rng.choice([2, 3, 4, 5]), focus=focus, plain=0, nasty=0.1, linear=True)
        c["props"] = int(rng.random() < 0.7)
        if not c["props"]:
            for r in c["revs"]:
                r["authors"] = []
        yield c
    if not quick:
        for n in (12, 22, 30):
            for _ in range(6):
                c = G.gen_case(rng, n=n, plain=1, nasty=0.0)
                c["props"] = 1
                c["chunk"] = rng.choice([0, 0, 5])
                yield c
        yield G.long_case(1003)


# ---------------------------------------------------------------------------- implementation

def _linear(case):
    return all(r["parents"] == ([i - 1] if i else []) for i, r in enumerate(case["revs"]))


def _doimport(case):
    """Rich streams of non-linear histories are only exported: their import additionally depends on the
    commit builder's merge handling of per-entry revisions, which the model does not cover (notes/C44.md)."""
    return bool(case["plain"]) or _linear(case)


def impl(case):
    d = _workdir()
    os.makedirs(d)
    try:
        br = R.build_src(d + "/src", case)
        stream, order = R.export(br, case)
        cmds = R.parse_cmds(stream)
        xcommits, tagcmds, prev = [], [], None
        for c in cmds:
            if c[0] == "commit":
                reset = prev is not None and prev[0] == "reset" and prev[1] == b"refs/heads/master" and prev[2] is None
                xcommits.append([bool(reset), None if c[2] is None else int(c[2][1:]),
                                 [int(m[1:]) for m in c[3]],
                                 [[Tag(x[0])] + list(x[1:]) for x in c[4]],
                                 [[Tag("M"), x[1], Tag(x[2]), x[3]] for x in c[5]]])
            elif c[0] == "reset" and not (c[1] == b"refs/heads/master" and c[2] is None):
                tagcmds.append([c[1], int(c[2][1:])])
            prev = c
        _state["mp"][_key(case)] = ([int(r[1:]) for r in order], [[x[1] for x in xc[4]] for xc in xcommits],
                                    [[x[1] for x in xc[3] if str(x[0]) == "D"] for xc in xcommits])
        if not _doimport(case):
            return [[int(r[1:]) for r in order], xcommits, tagcmds, Tag("skipped")]
        try:
            proc = R.do_import(d + "/dst", stream, case)
            revs, tags, tip, revno, nrev = R.read_dst(d + "/dst", proc)
            imported = [[[ps, c, a, ts4, tz, msg, [[p, Tag(m), dat] for p, m, dat in tree]]
                         for ps, c, a, ts4, tz, msg, tree in revs], tags, tip, revno, nrev]
        except BaseException as e:          # pyo3 panics are BaseException
            if isinstance(e, (KeyboardInterrupt, SystemExit, MemoryError)):
                raise
            # bzrformats raises InconsistentDelta or InconsistentDeltaDelta depending on which check trips
            imported = Err(type(e).__name__.replace("InconsistentDeltaDelta", "InconsistentDelta"))
        return [[int(r[1:]) for r in order], xcommits, tagcmds, imported]
    finally:
        shutil.rmtree(d, ignore_errors=True)


# ---------------------------------------------------------------------------- model term

def _b(s):
    return coq_bytes(s.encode("utf-8") if isinstance(s, str) else s)


def _parse(ident):
    n, e = email.utils.parseaddr(ident)
    return "(%s, %s)" % (_b(n), _b(e))


def _coq_entry(case, e):
    i, par, nm, kind, data, ex = e
    S = case["strings"]
    return "(mkE %s %s %s %s %s %s)" % (coq_N(i), coq_N(par), _b(case["names"][nm]),
                                        {"f": "KFile", "l": "KLink", "d": "KDir"}[kind],
                                        _b(S[data]) if kind != "d" else "(@nil N)", coq_bool(ex))


def model_term(case):
    S = case["strings"]
    mp = _state["mp"].get(_key(case))
    if mp is None:                              # replay without a previous impl call
        impl(case)
        mp = _state["mp"][_key(case)]
    # the M order is indexed by export position; the model wants it per revision
    order, mp, dp = mp
    by_rev = {r: mp[k] for k, r in enumerate(order) if k < len(mp)}
    d_by_rev = {r: dp[k] for k, r in enumerate(order) if k < len(dp)}
    revs = []
    for i, r in enumerate(case["revs"]):
        revs.append("(mkS %s %s %s %s %s %s %s %s %s %s)" % (
            coq_list([coq_nat(p) for p in r["parents"]]),
            coq_list([_coq_entry(case, e) for e in r["inv"]]),
            _b(S[r["committer"]]), _parse(S[r["committer"]]),
            coq_list(["(%s, %s)" % (_b(S[a]), _parse(S[a])) for a in r["authors"]]),
            coq_Z(r["ts4"]), coq_Z(r["tz"]), _b(S[r["msg"]]),
            coq_list([coq_bytes(p) for p in by_rev.get(i, [])]),
            coq_list([coq_bytes(p) for p in d_by_rev.get(i, [])])))
    tags = ["(%s, %s)" % (_b(S[t]), "None" if r < 0 else "(Some %s)" % coq_nat(r))
            for t, r in sorted(case["tags"], key=lambda tr: S[tr[0]].encode("utf-8"))]
    return "run_case %s %s %s %s %s %s %s" % (
        coq_bool(case["plain"]), coq_bool(case["rewrite"]), coq_bool(case["no_tags"]),
        coq_bool(_doimport(case)), coq_list(revs), coq_nat(case["tip"]), coq_list(tags))


# ---------------------------------------------------------------------------- oracle (the property)

def _ancestors(case):
    seen, todo = set(), [case["tip"]]
    while todo:
        r = todo.pop()
        if r not in seen:
            seen.add(r)
            todo.extend(case["revs"][r]["parents"])
    return seen


def _export_order(case):
    """Any topological order would do for the oracle; the real one is in the observation."""
    return sorted(_ancestors(case))


def _apparent_authors(case, r):
    S = case["strings"]
    return [S[a] for a in r["authors"]] or [S[r["committer"]]]


def _classes(case, obs):
    """The round-trip property evaluated on the implementation: set of violated clauses."""
    order, xcommits, tagcmds, imported = obs
    S = case["strings"]
    if isinstance(imported, Tag):          # export-only case: the property cannot be evaluated
        return set()
    if isinstance(imported, Err):
        return {"import-error:" + str(imported)}
    revs, tags, tip, revno, nrev = imported
    bad = set()
    anc = _ancestors(case)
    if sorted(order) != sorted(anc) or nrev != len(anc) or len(revs) != len(anc):
        bad.add("count")
        return bad
    mark = {r: k + 1 for k, r in enumerate(order)}
    for k, r in enumerate(order):
        src = case["revs"][r]
        ps, committer, authors, ts4, tz, msg, tree = revs[k]
        if ps != [mark[p] for p in src["parents"]]:
            bad.add("shape")
        want = R.src_tree(case, r)
        got = [[p, str(m), dat] for p, m, dat in tree]
        if got != want:
            # the trees differ only in directories without any file or symlink below them -> "emptydir"
            if M.leaf_tree(got) == M.leaf_tree(want):
                bad.add("emptydir")
            else:
                bad.add("tree")
        if committer != S[src["committer"]].encode("utf-8"):
            bad.add("committer")
        dst_authors = authors.decode("utf-8").split("\n") if authors is not None else [committer.decode("utf-8")]
        if dst_authors != _apparent_authors(case, src):
            bad.add("authors")
        if ts4 != src["ts4"]:
            bad.add("timestamp")
        if tz != src["tz"]:
            bad.add("timezone")
        if msg != S[src["msg"]].encode("utf-8"):
            bad.add("message")
    want_tags = [] if case["no_tags"] else sorted([S[t].encode("utf-8"), mark[r]] for t, r in case["tags"] if r in mark)
    if [list(t) for t in tags] != want_tags:
        bad.add("tags")
    want_revno = 0
    t = case["tip"]
    while t is not None:
        want_revno += 1
        t = case["revs"][t]["parents"][0] if case["revs"][t]["parents"] else None
    if tip != mark[case["tip"]] or revno != want_revno:
        bad.add("tip")
    return bad


def oracle(case, obs):
    bad = _classes(case, obs)
    if not bad:
        return None
    return "import(export(h)) is not isomorphic to h: " + ",".join(sorted(bad))


# ---------------------------------------------------------------------------- known findings

def _inv(case, r):
    S = case["strings"]
    return [(i, par, case["names"][nm].encode("utf-8"), kind,
             b"" if kind == "d" else (S[data].encode("utf-8")), bool(ex))
            for i, par, nm, kind, data, ex in case["revs"][r]["inv"]]


def _ident_canonical(ident):
    """executable guard of C44_ident_guarded (Theory/FastHist.ident_canonical)"""
    if "<" not in ident:
        return True
    n, e = email.utils.parseaddr(ident)
    if not e:
        return False
    return (("%s <%s>" % (n, e)) if n else "<%s>" % e) == ident


def _tag_ref_ok(name):
    ref = b"refs/tags/" + name.encode("utf-8")
    from breezy.plugins.fastimport.exporter import check_ref_format      # anchored code, used as vocabulary
    return check_ref_format(ref)


_REASON_CLASS = {"vacated": "rename-order", "late-delete": "rename-order", "below-file": "rename-order",
                 "into-moved-dir": "rename-order", "dir-to-file": "kind-dir", "dir-kind": "kind-dir",
                 "kind-to-dir-moved": "kind-dir", "rich-dir-rename-modified-child": "rich-dirmod",
                 "dir-swallows-delete": "swallow"}


def _features(case):
    """Input features that trigger the known defect classes (predicates on the input only)."""
    S = case["strings"]
    anc = sorted(_ancestors(case))
    f = set()
    for r in anc:
        rev = case["revs"][r]
        new = _inv(case, r)
        old = _inv(case, rev["parents"][0]) if rev["parents"] else []
        why = M.tree_guard_reason(old, new) if case["plain"] else M.tree_guard_rich_reason(old, new)
        if why is not None:
            f.add(_REASON_CLASS[why])
        t = M.tree_of(new)
        if M.leaf_tree(t) != t or (old and M.leaf_tree(M.tree_of(old)) != M.tree_of(old)):
            f.add("emptydir")
        if rev["ts4"] % 4:
            f.add("subsecond")
        if rev["tz"] % 60:
            f.add("tzminutes")
        if not _ident_canonical(S[rev["committer"]]):
            f.add("ident-committer")
        if any(not _ident_canonical(S[a]) for a in rev["authors"]):
            f.add("ident-author")
        if len(rev["authors"]) > 1 and case["plain"]:
            f.add("multi-authors")
        if len(rev["authors"]) == 1 and S[rev["authors"][0]] != S[rev["committer"]] and \
                email.utils.parseaddr(S[rev["authors"][0]]) == email.utils.parseaddr(S[rev["committer"]]) \
                and "<" in S[rev["authors"][0]] and "<" in S[rev["committer"]]:
            f.add("ident-author")
    if case["plain"] and not case["no_tags"]:
        for t, r in case["tags"]:
            if r in anc and not _tag_ref_ok(S[t]):
                f.add("bad-tag")
    return f


_TREE = [("C44-rename-order", "rename-order"), ("C44-kind-change-directory", "kind-dir"),
         ("C44-rich-directory-rename-modified-child", "rich-dirmod"),
         ("C44-plain-directory-rename-swallows-delete", "swallow")]

# failure class -> [(finding id, feature that must be present in the input)]
_EXPLAIN = {
    "import-error:InconsistentDelta": _TREE,
    # a rename cycle makes _rename_pending_change trip over an entry it has already turned into a delete
    "import-error:AttributeError": [("C44-rename-order", "rename-order")],
    "tree": _TREE,
    "emptydir": [("C44-empty-directory", "emptydir")] + _TREE,
    "timestamp": [("C44-subsecond-timestamp", "subsecond")],
    "timezone": [("C44-timezone-minutes", "tzminutes")],
    "committer": [("C44-ident-normalised", "ident-committer")],
    "authors": [("C44-plain-multiple-authors", "multi-authors"), ("C44-ident-normalised", "ident-author"),
                ("C44-ident-normalised", "ident-committer")],
    "tags": [("C44-invalid-tag-names", "bad-tag")],
}


def _known_ids():
    try:
        import vlib
        return {e["id"] for e in vlib.load_known_findings(PROP)}
    except Exception:
        return set()


def explain(case, obs):
    """{finding ids} that together account for every violated clause, or None if one is unaccounted."""
    bad = _classes(case, obs)
    feats = _features(case)
    need = set()
    for cls in bad:
        hit = [fid for fid, feat in _EXPLAIN.get(cls, []) if feat in feats]
        if not hit:
            return None
        need.add(hit[0])
    return need


def finding_matches(fid, case, obs, why):
    need = explain(case, obs)
    if not need or fid not in need:
        return False
    return need <= _known_ids()          # a clause explained only by an unrecorded finding stays a violation


# ---------------------------------------------------------------------------- statistics

def nontrivial(case, obs):
    anc = _ancestors(case)
    if len(anc) < 2 or not isinstance(obs, list):
        return False
    for xc in obs[1]:
        if xc[3]:
            return True
    return False


def distribution(inputs, observations):
    out = {"cases": len(inputs), "plain": 0, "rich": 0, "import_ok": 0, "import_error": {}, "roundtrip_ok": 0,
           "classes": {}, "commits": 0, "R": 0, "D": 0, "M": 0, "merges": 0}
    for c, o in zip(inputs, observations):
        out["plain" if c["plain"] else "rich"] += 1
        if not isinstance(o, list):
            continue
        if isinstance(o[3], Err):
            out["import_error"][str(o[3])] = out["import_error"].get(str(o[3]), 0) + 1
        else:
            out["import_ok"] += 1
        bad = _classes(c, o)
        if not bad:
            out["roundtrip_ok"] += 1
        for b in bad:
            out["classes"][b] = out["classes"].get(b, 0) + 1
        for xc in o[1]:
            out["commits"] += 1
            out["merges"] += 1 if xc[2] else 0
            for x in xc[3]:
                out[str(x[0])] += 1
            out["M"] += len(xc[4])
    return out
