"""C31 -- Smart server clients cannot reach files outside the served directory (tie H).

Every case sends one client path to the REAL request classes
(`SmartServerRequest` for the plain verbs, `vfs.GetRequest` for the VFS verbs)
over a backing transport built by the REAL `BzrServerFactory._make_backing_transport`
(userdir filter -> ChrootServer -> LocalTransport) on a scratch tree that has
sentinel files outside the served directory.  A recording proxy sits between the
chroot and the LocalTransport, so the relpath that finally reaches the local
transport is observed, and the file actually read identifies itself by content.
"""
import os

from vlib import Tag, Err, coq_bytes, coq_list, coq_bool, coq_N

PROP = "C31"
COQ = {
    "property_file": "Properties/C31.v",
    "imports": "From BV Require Import Lib.Bytes Lib.Obs Model.Jail.",
}
META = {
    "level": "proof",
    "title": "Smart server clients cannot reach files outside the served directory",
    "technique": ("Coq theorems over a hand model of request.py/vfs.py/server.py path translation composed with a model of the "
                  "dromedary joinpath/escape/unescape/pathfilter/chroot/local-transport pipeline + correspondence on generated "
                  "client paths through a real BzrServerFactory backing transport over a scratch tree with outside sentinels"),
    "level_text": ("Proved for every byte string and every root client path, for the non-VFS verbs and for the VFS verbs "
                   "(VfsRequest.translate_client_path as of 54ddefb), that the path handed to the OS has no '..' segment "
                   "(never leaves the served directory). The translation before 54ddefb is machine-checked FALSE (two "
                   "witnesses, kept as regression inputs). _pre_open_hook: accepted URLs lie under an allowed root."),
    "level_note": ("Trusted: Coq kernel, vm_compute, the hand model's correspondence (bounded: exhaustive token sequences to length "
                   "3/4 + random), the environment model of the compiled dromedary code as exercised, lexical '..' resolution "
                   "(no symlinks in the served tree), the userdir expander hypothesis (stated in the theorem)."),
    "design_ref": "DESIGN.md §5 C31",
    "trusted_base": ["hand model coq/Model/Jail.v of breezy/bzr/smart/{request,vfs,server}.py",
                     "environment model (same file) of dromedary urlutils.joinpath/escape/unescape, PathFilteringTransport, "
                     "ChrootTransport, LocalTransport.get, validated by the correspondence run",
                     "correspondence harness harness/props/c31.py"],
    "assumptions": ["root_client_path is not None (None means 'no translation' by design)",
                    "no symlink inside the served directory points outside it; '..' is resolved lexically by the OS walk",
                    "userdir expander: if the expanded path falls below base_path, the remainder consists of harmless segments "
                    "whenever the input did (hypothesis Hexp of C31_plain_inside_root; holds for posixpath.expanduser with "
                    "home directories free of '%' and '..' and base_path ending in '/')",
                    "dromedary pathfilter/chroot normalise per segment: decode %XY of unreserved bytes, upper-case other escapes, "
                    "drop ''/'.', resolve '..' clamped at the root (validated, not proved)",
                    "POSIX"],
    "rule": ("client paths = token sequences over {/ . .. %2F %2f %2E %2e %5C ~ ~joe ~ann a f x secret e-acute %00 % %25 ...} "
             "x root client paths {/, /srv/, /srv/a/, srv} x {plain, VFS}; exhaustive to length 3 (quick) / 4 (thorough) over a core "
             "alphabet, then random longer ones; non-trivial = contains '.', '%', '~', NUL or a non-ASCII byte; "
             "jail: roots at depth 0/1/2 over real control directories x candidates {inside, equal, parent, unrelated sibling, "
             "string-prefix siblings name-x name.x names name%20x name/../name-x} x trailing slash x {filtered, chroot, local}"),
}
SHARD = 250

S = "1/2/3/srv/pub"
DIRS = ["1", "1/2", "1/2/3", "1/2/3/srv", S, S + "/a", S + "/a/b", "1/2/3/srv/secret", S + "/~ann", S + "/secret"]
FILES = [S + "/f", S + "/x", S + "/a/f", S + "/a/b/f", S + "/~ann/f", S + "/é", S + "/%2E%2E", S + "/a%2Ff", S + "/secret/f",
         "1/2/3/srv/f", "1/2/3/srv/x", "1/2/3/srv/secret/x", "1/2/3/srv/secret/f", "1/2/3/f", "1/2/f", "1/f", "f", "x"]

CORE = [b"/", b".", b"..", b"%2F", b"%2E", b"~joe", b"a", b"f", b"secret", b"%"]
MORE = [b"%2f", b"%2e", b"%5C", b"\\", b"~", b"~ann", b"~bob", b"~zed", b"b", b"x", b"pub", b"srv", "é".encode(), b"%C3%A9",
        b"%c3%a9", b"%00", b"\x00", b"%25", b"%32", b"%33", b"2E", b"2F", b"%7E", b"%7e", b"\xff", b"\xc3", b" ", b"%20", b"%zz",
        b"%4", b"%41", b"%FF", b"...", b"?", b"#", b",", b"=", b";"]
RCPS = ["/", "/srv/", "/srv/a/", "srv", "/a b", ""]

WITNESSES = [b"..%2Fsecret/x", b"%%%332E%%%332E/secret/x", b"a/..%2F..%2Ff", b"%2E%2E%2Fsecret%2Fx", b"~joe/..%2F..%2Fsecret/x",
             b"..%2f..%2F..%2f..%2F..%2Ff", b".%2E%2Fx"]

# locations (below T/j) that hold a real control directory
JAIL_LOCS = [""] + [pre + n for pre in ("", "d/") for n in
                    ("proj", "proj/in", "proj-x", "proj.x", "projs", "proj x", "other")] + ["d"]

_state = {}
_model_env = {}     # survives teardown(): model_term is evaluated after the run


class _Rec:
    """Recording proxy in front of the (compiled) LocalTransport."""

    def __init__(self, t, log):
        self._t = t
        self._log = log

    def __getattr__(self, name):
        a = getattr(self._t, name)
        if callable(a):
            def w(*args, **kw):
                self._log.append((name, args))
                return a(*args, **kw)
            return w
        return a


def _expander(path):
    """posixpath.expanduser with a fixed user database (deterministic)."""
    homes = _state["homes"]
    if not path.startswith("~"):
        return path
    i = path.find("/", 1)
    if i < 0:
        i = len(path)
    h = homes.get(path[1:i])
    if h is None:
        return path
    return (h.rstrip("/") + path[i:]) or "/"


def setup(scratch):
    import breezy
    import breezy.bzr  # noqa
    from breezy import transport as _mod_transport
    from breezy.bzr.smart import server
    os.environ.pop("BRZ_NO_SMART_VFS", None)      # VFS verbs must be enabled
    T = os.path.join(os.path.realpath(scratch), "t")
    for d in DIRS:
        os.makedirs(os.path.join(T, d))
    for f in FILES:
        with open(os.path.join(T, f).encode("utf-8"), "wb") as fh:
            fh.write(f.encode("utf-8"))
    served = os.path.join(T, S)
    _state["T"] = T
    _state["served"] = served
    _state["homes"] = {"": T + "/1/2/3/srv", "joe": served + "/a", "ann": T + "/1/2/3/srv/secret/", "bob": served}
    _state["log"] = []
    local = _mod_transport.get_transport_from_url("file://" + served + "/")
    _state["local"] = local
    factory = server.BzrServerFactory(userdir_expander=_expander)
    factory._make_backing_transport(_Rec(local, _state["log"]))
    _state["factory"] = factory
    _state["bt"] = factory.transport
    _state["base_path"] = factory.base_path
    _state["chroot_url"] = factory.cleanups[0].__self__.get_url()
    _model_env["T"] = T
    _state["log_bare"] = []
    _state["bare"] = _Rec(local, _state["log_bare"])
    _state["served_url"] = local.base
    # second served tree T/j with REAL control directories, for the jail cases
    from breezy import controldir
    J = os.path.join(T, "j")
    fmt = controldir.format_registry.make_controldir("2a")
    for loc in JAIL_LOCS:
        d = os.path.join(J, loc) if loc else J
        os.makedirs(d, exist_ok=True)
    for loc in JAIL_LOCS:
        controldir.ControlDir.create("file://" + (os.path.join(J, loc) if loc else J).replace(" ", "%20") + "/", format=fmt)
    local2 = _mod_transport.get_transport_from_url("file://" + J + "/")
    factory2 = server.BzrServerFactory(userdir_expander=lambda p: p)
    factory2._make_backing_transport(local2)
    _state["factory2"] = factory2
    _state["jroots"] = {0: factory2.transport.base, 1: factory2.cleanups[0].__self__.get_url(), 2: "file://" + J + "/"}
    # the Coq side (Model/Jail.v: run_case_T / std_homes) derives base_path and the user database from T
    if factory.base_path != T + "/" + S + "/":
        raise RuntimeError("unexpected base_path %r" % (factory.base_path,))


def teardown():
    for f in (_state.get("factory2"), _state.get("factory")):
        if f is None:
            continue
        for c in reversed(f.cleanups):
            try:
                c()
            except Exception:
                pass
    _state.clear()


def _path_case(rcp, path, vfs):
    return {"kind": "path", "rcp": rcp, "path": bytes(path), "vfs": bool(vfs)}


def _bare_case(rcp, path, vfs):
    """Same request classes, but over a bare LocalTransport (no chroot stack below)."""
    return {"kind": "bare", "rcp": rcp, "path": bytes(path), "vfs": bool(vfs)}


def _thr(ops):
    return {"kind": "jailthr", "ops": [list(o) for o in ops]}


def _tilde_traversals():
    """Home-directory prefix followed by enough literal '..' to climb above the root."""
    out = []
    for rcp in ("/", "/srv/", "srv"):
        r = rcp if rcp.startswith("/") else "/" + rcp
        if not r.endswith("/"):
            r += "/"
        for home in (b"~", b"~joe", b"~ann", b"~zed"):
            for k in (1, 2, 3):
                for tail in (b"f", b"secret/x"):
                    p = r.encode() + home + b"/" + b"../" * k + tail
                    for vfs in (True, False):
                        out.append(_path_case(rcp, p, vfs))
                        out.append(_bare_case(rcp, p, vfs))
    return out


def corpus():
    out = []
    out.append(_bare_case("/", b"~/../../f", True))
    out.append(_bare_case("/", b"~ann/../../x", True))
    out.append(_bare_case("/srv/", b"/srv/~joe/../../secret/x", False))
    out.append(_bare_case("/", b"a/f", True))
    out.append(_bare_case("/", b"..%2Fsecret/x", True))
    # another connection's request finishes while this one is between setup_jail and its open
    out.append(_thr([("setup", 0, "proj"), ("setup", 1, ""), ("teardown", 1), ("open", 0, "proj-x")]))
    out.append(_thr([("setup", 0, "d/proj"), ("setup", 1, "d/proj"), ("open", 1, "d/proj/in"), ("teardown", 1),
                     ("open", 0, "other"), ("open", 0, "d/proj/in")]))
    for w in WITNESSES:
        for vfs in (True, False):
            out.append(_path_case("/", w, vfs))
    out.append(_path_case("/srv/", b"/srv/..%2Fsecret/x", True))
    out.append(_path_case("/srv/", b"/srv", True))
    out.append(_path_case("/srv/", b"/srvx/a", False))
    out.append(_path_case("/", b"%%34%31", True))
    out.append(_path_case("/", b"a/../../f", False))
    return out


def _dotty(tok):
    return b"." in tok or b"2E" in tok or b"2e" in tok


def _ok_len(toks):
    return sum(1 for t in toks if _dotty(t)) <= 5 and sum(len(t) for t in toks) <= 60


def _with_root(rng, rcp, body):
    r = rcp if rcp.startswith("/") else "/" + rcp
    if not r.endswith("/"):
        r += "/"
    k = rng.random()
    if rcp in ("/", ""):
        return body if k < 0.8 else b"/" + body
    if k < 0.75:
        return r.encode() + body
    if k < 0.85:
        return r.encode()[1:] + body          # no leading slash
    if k < 0.9:
        return r.encode()[:-1] + (b"" if rng.random() < 0.5 else body)
    return body


def _jail_cases(rng, n):
    roots = [[], ["a"], ["a", "b"], ["ab"]]
    targets = [[], ["a"], ["a", "b"], ["a", "x"], ["ab"], ["b"], ["a", "b", "c"]]
    out = []
    for root in roots:
        for kind in (0, 1, 2):
            for tg in targets:
                for jail in (True, False):
                    out.append({"kind": "jail", "root": root, "server": kind, "target": tg, "jail": jail})
    rng.shuffle(out)
    return out[:n]


def _real(cand):
    """Where a candidate URL path really is (segments below the server root)."""
    out = []
    for seg in cand.replace("%20", " ").split("/"):
        if seg == "..":
            out = out[:-1]
        elif seg not in ("", "."):
            out.append(seg)
    return out


def _jail2_cases():
    out = []
    for P in ("", "d"):
        pre = P + "/" if P else ""
        root = pre + "proj"
        cands = [pre + "proj/in", pre + "proj", P, pre + "other", pre + "proj-x", pre + "proj.x", pre + "projs",
                 pre + "proj%20x", pre + "proj/../proj-x", pre + "proj/in/../../proj.x", pre + "proj/in/../../projs"]
        for rsrv in (0, 1, 2):
            for csrv in (0, 1, 2):
                for cand in cands:
                    for rs in ("", "/"):
                        for cs in ("", "/"):
                            if (rs or cs) and rsrv != csrv:
                                continue        # trailing-slash variants on the same server only
                            if cs and not cand:
                                continue
                            out.append({"kind": "jail2", "jail": True, "rsrv": rsrv, "root": root + rs,
                                        "csrv": csrv, "cand": cand + cs, "real_root": _real(root), "real": _real(cand)})
        for cand in cands[:6]:
            out.append({"kind": "jail2", "jail": False, "rsrv": 0, "root": root, "csrv": 0, "cand": cand,
                        "real_root": _real(root), "real": _real(cand)})
    # the chroot root itself as the jail (what the server does by default): everything on that server is inside
    for srv in (0, 1, 2):
        for cand in ("", "proj", "d/proj-x", "other/"):
            out.append({"kind": "jail2", "jail": True, "rsrv": srv, "root": "", "csrv": srv, "cand": cand,
                        "real_root": [], "real": _real(cand)})
    return out


def _jailthr_cases(rng, n):
    """Interleavings of setup_jail / teardown_jail / open issued by two request threads."""
    roots = ["proj", "d/proj", "", "other"]
    cands = ["proj", "proj/in", "proj-x", "other", "d/proj", "d/proj/in", "d/projs", "d", ""]
    out = []
    for _ in range(n):
        ops = []
        for _ in range(rng.randint(3, 7)):
            th = rng.randint(0, 1)
            k = rng.random()
            if k < 0.3:
                ops.append(("setup", th, rng.choice(roots)))
            elif k < 0.5:
                ops.append(("teardown", th))
            else:
                ops.append(("open", th, rng.choice(cands)))
        out.append(_thr(ops))
    return out


def cases(rng, tier):
    import itertools
    maxlen = 3 if tier == "quick" else 4
    for n in range(0, maxlen + 1):
        for toks in itertools.product(CORE, repeat=n):
            if not _ok_len(toks):
                continue
            p = b"".join(toks)
            yield _path_case("/", p, True)
            yield _path_case("/", p, False)
    nrand = 1500 if tier == "quick" else 10000
    alpha = CORE * 3 + MORE
    for _ in range(nrand):
        n = rng.randint(1, 7)
        toks = [rng.choice(alpha) for _ in range(n)]
        if rng.random() < 0.5:        # mostly path-shaped: separators between tokens
            toks = [x for t in toks for x in (t, b"/")][:-1]
        if not _ok_len(toks):
            continue
        rcp = rng.choice(RCPS) if rng.random() < 0.5 else "/"
        yield _path_case(rcp, _with_root(rng, rcp, b"".join(toks)), rng.random() < 0.6)
    for c in _tilde_traversals():
        yield c
    for _ in range(300 if tier == "quick" else 3000):      # general paths over the bare backing transport
        n = rng.randint(1, 6)
        toks = [rng.choice(alpha) for _ in range(n)]
        if rng.random() < 0.6:
            toks = [x for t in toks for x in (t, b"/")][:-1]
        if not _ok_len(toks):
            continue
        rcp = rng.choice(RCPS) if rng.random() < 0.4 else "/"
        yield _bare_case(rcp, _with_root(rng, rcp, b"".join(toks)), rng.random() < 0.6)
    for c in _jailthr_cases(rng, 60 if tier == "quick" else 400):
        yield c
    for c in _jail2_cases():
        yield c
    for c in _jail_cases(rng, 168):      # all of them: 'a' vs 'ab' is a string-prefix sibling
        yield c


def _classify(fn):
    """Run the final read; map the outcome to the model's vocabulary."""
    from breezy import errors
    from breezy.transport import NoSuchFile
    from dromedary import urlutils
    from dromedary import errors as derrors
    try:
        body = fn()
    except NoSuchFile:
        return Tag("missing")
    except derrors.ReadError:
        return Tag("dir")
    except urlutils.InvalidURL:
        return Err("InvalidURL")
    except OSError:
        return Err("OSError")
    return bytes(body)


def _steps_inside(reached):
    """The property's predicate: the OS walk of base + unescape(reached) never steps above the served directory."""
    from dromedary import urlutils
    try:
        d = urlutils.unescape(reached)
    except urlutils.InvalidURL:
        return None
    depth = 0
    for seg in d.split("/"):
        if seg == "..":
            depth -= 1
            if depth < 0:
                return False
        elif seg not in ("", "."):
            depth += 1
    return True


def impl(inp):
    from breezy.bzr.smart import request, vfs
    from breezy import errors
    from dromedary.errors import PathNotChild
    from dromedary import urlutils
    bt = _state["bt"]
    log = _state["log"]
    if inp["kind"] == "bare":
        path = bytes(inp["path"])
        cls = vfs.GetRequest if inp["vfs"] else request.SmartServerRequest
        req = cls(_state["bare"], inp["rcp"])
        try:
            tr = req.translate_client_path(path)
        except (UnicodeDecodeError, PathNotChild, urlutils.InvalidURLJoin, urlutils.InvalidURL, ValueError, IndexError) as e:
            return [Err(type(e).__name__)]
        trb = tr.encode("utf-8", "surrogateescape")
        if inp["vfs"]:
            blog = _state["log_bare"]
            del blog[:]
            out = _classify(lambda: req.execute(path).body)
            gets = [a[0] for (name, a) in blog if name == "get_bytes"]
            if len(gets) != 1:
                raise RuntimeError("expected exactly one get_bytes on the local transport, saw %r" % (blog,))
            return [trb, out, _steps_inside(gets[0]), gets[0].encode("utf-8", "surrogateescape")]
        try:
            t = req.transport_from_client_path(path)
        except (urlutils.InvalidURL, ValueError, OSError) as e:
            return [trb, None, None]
        return [trb, t.base.encode("utf-8", "surrogateescape"), t.base.startswith(_state["served_url"])]
    if inp["kind"] == "jailthr":
        import queue
        import threading
        from breezy import transport as _mod_transport
        from breezy.bzr import bzrdir
        base = _state["jroots"][0]
        bt2 = _state["factory2"].transport
        held = {}

        def do(op):
            if op[0] == "setup":
                r = request.SmartServerRequest(bt2, "/", jail_root=_mod_transport.get_transport_from_url(base + op[2]))
                r.setup_jail()
                held[op[1]] = r
                return None
            if op[0] == "teardown":
                request.SmartServerRequest(bt2, "/").teardown_jail()
                return None
            target = _mod_transport.get_transport_from_url(base + op[2])
            try:
                request._pre_open_hook(target)
                hook = True
            except errors.JailBreak:
                hook = False
            try:
                bzrdir.BzrDir.open_from_transport(target)
                opened = "opened"
            except errors.JailBreak:
                opened = "JailBreak"
            except errors.NotBranchError:
                opened = "NotBranchError"
            return [hook, opened]

        def worker(q, res):
            while True:
                op = q.get()
                if op is None:
                    return
                try:
                    res.put(("ok", do(op)))
                except BaseException as e:      # noqa
                    res.put(("exc", e))

        qs = [queue.Queue(), queue.Queue()]
        res = queue.Queue()
        ths = [threading.Thread(target=worker, args=(q, res), daemon=True) for q in qs]
        for t in ths:
            t.start()
        outs = []
        try:
            for op in inp["ops"]:
                qs[op[1]].put(tuple(op))
                kind, val = res.get(timeout=60)
                if kind == "exc":
                    raise val
                if op[0] == "open":
                    outs.append(val)
        finally:
            for q in qs:
                q.put(None)
            for t in ths:
                t.join(10)
        return outs
    if inp["kind"] == "jail2":
        from breezy import transport as _mod_transport
        from breezy.bzr import bzrdir
        jr = _state["jroots"]
        root_t = _mod_transport.get_transport_from_url(jr[inp["rsrv"]] + inp["root"])
        target = _mod_transport.get_transport_from_url(jr[inp["csrv"]] + inp["cand"])
        if not target.base.startswith(jr[inp["csrv"]]):
            raise RuntimeError("candidate left its server root: %r" % (target.base,))
        r = request.SmartServerRequest(_state["factory2"].transport, "/", jail_root=root_t)
        if inp["jail"]:
            r.setup_jail()
        try:
            # a LocalTransport jail root refuses a non-file URL with InvalidURL instead of
            # PathNotChild/JailBreak: still a refusal (recorded in `opened`)
            try:
                request._pre_open_hook(target)
                hook = True
            except (errors.JailBreak, urlutils.InvalidURL):
                hook = False
            try:
                bzrdir.BzrDir.open_from_transport(target)
                opened = "opened"
            except errors.JailBreak:
                opened = "JailBreak"
            except urlutils.InvalidURL:
                opened = "InvalidURL"
            except errors.NotBranchError:
                opened = "NotBranchError"
        finally:
            r.teardown_jail()
        return [hook, target.base[len(jr[inp["csrv"]]):].rstrip("/").encode("utf-8"), opened]
    if inp["kind"] == "jail":
        from breezy import transport as _mod_transport
        from breezy.bzr import bzrdir
        root_t = bt.clone("/".join(inp["root"]))
        r = request.SmartServerRequest(bt, "/", jail_root=root_t)
        base = {0: bt.base, 1: _state["chroot_url"], 2: "file://" + _state["served"] + "/"}[inp["server"]]
        target = _mod_transport.get_transport_from_url(base + "/".join(inp["target"]))
        if inp["jail"]:
            r.setup_jail()
        try:
            try:
                request._pre_open_hook(target)
                hook = True
            except errors.JailBreak:
                hook = False
            try:
                bzrdir.BzrDir.open_from_transport(target)
                opened = "opened"
            except errors.JailBreak:
                opened = "JailBreak"
            except errors.NotBranchError:
                opened = "NotBranchError"
        finally:
            r.teardown_jail()
        return [hook, opened]
    path = bytes(inp["path"])
    cls = vfs.GetRequest if inp["vfs"] else request.SmartServerRequest
    req = cls(bt, inp["rcp"])
    try:
        tr = req.translate_client_path(path)
    except (UnicodeDecodeError, PathNotChild, urlutils.InvalidURLJoin, urlutils.InvalidURL, ValueError, IndexError) as e:
        return [Err(type(e).__name__)]
    del log[:]
    if inp["vfs"]:
        base = None
        out = _classify(lambda: req.execute(path).body)
    else:
        t = req.transport_from_client_path(path)
        base = t.base.split("://", 1)[1].encode("utf-8")
        out = _classify(lambda: t.get_bytes("."))
    gets = [a[0] for (name, a) in log if name == "get"]
    if len(gets) != 1:
        raise RuntimeError("expected exactly one get on the local transport, saw %r" % (log,))
    reached = gets[0]
    return [tr.encode("utf-8", "surrogateescape"), base, reached.encode("utf-8", "surrogateescape"), out, _steps_inside(reached)]


def _cb(s):
    return coq_bytes(s.encode("utf-8") if isinstance(s, str) else bytes(s))


def _segs(l):
    return coq_list([_cb(x) for x in l]) if l else "(@nil bytes)"


def model_term(inp):
    if inp["kind"] == "bare":
        return f"run_case_bare {coq_bool(inp['vfs'])} {_cb(inp['rcp'])} {_cb(inp['path'])}"
    if inp["kind"] == "jailthr":
        def one(op):
            if op[0] == "setup":
                return f"SSetup {coq_N(op[1])} {_cb(op[2])}"
            if op[0] == "teardown":
                return f"STeardown {coq_N(op[1])}"
            return f"SOpen {coq_N(op[1])} {_cb(op[2])}"
        return "run_jail_threads " + coq_list([one(o) for o in inp["ops"]])
    if inp["kind"] == "jail2":
        return (f"run_jail2 {coq_bool(inp['jail'])} {coq_N(inp['rsrv'])} {_cb(inp['root'])} "
                f"{coq_N(inp['csrv'])} {_cb(inp['cand'])}")
    if inp["kind"] == "jail":
        allowed = f"(Some [(0%N, {_segs(inp['root'])})])" if inp["jail"] else "None"
        return f"run_jail {allowed} ({coq_N(inp['server'])}, {_segs(inp['target'])})"
    return f"run_case_T {_cb(_model_env['T'])} {coq_bool(inp['vfs'])} {_cb(inp['rcp'])} {_cb(inp['path'])}"


def impl_obs(inp, obs):
    if isinstance(obs, Err):
        return obs
    if inp["kind"] == "jail":
        return obs[0]
    if inp["kind"] == "jail2":
        return obs[:2]
    if inp["kind"] == "jailthr":
        return [o[0] for o in obs]
    if inp["kind"] == "bare":
        if len(obs) == 1:
            return obs
        return obs[:3] if inp["vfs"] else obs[:1]
    return obs


def oracle(inp, obs):
    """Rejected, or the resolved local path is inside the served directory."""
    if isinstance(obs, Err):
        return "driver error " + str(obs)
    if inp["kind"] == "bare":
        if len(obs) == 1:
            return None
        who = f"client path {bytes(inp['path'])!r} ({'VFS' if inp['vfs'] else 'plain'} verb, root {inp['rcp']!r}, bare local backing transport)"
        if inp["vfs"]:
            tr, out, inside, reached = obs
            if isinstance(out, bytes) and not out.decode("utf-8", "replace").startswith(S + "/"):
                return f"{who} read the file {out!r} outside the served directory {S!r} (relpath {reached!r})"
            if inside is False:
                return f"{who} was translated to {reached!r}, which resolves above the served directory (outcome {out!r})"
            return None
        tr, base, inside = obs
        if inside is False:
            return f"{who}: transport_from_client_path returned a transport at {base!r}, outside the served directory"
        return None
    if inp["kind"] == "jailthr":
        jail = {}
        k = 0
        for op in inp["ops"]:
            if op[0] == "setup":
                jail[op[1]] = _real(op[2])
            elif op[0] == "teardown":
                jail.pop(op[1], None)
            else:
                hook, opened = obs[k]
                k += 1
                rr = jail.get(op[1])
                if rr is not None and _real(op[2])[:len(rr)] != rr and (hook or opened == "opened"):
                    return (f"thread {op[1]} is inside a request jailed at {'/'.join(rr)!r}; after the operations {inp['ops']!r} "
                            f"(other thread's requests included) its open of {op[2]!r} outside the jail gave hook={hook} {opened}")
        return None
    if inp["kind"] == "jail2":
        hook, base, opened = obs
        rr = inp["real_root"]
        outside = inp["rsrv"] != inp["csrv"] or inp["real"][:len(rr)] != rr
        if inp["jail"] and outside:
            if opened == "opened":
                return (f"with the jail at {inp['root']!r} (server {inp['rsrv']}), BzrDir.open_from_transport of the location "
                        f"{inp['cand']!r} (server {inp['csrv']}, really {'/'.join(inp['real'])!r}) OUTSIDE the jail returned a control dir")
            if hook:
                return f"_pre_open_hook accepted {inp['cand']!r} outside the jail {inp['root']!r}"
        if not outside and opened != "opened":
            return f"open of {inp['cand']!r} inside the jail {inp['root']!r} was refused: {opened}"
        return None
    if inp["kind"] == "jail":
        hook, opened = obs
        inside = inp["server"] == 0 and inp["target"][:len(inp["root"])] == inp["root"]
        if inp["jail"] and not inside and opened != "JailBreak":
            return f"BzrDir.open of {inp['target']} (server {inp['server']}) outside jail {inp['root']} gave {opened}"
        if inp["jail"] and not inside and hook:
            return "_pre_open_hook accepted a transport outside the jail"
        return None
    if len(obs) == 1:
        return None                      # rejected by translate_client_path
    tr, base, reached, out, inside = obs
    if isinstance(out, bytes) and not out.decode("utf-8", "replace").startswith(S + "/"):
        return (f"client path {bytes(inp['path'])!r} ({'VFS' if inp['vfs'] else 'plain'} verb, root {inp['rcp']!r}) "
                f"read the file {out!r} outside the served directory {S!r} (local relpath {reached!r})")
    if inside is False:
        return (f"client path {bytes(inp['path'])!r} ({'VFS' if inp['vfs'] else 'plain'} verb, root {inp['rcp']!r}) "
                f"reached the local transport as {reached!r}, which resolves above the served directory (outcome {out!r})")
    return None


def finding_matches(fid, inp, obs, why):
    # C31-vfs-encoded-dotdot is fixed in /repo (54ddefb); a fixed entry suppresses nothing and
    # nothing is excused here: any oracle failure is a violation.
    return False


def nontrivial(inp, obs):
    if inp["kind"] in ("jail", "jail2"):
        return inp["jail"]
    if inp["kind"] == "jailthr":
        return True
    p = bytes(inp["path"])
    return any(c in p for c in b".%~\x00") or any(c >= 128 for c in p)


def distribution(inputs, observations):
    d = {"plain": 0, "vfs": 0, "jail": 0, "rejected_by_translate": 0, "read_a_file": 0, "read_outside": 0,
         "resolves_above": 0, "userdir_expanded": 0, "by_root": {}}
    for i, o in zip(inputs, observations):
        if i["kind"] in ("jail", "jail2", "jailthr"):
            d["jail"] += 1
            continue
        if i["kind"] == "bare":
            d["bare"] = d.get("bare", 0) + 1
            continue
        d["vfs" if i["vfs"] else "plain"] += 1
        d["by_root"][i["rcp"]] = d["by_root"].get(i["rcp"], 0) + 1
        if isinstance(o, Err):
            continue
        if len(o) == 1:
            d["rejected_by_translate"] += 1
            continue
        if isinstance(o[3], bytes):
            d["read_a_file"] += 1
            if not o[3].decode("utf-8", "replace").startswith(S + "/"):
                d["read_outside"] += 1
        if o[4] is False:
            d["resolves_above"] += 1
        if b"~" in o[0] and b"~" not in o[2]:
            d["userdir_expanded"] += 1
    return d
