"""C45 -- End-of-line filters round-trip canonical content (tie H, exhaustive small domain)."""
import io
import itertools
import os
import shutil

from vlib import Tag, Err, coq_bytes

PROP = "C45"
COQ = {
    "property_file": "Properties/C45.v",
    "imports": "From BV Require Import Lib.Bytes Model.Eol.",
}
META = {
    "level": "proof",
    "title": "End-of-line filters round-trip canonical content",
    "technique": "Coq theorems over a hand model of filters/eol.py + exhaustive small-domain correspondence (vm_compute) + real checkouts",
    "level_text": ("Round trip reader(writer x)=x proved in Coq for every byte string and every LF-in-repository setting, "
                   "binary pass-through for all settings, guarded round trip + machine-checked refutation (CR CR LF) for the "
                   "*-with-crlf-in-repo settings. Hand model tied to filters/eol.py and filters/__init__.py by exhaustive "
                   "comparison on all strings over {CR,LF,NUL,a} up to a length bound, and to dirstate checkouts by real trees."),
    "level_note": ("Trusted: Coq kernel, vm_compute, the hand model's correspondence (bounded: exhaustive to length 5/7), "
                   "Python re/bytes.replace semantics as exercised; POSIX branch of _native_output only."),
    "design_ref": "DESIGN.md §5 C45",
    "trusted_base": ["hand model coq/Model/Eol.v of breezy/filters/eol.py (POSIX _native_output)",
                     "correspondence harness harness/props/c45.py"],
    "assumptions": ["sys.platform != win32", "one eol filter on the stack (no other content filters configured)"],
    "rule": "all byte strings over {CR,LF,NUL,'a'} up to the tier's length bound x 7 settings; non-trivial = contains CR or LF",
}

SETTINGS = {
    "exact": "Exact", "native": "Native", "lf": "Lf", "crlf": "Crlf",
    "native-with-crlf-in-repo": "NativeCrlfRepo",
    "lf-with-crlf-in-repo": "LfCrlfRepo",
    "crlf-with-crlf-in-repo": "CrlfCrlfRepo",
}
ALPHA = [13, 10, 0, 97]
_state = {}


def setup(scratch):
    import breezy
    import breezy.bzr  # noqa
    from breezy import bedding, rules
    _state["dir"] = scratch
    os.makedirs(bedding.config_dir(), exist_ok=True)
    _state["rules"] = rules.rules_path()
    _state["n"] = 0


def teardown():
    try:
        os.unlink(_state["rules"])
    except OSError:
        pass
    from breezy import rules
    rules.reset_rules()


def corpus():
    out = []
    for s in SETTINGS:
        for x in (b"\r\r\n", b"a\r\r\nb", b"\r\n", b"\n", b"\r", b"a\x00\r\n", b"\r\n\r\n", b"\n\r\n\r"):
            out.append({"kind": "conv", "setting": s, "x": x})
    return out


def cases(rng, tier):
    maxlen = 5 if tier == "quick" else 6
    for s in SETTINGS:
        for n in range(maxlen + 1):
            for t in itertools.product(ALPHA, repeat=n):
                yield {"kind": "conv", "setting": s, "x": bytes(t)}
    # random longer inputs
    for _ in range(300 if tier == "quick" else 5000):
        n = rng.randint(8, 40)
        x = bytes(rng.choice([13, 10, 13, 10, 97, 98, 32, 0] if rng.random() < 0.2 else [13, 10, 13, 10, 97, 98, 32])
                  for _ in range(n))
        yield {"kind": "conv", "setting": rng.choice(list(SETTINGS)), "x": x}
    big = _big_cases(rng, tier)
    for i, parts in enumerate(big):
        for st in (list(SETTINGS) if i < 12 or tier != "quick" else [rng.choice(list(SETTINGS))]):
            yield {"kind": "bigconv", "setting": st, "parts": parts}
    for i, parts in enumerate(big[: (6 if tier == "quick" else 40)]):
        yield {"kind": "bigcheckout", "setting": ["crlf", "lf", "native", "crlf-with-crlf-in-repo"][i % 4], "parts": parts}
    # canonical LF text whose working-tree form has CR LF straddling typical read-buffer sizes,
    # and the filtered size/sha1 the dirstate uses to decide "unchanged"
    for boundary in (65000, 65536, 8192, 131072):
        for parts in ([[97, boundary - 1], [10, 1], [98, 5]],
                      [[97, boundary - 2], [10, 1], [98, boundary - 1], [10, 1], [99, 3]]):
            yield {"kind": "bigcheckout", "setting": "crlf", "parts": parts}
            yield {"kind": "bigsha", "setting": "crlf", "parts": parts}
        yield {"kind": "bigsha", "setting": "lf", "parts": [[97, boundary + 3], [10, 1], [0, 1], [13, 1], [10, 1]]}
    # real checkouts
    nco = 40 if tier == "quick" else 400
    pool = [b"a\nb\n", b"a\r\nb\r\n", b"\r\r\n", b"a\x00\r\n", b"a\rb", b"", b"\n", b"\r\n"]
    for i in range(nco):
        if i < len(pool) * 2:
            x = pool[i % len(pool)]
        else:
            x = bytes(rng.choice([13, 10, 97]) for _ in range(rng.randint(0, 8)))
        yield {"kind": "checkout", "setting": rng.choice(list(SETTINGS)), "x": x}


def _expand(parts):
    return b"".join(bytes([b]) * n for b, n in parts)


def _digest(x):
    acc = 0
    for i, b in enumerate(x):
        acc = (acc + (i % 251 + 1) * b) % 1000003
    return [len(x), acc]


def _big_cases(rng, tier):
    """Long contents: NUL far from the start, CR LF straddling typical buffer sizes."""
    out = []
    for boundary in (4096, 8000, 8192, 65000, 65536, 131072):
        out.append([[97, boundary - 1], [13, 1], [10, 1], [98, 5]])            # CR|LF across the boundary
        out.append([[97, boundary - 2], [13, 1], [10, 1], [98, 5]])
        out.append([[97, boundary], [10, 1], [98, 3], [0, 1], [13, 1], [10, 1]])   # first NUL beyond the boundary
        out.append([[97, boundary - 1], [10, 1], [98, boundary], [13, 1], [10, 1], [0, 1]])
        out.append([[13, 1], [10, 1], [97, boundary + 7], [0, 1]])
    n = 6 if tier == "quick" else 60
    for _ in range(n):
        parts = []
        for _ in range(rng.randint(2, 6)):
            parts.append([rng.choice([97, 98, 32]), rng.choice([1, 100, 4095, 7999, 8191, 64999, 65535])])
            parts.append([rng.choice([13, 10, 13, 10, 0]), 1])
            if rng.random() < 0.5:
                parts.append([10, 1])
        out.append(parts)
    return out


def _setrule(s):
    from breezy import rules
    with open(_state["rules"], "w") as f:
        f.write("[name *]\neol = %s\n" % s)
    rules.reset_rules()


def impl(inp):
    big = inp["kind"].startswith("big")
    x = _expand(inp["parts"]) if big else bytes(inp["x"])
    if inp["kind"] == "bigsha":
        import hashlib
        from breezy.filters import filtered_input_file, filtered_output_bytes, internal_size_sha_file_byname
        from breezy.filters.eol import eol_lookup
        filters = eol_lookup(inp["setting"])
        w = b"".join(filtered_output_bytes([x], filters))
        _state["n"] += 1
        name = os.path.join(_state["dir"], "sha%d" % _state["n"])
        with open(name, "wb") as f:
            f.write(w)
        try:
            size, sha = internal_size_sha_file_byname(name, filters)
        finally:
            os.unlink(name)
        rr = filtered_input_file(io.BytesIO(w), filters)[0].read()
        sha = sha.decode() if isinstance(sha, bytes) else sha
        return [size, sha == hashlib.sha1(rr).hexdigest()]
    if inp["kind"] in ("conv", "bigconv"):
        from breezy.filters import filtered_input_file, filtered_output_bytes
        from breezy.filters.eol import eol_lookup
        filters = eol_lookup(inp["setting"])
        w = b"".join(filtered_output_bytes([x], filters))
        rr = filtered_input_file(io.BytesIO(w), filters)[0].read()
        r0 = filtered_input_file(io.BytesIO(x), filters)[0].read()
        if big:
            return [_digest(w), _digest(rr), _digest(r0), rr == x]
        return [w, rr, r0]
    from breezy import controldir
    _state["n"] += 1
    base = os.path.join(_state["dir"], "co%d" % _state["n"])
    try:
        _setrule("exact")
        wt = controldir.ControlDir.create_standalone_workingtree(
            base + "w", format=controldir.format_registry.make_controldir("2a"))
        with open(base + "w/f", "wb") as f:
            f.write(x)
        wt.add(["f"])
        wt.commit("c")
        _setrule(inp["setting"])
        co = wt.branch.create_checkout(base + "c", lightweight=True)
        with open(base + "c/f", "rb") as f:
            disk = f.read()
        co = co.controldir.open_workingtree()
        with co.lock_read():
            ch = list(co.iter_changes(co.basis_tree()))
        if big:
            return [_digest(disk), len(ch) == 0]
        return [disk, len(ch) == 0]
    finally:
        shutil.rmtree(base + "w", ignore_errors=True)
        shutil.rmtree(base + "c", ignore_errors=True)


def model_term(inp):
    if inp["kind"].startswith("big"):
        f = {"bigconv": "run_big", "bigcheckout": "run_checkout_big", "bigsha": "run_sha_big"}[inp["kind"]]
        parts = "[" + "; ".join(f"({b}%N, {n}%N)" for b, n in inp["parts"]) + "]"
        return f"{f} {SETTINGS[inp['setting']]} {parts}"
    f = "run_case" if inp["kind"] == "conv" else "run_checkout"
    return f"{f} {SETTINGS[inp['setting']]} {coq_bytes(bytes(inp['x']))}"


def oracle(inp, obs):
    """The property itself, on the implementation's observation."""
    if isinstance(obs, Err):
        return "driver error " + str(obs)
    if inp["kind"].startswith("big"):
        x = _expand(inp["parts"])
        from breezy.filters import filtered_input_file
        from breezy.filters.eol import eol_lookup
        flt = eol_lookup(inp["setting"])
        if inp["kind"] == "bigconv":
            dw, drr, dr0, same = obs
            if 0 in x:
                if dw != _digest(x) or dr0 != _digest(x):
                    return "binary content (contains NUL) was converted (long input)"
                return None
            if dr0 == _digest(x) and not same:
                return "canonical long text does not round-trip"
            return None
        if inp["kind"] == "bigsha":
            size, shaok = obs
            canonical = filtered_input_file(io.BytesIO(x), flt)[0].read() == x
            if canonical and 0 not in x and (size != len(x) or not shaok):
                return f"filtered size/sha1 of the working file of a canonical {len(x)}-byte text differ from the stored text"
            return None
        ddisk, clean = obs
        canonical = filtered_input_file(io.BytesIO(x), flt)[0].read() == x
        if canonical and not clean:
            return f"fresh checkout of a canonical long file ({len(x)} bytes) under eol={inp['setting']} reports changes"
        return None
    x = bytes(inp["x"])
    if inp["kind"] == "conv":
        w, rr, r0 = obs
        if 0 in x:
            if w != x or r0 != x:
                return "binary content (contains NUL) was converted"
            return None
        if r0 == x and rr != x:   # canonical but does not round-trip
            return f"canonical text {x!r} written as {w!r} reads back as {rr!r}"
        return None
    disk, clean = obs
    from breezy.filters import filtered_input_file
    from breezy.filters.eol import eol_lookup
    canonical = filtered_input_file(io.BytesIO(x), eol_lookup(inp["setting"]))[0].read() == x
    if canonical and not clean:
        return f"fresh checkout of canonical {x!r} under eol={inp['setting']} reports changes (disk {disk!r})"
    return None


def finding_matches(fid, inp, obs, why):
    if fid == "C45-crcrlf" and inp["kind"].startswith("big"):
        x = _expand(inp["parts"])
        return (inp["setting"] in ("lf-with-crlf-in-repo", "native-with-crlf-in-repo")
                and b"\r\r\n" in x and 0 not in x)
    if fid == "C45-crcrlf":
        return (inp["setting"] in ("lf-with-crlf-in-repo", "native-with-crlf-in-repo")
                and b"\r\r\n" in bytes(inp["x"]) and 0 not in bytes(inp["x"]))
    return False


def nontrivial(inp, obs):
    if inp["kind"].startswith("big"):
        return True
    return 13 in bytes(inp["x"]) or 10 in bytes(inp["x"])


def distribution(inputs, observations):
    d = {"conv": 0, "checkout": 0, "with_nul": 0, "canonical": 0, "by_len": {}}
    for i, o in zip(inputs, observations):
        d[i["kind"]] = d.get(i["kind"], 0) + 1
        if i["kind"].startswith("big"):
            continue
        x = bytes(i["x"])
        if 0 in x:
            d["with_nul"] += 1
        if i["kind"] == "conv" and not isinstance(o, Err) and o[2] == x:
            d["canonical"] += 1
        k = str(min(len(x), 9))
        d["by_len"][k] = d["by_len"].get(k, 0) + 1
    return d


def shrink(inp, fails):
    if inp["kind"].startswith("big"):
        return inp
    x = bytes(inp["x"])
    changed = True
    while changed:
        changed = False
        for i in range(len(x)):
            y = x[:i] + x[i + 1:]
            cand = dict(inp, x=y)
            if fails(cand):
                x, changed = y, True
                break
    return dict(inp, x=x)
