"""C27 -- Lock operations leave recoverable state at every crash point (tie H, same model and driver as C26).

Every case = one scenario stopped after k transport operations (crash prefix) or with a transport fault injected
at one operation, followed by a FRESH LockDir (the recovery locker): peek(), force_break / force_break_corrupt,
attempt_lock() -- which must end holding the lock."""
from vlib import Err

from props import _lockdir_common as K
from props._lockdir_common import P, case, OURS, DEADW

PROP = "C27"
COQ = {
    "property_file": "Properties/C27.v",
    "imports": "From BV Require Import Lib.SchedLD Model.LockDir.",
}
SHARD = 100
META = {
    "level": "proof",
    "title": "Lock operations leave recoverable state at every crash point",
    "technique": ("Coq invariants over all schedules/prefixes/fault points of the LockDir model (held always carries a complete, "
                  "readable info file; info is written before the rename) + replay of every crash prefix and fault point of "
                  "attempt/unlock/force_break/force_break_corrupt/steal scenarios on real LockDir objects, followed by a fresh LockDir"),
    "level_text": ("partial (P-core): every-prefix recoverability, info-before-rename and the guarded failed-attempt-not-held statement "
                   "are theorems over all schedules, prefixes and fault assignments of the hand model; failed-attempt-not-held at full "
                   "strength is refuted in Coq and on the real code (transport error at the confirming peek after the rename). That a "
                   "fresh locker can then acquire (directly or after break) is checked by replay, not proved in general."),
    "level_note": ("Trusted: Coq kernel, vm_compute, hand model coq/Model/LockDir.v, replay harness. Faults are modelled as clean failures "
                   "(the operation has no effect); put_bytes_non_atomic is modelled as atomic (a torn info file is only covered as an "
                   "initially empty held/info)."),
    "design_ref": "DESIGN.md §5 C27",
    "trusted_base": ["hand model coq/Model/LockDir.v of breezy/lockdir.py",
                     "replay harness harness/props/_lockdir_common.py (proxy transport with fault injection, thread scheduler)"],
    "assumptions": ["an injected transport fault (TransportError that is not a PathError) has no effect on the directory",
                    "put_bytes_non_atomic of the info file is atomic in the model",
                    "rename onto a non-empty directory fails; tmp names and nonces unique"],
    "rule": ("7 scenarios x every crash prefix x every single fault point x {Memory, Local} transport, + random 2-locker "
             "interleavings with faults; non-trivial = the subject performed at least one transport operation"),
}

RECOVER = ["peek", "forcebreak", "breakcorrupt", "attempt"]


def setup(scratch):
    K.setup(scratch)


def teardown():
    K.teardown()


# (name, lockers, pre-schedule, subject steps, steal, h0)
def scenarios():
    return [
        ("attempt", [P(["attempt"])], [], 4, False, None),
        ("attempt-unlock", [P(["attempt", "unlock"])], [], 8, False, None),
        ("contention", [P(["attempt"]), P(["attempt"])], [1] * 4, 6, False, None),
        ("break", [P(["peek", "forcebreak"]), P(["attempt"])], [1] * 4, 6, False, None),
        ("break-corrupt", [P(["peek", "breakcorrupt"])], [], 5, False, {"c": "corrupt"}),
        ("steal", [P(["attempt"])], [], 11, True, dict(DEADW, c="info")),
        ("empty-info", [P(["peek", "forcebreak", "attempt"])], [], 10, False, {"c": "empty"}),
    ]


def mk(sc, k, fault, transport):
    name, procs, pre, nsteps, steal, h0 = sc
    procs = [dict(p) for p in procs]
    procs[0]["fault"] = fault
    procs.append(P(RECOVER))
    r = len(procs) - 1
    c = case(procs, list(pre) + [0] * k + [r] * 10, transport=transport, steal=steal, h0=h0)
    c["scenario"] = name
    c["recover"] = r
    return c


def corpus():
    out = []
    for sc in scenarios():
        out.append(mk(sc, sc[3], None, "memory"))
    # the fault after the rename (finding witness) on both transports
    out.append(mk(scenarios()[0], 4, 3, "memory"))
    out.append(mk(scenarios()[0], 4, 3, "local"))
    return out


def cases(rng, tier):
    quick = tier == "quick"
    i = 0
    for sc in scenarios():
        n = sc[3]
        for k in range(n + 1):
            for tr in ("memory", "local"):
                yield mk(sc, k, None, tr)
        for f in range(n):
            for tr in ("memory", "local"):
                i += 1
                yield mk(sc, n + 1, f, tr)
                if not quick or i % 3 == 0:
                    # crash a few operations after the fault
                    yield mk(sc, min(n, f + 2), f, tr)
    # two active lockers, random interleaving, faults, then recovery
    nrand = 120 if quick else 6000
    progs = [["attempt", "unlock"], ["attempt"], ["peek", "forcebreak"], ["attempt", "unlock", "attempt"],
             ["peek", "forcebreak", "attempt"], ["attempt", "confirm", "unlock"], ["peek", "breakcorrupt", "attempt"]]
    for _ in range(nrand):
        n = rng.choice([2, 2, 3])
        steal = rng.random() < 0.3
        procs = []
        for _ in range(n):
            procs.append(P(rng.choice(progs), fault=rng.randrange(10) if rng.random() < 0.6 else None,
                           wid=rng.choice([OURS, DEADW]) if steal else OURS))
        procs.append(P(RECOVER))
        total = rng.randint(0, 26)
        sched = []
        while len(sched) < total:
            sched.extend([rng.randrange(n)] * rng.choice([1, 1, 2, 3, 4]))
        h0 = None
        x = rng.random()
        if x < 0.1:
            h0 = {"c": "corrupt"}
        elif x < 0.2:
            h0 = {"c": "empty"}
        elif x < 0.3:
            h0 = dict(DEADW, c="info")
        c = case(procs, sched[:total] + [n] * 10, transport=rng.choice(["memory", "local"]), steal=steal, h0=h0)
        c["scenario"] = "random"
        c["recover"] = n
        yield c


def impl(inp):
    return K.run_sched(inp)


def impl_obs(inp, obs):
    if isinstance(obs, Err):
        return obs
    return K.model_obs(obs)


def model_term(inp):
    return K.sched_term(inp)


def oracle(inp, obs):
    if isinstance(obs, Err):
        return "driver error " + str(obs)
    if obs["failed_held"]:
        return obs["failed_held"]
    r = inp["recover"]
    if not obs["final_is_held"][r]:
        return ("not recoverable: a fresh LockDir doing peek / force_break / force_break_corrupt / attempt_lock did not "
                "acquire the lock (results %r)" % (obs["logs"][r],))
    if obs["observable"] != [r]:
        return "after recovery held/info does not carry the fresh locker's nonce"
    return None


def finding_matches(fid, inp, obs, why):
    if fid == "C27-fault-after-rename":
        return (isinstance(obs, dict) and (why or "").startswith(K.FAILED_HELD_MSG) and bool(obs["flags"][2])
                and any(p.get("fault") is not None for p in inp["procs"]))
    return False


def nontrivial(inp, obs):
    if isinstance(obs, Err):
        return True
    return any(e and e["pid"] != inp["recover"] for e in obs["events"])


def distribution(inputs, observations):
    d = {"scenario": {}, "with_fault": 0, "faults_hit": 0, "chkfault": 0, "memory": 0, "local": 0, "recovery_results": {}}
    for i, o in zip(inputs, observations):
        d["scenario"][i["scenario"]] = d["scenario"].get(i["scenario"], 0) + 1
        d[i["transport"]] += 1
        d["with_fault"] += any(p.get("fault") is not None for p in i["procs"])
        if isinstance(o, Err):
            continue
        d["faults_hit"] += len([e for e in o["events"] if e and e["res"] == "InjectedFault"])
        d["chkfault"] += bool(o["flags"][2])
        k = ",".join(str(x) if not isinstance(x, list) else "saw" for x in o["logs"][i["recover"]])
        d["recovery_results"][k] = d["recovery_results"].get(k, 0) + 1
    return d
