"""C37 -- Conditional git ref updates honour the expected old value (tie H).

Sequential part: one real TransportRefsContainer over a scratch git control
directory, exhaustive case table + random operation sequences, compared with the
Coq model (Model/GitRefs.v, run_seq) and with the atomic CAS specification (oracle);
dulwich's DiskRefsContainer is run on the same cases as a reference.
Interleaving part: two real TransportRefsContainer objects over ONE directory, each
behind a Python proxy transport that parks its updater before every mutating call
(put_bytes / delete / open_write_stream); a schedule of updater ids decides who moves
next (cooperative scheduling with threads, one runnable at a time => deterministic).
The oracle for two updaters is linearizability w.r.t. the atomic specification.
"""
import itertools
import os
import shutil
import threading

from vlib import Tag, Err

PROP = "C37"
COQ = {
    "property_file": "Properties/C37.v",
    "imports": "From BV Require Import Lib.Obs Model.GitRefs.",
}
META = {
    "level": "proof",
    "title": "Conditional git ref updates honour the expected old value",
    "technique": ("Coq theorems over a hand model of TransportRefsContainer (loose files, packed-refs, per-object "
                  "packed cache, dulwich follow) as step machines; exhaustive case table + operation sequences + "
                  "all two-updater interleavings replayed on real containers through a cooperative-scheduling proxy transport"),
    "level_text": ("Sequential compare-and-swap laws of set_if_equals / add_if_new / remove_if_equals proved for every store, "
                   "every name/expected value and every operation sequence on one container (cache-coherence invariant); "
                   "refinement of an atomic CAS specification; machine-checked refutations: two updaters lose an update under a 4-step schedule "
                   "(no lock file), a stale packed cache breaks CAS even for serial updaters; guarded versions proved. "
                   "Hand model tied to the code by an exhaustive case table, random sequences and exhaustive interleavings."),
    "level_note": ("Trusted: Coq kernel, vm_compute, the hand model's correspondence (exhaustive on the case table, sampled "
                   "sequences, exhaustive schedules on a fixed operation set), dulwich follow/_check_refname as exercised."),
    "design_ref": "DESIGN.md §5 C37",
    "trusted_base": ["hand model coq/Model/GitRefs.v of breezy/git/transportgit.py TransportRefsContainer",
                     "dulwich RefsContainer.read_ref/follow/_check_refname (modelled, validated by the correspondence run)",
                     "correspondence harness harness/props/c37.py (proxy transport + cooperative scheduler)"],
    "assumptions": ["ref values are 40-hex SHAs, loose ref files are well formed ('<sha>\\n' or 'ref: <name>\\n', non-empty)",
                    "no directory/file conflicts between ref names; symref targets are valid ref names unless stated",
                    "worktree_transport is the same transport as the control transport; peeled entries ignored",
                    "atomicity granularity: one step = one mutating transport call plus the reads that follow it "
                    "(put_bytes, delete and the packed-refs write stream are treated as atomic)",
                    "only TransportRefsContainer objects modify the refs (no concurrent git pack-refs)"],
    "rule": ("case table: state of the named ref {absent, loose, packed, loose+packed, symbolic->each, 2-hop, loops, long chains} x "
             "expected {None, equal, raw symref, different, ZERO_SHA, packed value} x op x cache {cold, warm}; random op sequences; "
             "two updaters: fixed op sets x all interleavings; non-trivial = some ref exists or the op reports success"),
}
SHARD = 250

NAMES = [b"HEAD", b"refs/heads/a", b"refs/heads/b", b"refs/tags/t", b"refs/heads/c", b"refs/heads/d"]
BAD = 6
ALLNAMES = NAMES + [b"bad/name"]
HEXD = "0123456789"
SHAS = [(HEXD[i] * 40).encode() for i in range(10)]     # SHAS[0] == ZERO_SHA
PAD = [0, 0, 0, 1, 1, 1]
_state = {"n": 0}


# ---------------------------------------------------------------- encoding --

def _val_bytes(v):
    return SHAS[v[1]] if v[0] == "sha" else b"ref: " + ALLNAMES[v[1]]


def _val_of_bytes(b):
    b = b.rstrip(b"\r\n")
    if b.startswith(b"ref: "):
        return [Tag("sym"), ALLNAMES.index(b[5:])]
    return SHAS.index(b)


def _pyval(v):
    """input encoding ["sha",k]/["sym",t] -> observation encoding"""
    return v[1] if v[0] == "sha" else [Tag("sym"), v[1]]


def _coq_val(v):
    return f"(VSha {v[1]}%N)" if v[0] == "sha" else f"(VSym {v[1]}%N)"


def _coq_op(o):
    if o["op"] == "set":
        old = "None" if o["old"] is None else f"(Some {_coq_val(o['old'])})"
        return f"(OpSet {o['n']}%N {old} {o['new']}%N)"
    if o["op"] == "add":
        return f"(OpAdd {o['n']}%N {o['new']}%N)"
    old = "None" if o["old"] is None else f"(Some {_coq_val(o['old'])})"
    return f"(OpRemove {o['n']}%N {old})"


def _coq_store(inp):
    lo = "[" + "; ".join(f"({n}%N, {_coq_val(v)})" for n, v in inp["loose"]) + "]"
    pa = "[" + "; ".join(f"({n}%N, {s}%N)" for n, s in inp["packed"]) + "]"
    return lo + " " + pa


def model_term(inp):
    b = lambda x: "true" if x else "false"
    if inp["kind"] == "seq":
        ops = "[" + "; ".join(_coq_op(o) for o in inp["ops"]) + "]"
        return f"run_seq {_coq_store(inp)} {b(inp['warm'])} {ops}"
    if inp["kind"] == "push":
        ops = "[" + "; ".join(_coq_op(o) for o in inp["between"]) + "]"
        return f"run_push {_coq_store(_push_store(inp))} {b(inp['warm'])} {inp['n']}%N {inp['new']}%N {ops}"
    sched = "[" + "; ".join(f"{p}%nat" for p in inp["sched"]) + "]"
    return (f"run_conc {_coq_store(inp)} {b(inp['warm'][0])} {_coq_op(inp['ops'][0])} "
            f"{b(inp['warm'][1])} {_coq_op(inp['ops'][1])} {sched}")


# ------------------------------------------------------------ disk helpers --

def _mkgit(base, inp):
    os.makedirs(os.path.join(base, "refs", "heads"))
    os.makedirs(os.path.join(base, "refs", "tags"))
    for n, v in inp["loose"]:
        p = os.path.join(base, ALLNAMES[n].decode())
        os.makedirs(os.path.dirname(p), exist_ok=True)
        with open(p, "wb") as f:
            f.write(_val_bytes(v) + b"\n")
    if inp["packed"]:
        with open(os.path.join(base, "packed-refs"), "wb") as f:
            f.write(b"# pack-refs with: peeled fully-peeled sorted \n")
            for n, s in sorted(inp["packed"], key=lambda e: NAMES[e[0]]):
                f.write(SHAS[s] + b" " + NAMES[n] + b"\n")


def _disk(base):
    """[loose per name, packed per name] read straight from the files"""
    lo = []
    for nm in ALLNAMES:
        try:
            with open(os.path.join(base, nm.decode()), "rb") as f:
                lo.append(_val_of_bytes(f.read()))
        except (FileNotFoundError, IsADirectoryError):
            lo.append(None)
    pk = {}
    try:
        with open(os.path.join(base, "packed-refs"), "rb") as f:
            for line in f.read().splitlines():
                if not line or line[:1] in (b"#", b"^"):
                    continue
                s, nm = line.split(b" ", 1)
                pk[nm] = SHAS.index(s)
    except FileNotFoundError:
        pass
    return [lo, [pk.get(nm) for nm in ALLNAMES]]


def _cache(r):
    m = r._packed_refs
    if m is None:
        return None
    return [None if m.get(nm) is None else SHAS.index(m[nm]) for nm in ALLNAMES]


def _apply(r, o):
    from dulwich.errors import RefFormatError
    from dulwich.refs import SymrefLoop
    nm = ALLNAMES[o["n"]]
    try:
        if o["op"] == "set":
            return bool(r.set_if_equals(nm, None if o["old"] is None else _val_bytes(o["old"]), SHAS[o["new"]]))
        if o["op"] == "add":
            return bool(r.add_if_new(nm, SHAS[o["new"]]))
        return bool(r.remove_if_equals(nm, None if o["old"] is None else _val_bytes(o["old"])))
    except RefFormatError:
        return Err("RefFormatError")
    except SymrefLoop:
        return Err("SymrefLoop")


def _view(disk):
    lo, pk = disk
    return [lo[i] if lo[i] is not None else pk[i] for i in range(len(ALLNAMES))]


# --------------------------------------------- cooperative scheduling proxy --

class _Coop:
    def __init__(self, n):
        self.cv = threading.Condition()
        self.status = ["starting"] * n
        self.grant = [False] * n

    def _park(self, tid, status):
        with self.cv:
            self.status[tid] = status
            self.cv.notify_all()
            while not self.grant[tid]:
                self.cv.wait()
            self.grant[tid] = False
            self.status[tid] = "running"

    def gate(self, tid):
        self._park(tid, "paused")

    def body(self, tid, fn, out):
        self._park(tid, "ready")
        try:
            out[tid] = fn()
        except BaseException as e:           # reported by the driver
            out[tid] = e
        finally:
            with self.cv:
                self.status[tid] = "done"
                self.cv.notify_all()

    def turn(self, tid):
        """let updater tid perform one step; False when it had already finished"""
        with self.cv:
            while self.status[tid] == "starting":     # thread start-up
                self.cv.wait(10)
            if self.status[tid] == "done":
                return False
            self.status[tid] = "running"
            self.grant[tid] = True
            self.cv.notify_all()
            while self.status[tid] == "running":
                if not self.cv.wait(20):
                    raise RuntimeError("updater %d did not yield" % tid)
            return True


class _GateTransport:
    """Python proxy around a (compiled) transport: parks the calling updater before each mutating call."""

    def __init__(self, inner, coop, tid):
        self._inner, self._coop, self._tid = inner, coop, tid

    def __getattr__(self, k):
        return getattr(self._inner, k)

    def clone(self, offset=None):
        return _GateTransport(self._inner.clone(offset), self._coop, self._tid)

    def put_bytes(self, relpath, data, *a, **kw):
        self._coop.gate(self._tid)
        return self._inner.put_bytes(relpath, data, *a, **kw)

    def delete(self, relpath):
        self._coop.gate(self._tid)
        return self._inner.delete(relpath)

    def open_write_stream(self, relpath, *a, **kw):
        self._coop.gate(self._tid)
        return self._inner.open_write_stream(relpath, *a, **kw)


# ---------------------------------------------------------------- drivers --

def setup(scratch):
    import breezy
    import breezy.bzr  # noqa
    import breezy.git  # noqa
    _state["dir"] = scratch
    _state["n"] = 0


def _fresh():
    _state["n"] += 1
    return os.path.join(_state["dir"], "g%d" % _state["n"])


# ---- bzr -> local git push (InterToLocalGitRepository.fetch_refs) with a second updater in between ----
# SHA indices in push cases: 0 ZERO_SHA, 1 = g1 (what refs/heads/a holds before), 2 = g2 (what the push writes),
# 3 = gx (the other updater's commit, also the value of refs/heads/b)

def _push_store(inp):
    """the target's refs when the push takes its snapshot"""
    lo = [[0, ["sym", 1]], [2, ["sha", 3]]]
    pa = []
    if inp["init"] == "loose":
        lo.append([1, ["sha", 1]])
    elif inp["init"] == "packed":
        pa.append([1, 1])
    elif inp["init"] == "loose+packed":
        lo.append([1, ["sha", 1]])
        pa.append([1, 3])
    return {"loose": lo, "packed": pa}


def _do_push(src_repo, gitdir, refname, revid, in_between=None):
    from breezy.controldir import ControlDir
    from breezy.repository import InterRepository
    git_repo = ControlDir.open(gitdir).open_repository()
    with src_repo.lock_read():
        inter = InterRepository.get(src_repo, git_repo)

        def decide(old_refs):
            if in_between is not None:
                in_between(old_refs)
            return {refname: (None, revid)}

        revidmap, _, _ = inter.fetch_refs(decide, lossy=True)
        return revidmap[revid][0] if revid in revidmap else None


def _new_target(path):
    from breezy.controldir import ControlDir, format_registry
    ControlDir.create(path, format=format_registry.make_controldir("git-bare"))
    env = _state["push"]
    _do_push(env["ours"], path, NAMES[1], env["r1"])
    _do_push(env["theirs"], path, NAMES[2], env["rx"])


def _push_env():
    if "push" in _state:
        return _state["push"]
    from breezy.controldir import ControlDir, format_registry
    d = os.path.join(_state["dir"], "pushsrc")
    os.makedirs(d, exist_ok=True)

    def tree(sub, texts):
        t = ControlDir.create_standalone_workingtree(os.path.join(d, sub), format=format_registry.make_controldir("2a"))
        revs = []
        for i, txt in enumerate(texts):
            with open(os.path.join(d, sub, "f"), "w") as f:
                f.write(txt)
            if i == 0:
                t.add(["f"])
            revs.append(t.commit("c%d" % i))
        return t.branch.repository, revs

    ours, (r1, r2) = tree("ours", ["one\n", "two\n"])
    theirs, (rx,) = tree("theirs", ["other\n"])
    env = _state["push"] = {"ours": ours, "theirs": theirs, "r1": r1, "r2": r2, "rx": rx}
    probe = os.path.join(d, "probe.git")
    _new_target(probe)
    with open(os.path.join(probe, "refs/heads/a"), "rb") as f:
        g1 = f.read().strip()
    g2 = _do_push(ours, probe, NAMES[1], r2)
    with open(os.path.join(probe, "refs/heads/b"), "rb") as f:
        gx = f.read().strip()
    shutil.rmtree(probe, ignore_errors=True)
    env["shas"] = [SHAS[0], g1, g2, gx] + [b"%040d" % (9000 + i) for i in range(6)]
    return env


def _impl_push(inp):
    global SHAS
    from breezy.git.transportgit import TransportRefsContainer
    from breezy.transport import get_transport
    env = _push_env()
    base = _fresh()
    saved = SHAS
    try:
        SHAS = env["shas"]
        _new_target(base)
        st = _push_store(inp)
        with open(os.path.join(base, "HEAD"), "wb") as f:
            f.write(b"ref: refs/heads/a\n")
        if not any(n == 1 for n, _ in st["loose"]):
            os.unlink(os.path.join(base, "refs/heads/a"))
        if st["packed"]:
            with open(os.path.join(base, "packed-refs"), "wb") as f:
                f.write(b"# pack-refs with: peeled fully-peeled sorted \n")
                for n, k in st["packed"]:
                    f.write(SHAS[k] + b" " + NAMES[n] + b"\n")
        if _disk(base) != [_loose0(st), _packed0(st)]:
            raise RuntimeError("push target was not set up as intended: %r" % (_disk(base),))
        bres = []

        def other(old_refs):
            r = TransportRefsContainer(get_transport(base))
            if inp["warm"]:
                r.get_packed_refs()
            for o in inp["between"]:
                bres.append(_apply(r, o))

        got = _do_push(env["ours"], base, NAMES[inp["n"]], env["r2"], other)
        if got != SHAS[inp["new"]]:
            raise RuntimeError("unexpected pushed sha")
        return {"t": [bres, _disk(base)]}
    finally:
        SHAS = saved
        shutil.rmtree(base, ignore_errors=True)


def impl(inp):
    from breezy.git.transportgit import TransportRefsContainer
    from breezy.transport import get_transport
    if inp["kind"] == "push":
        return _impl_push(inp)
    base = _fresh()
    try:
        _mkgit(base, inp)
        if inp["kind"] == "seq":
            r = TransportRefsContainer(get_transport(base))
            if inp["warm"]:
                r.get_packed_refs()
            t = []
            for o in inp["ops"]:
                res = _apply(r, o)
                t.append([res, _disk(base), _cache(r)])
            # reference: dulwich's own disk container on an identical directory
            from dulwich.refs import DiskRefsContainer
            based = base + "d"
            _mkgit(based, inp)
            try:
                dr = DiskRefsContainer(based.encode())
                d = []
                for o in inp["ops"]:
                    try:
                        res = _apply(dr, o)
                    except Exception as e:          # the reference may refuse things breezy accepts
                        res = Err("D:" + type(e).__name__)
                    d.append([res, _view(_disk(based))])
            finally:
                shutil.rmtree(based, ignore_errors=True)
            return {"t": t, "d": d}
        coop = _Coop(2)
        conts, out, threads = [], [None, None], []
        for tid in (0, 1):
            r = TransportRefsContainer(_GateTransport(get_transport(base), coop, tid))
            if inp["warm"][tid]:
                r.get_packed_refs()
            conts.append(r)
        for tid in (0, 1):
            th = threading.Thread(target=coop.body, args=(tid, lambda tid=tid: _apply(conts[tid], inp["ops"][tid]), out),
                                  daemon=True)
            th.start()
            threads.append(th)
        trace = []
        for p in inp["sched"]:
            trace.append([p, coop.turn(p)] if p in (0, 1) else [p, False])
        # let anything still parked finish (never happens for padded schedules; not part of the observation)
        unfinished = [coop.status[t] != "done" for t in (0, 1)]
        for tid in (0, 1):
            while coop.turn(tid):
                pass
        for th in threads:
            th.join(20)
        res = []
        for tid in (0, 1):
            if isinstance(out[tid], BaseException):
                raise out[tid]
            res.append(Tag("unfinished") if unfinished[tid] else out[tid])
        return {"t": [res[0], res[1], _disk(base), _cache(conts[0]), _cache(conts[1])], "trace": trace}
    finally:
        shutil.rmtree(base, ignore_errors=True)


def impl_obs(inp, obs):
    if isinstance(obs, Err):
        return obs
    return obs["t"]


# ------------------------------------------------ the atomic specification --

def _spec_follow(view, n):
    depth = 0
    while True:
        c = view[n] if n < len(view) else None
        if c is None:
            return ("ok", n, None)
        depth += 1
        if depth > 5:
            return ("loop",)
        if isinstance(c, list):
            n = c[1]
        else:
            return ("ok", n, c)


def _spec(o, view):
    """atomic CAS reading of one operation: (result, new view)"""
    view = list(view)
    n = o["n"]
    cur = lambda x: view[x] if (x < len(view) and view[x] is not None) else 0
    if o["op"] == "add":
        f = _spec_follow(view, n)
        if f[0] == "loop":
            return Err("SymrefLoop"), view
        if f[2] is not None:
            return False, view
        if f[1] >= BAD:
            return Err("RefFormatError"), view
        view[f[1]] = o["new"]
        return True, view
    if n >= BAD:
        return Err("RefFormatError"), view
    old = None if o["old"] is None else _pyval(o["old"])
    if o["op"] == "set":
        f = _spec_follow(view, n)
        rn = f[1] if f[0] == "ok" else n
        if old is not None and cur(rn) != old:
            return False, view
        view[rn] = o["new"]
        return True, view
    if old is not None and cur(n) != old:
        return False, view
    view[n] = None
    return True, view


def _init_view(inp):
    lo = dict((n, _pyval(v)) for n, v in inp["loose"])
    pk = dict(inp["packed"])
    return [lo.get(i, pk.get(i)) for i in range(len(ALLNAMES))]


def _seq_failures(inp, obs):
    """[(index, message)] of operations whose outcome differs from the atomic specification"""
    out = []
    view = _init_view(inp)
    for i, (o, step) in enumerate(zip(inp["ops"], obs["t"])):
        res, disk, _ = step
        after = _view(disk)
        sres, sview = _spec(o, view)
        if res != sres or after != sview:
            out.append((i, f"op {i} {o}: on refs {view} returned {res!r} and left {after}; "
                           f"atomic compare-and-swap gives {sres!r} and {sview}"))
        view = after
    return out


def _conc_spec_outcomes(inp):
    v0 = _init_view(inp)
    a, b = inp["ops"]
    ra, v1 = _spec(a, v0)
    rb, v2 = _spec(b, v1)
    rb2, w1 = _spec(b, v0)
    ra2, w2 = _spec(a, w1)
    return [(ra, rb, v2), (ra2, rb2, w2)]


def _push_op(view0, inp):
    """what fetch_refs must do for the pushed name, given the refs it read at the start of the push"""
    old = view0[inp["n"]]
    if old is None:
        return {"op": "add", "n": inp["n"], "new": inp["new"]}
    return {"op": "set", "n": inp["n"], "old": ["sha", old] if not isinstance(old, list) else ["sym", old[1]],
            "new": inp["new"]}


def _push_failure(inp, obs):
    """the push's ref update must be conditional on the value the push read at its start"""
    view0 = _init_view(_push_store(inp))
    view = view0
    bres, disk = obs["t"]
    for o, res in zip(inp["between"], bres):
        sres, view = _spec(o, view)
        if sres != res:
            return f"other updater's {o} returned {res!r}, atomic compare-and-swap gives {sres!r}"
    _, want = _spec(_push_op(view0, inp), view)
    got = _view(disk)
    if got != want:
        return (f"push of {inp['new']} to ref {inp['n']} computed against refs {view0}; the other updater ran {inp['between']} "
                f"in between (refs then {view}); final refs {got}, a conditional update gives {want}")
    return None


def oracle(inp, obs):
    if isinstance(obs, Err):
        return "driver error " + str(obs)
    if inp["kind"] == "seq":
        f = _seq_failures(inp, obs)
        return f[0][1] if f else None
    if inp["kind"] == "push":
        return _push_failure(inp, obs)
    ra, rb, disk = obs["t"][0], obs["t"][1], obs["t"][2]
    if isinstance(ra, Tag) or isinstance(rb, Tag):
        return None          # incomplete schedule: nothing to judge
    got = (ra, rb, _view(disk))
    if got in _conc_spec_outcomes(inp):
        return None
    return (f"two updaters {inp['ops']} under schedule {inp['sched']} on refs {_init_view(inp)}: results {ra!r},{rb!r}, "
            f"final refs {got[2]}; no serial order of the two atomic operations gives this")


# ---------------------------------------------------------- known findings --

def _windows_overlap(trace):
    span = {}
    for i, (p, eff) in enumerate(trace):
        if eff:
            span.setdefault(p, [i, i])[1] = i
    if len(span) < 2:
        return False
    (a0, a1), (b0, b1) = span[0], span[1]
    return not (a1 < b0 or b1 < a0)


def _loose0(inp):
    lo = dict((n, _pyval(v)) for n, v in inp["loose"])
    return [lo.get(i) for i in range(len(ALLNAMES))]


def _packed0(inp):
    pk = dict(inp["packed"])
    return [pk.get(i) for i in range(len(ALLNAMES))]


def _target(inp, o):
    """the ref an operation compares/acts on, per the specification, in the initial state"""
    if o["op"] == "remove":
        return o["n"]
    f = _spec_follow(_init_view(inp), o["n"])
    return f[1] if f[0] == "ok" else o["n"]


def finding_matches(fid, inp, obs, why):
    if isinstance(obs, Err):
        return False
    # C37-remove-packed-cold-cache was repaired by 80b730a: nothing is excused for it any more
    if inp["kind"] == "push":
        # the pushing container loaded packed-refs for its snapshot; the other updater then REMOVED the packed
        # ref the push compares with
        if fid != "C37-stale-packed-cache":
            return False
        st = _push_store(inp)
        tgt = _target(st, {"op": "set", "n": inp["n"]})
        return any(o["op"] == "remove" and r is True and o["n"] == tgt and _packed0(st)[tgt] is not None
                   for o, r in zip(inp["between"], obs["t"][0]))
    if inp["kind"] != "conc":
        return False
    a, b = inp["ops"]
    pk0 = _packed0(inp)
    if fid == "C37-interleaved-lost-update":
        # the two updaters' check..write windows overlap (check-then-put is not atomic, no lock file) and they
        # act on the same ref, or both rewrite packed-refs (two removals of packed refs)
        if not _windows_overlap(obs["trace"]):
            return False
        both_repack = (a["op"] == "remove" and b["op"] == "remove"
                       and pk0[a["n"]] is not None and pk0[b["n"]] is not None)
        return _target(inp, a) == _target(inp, b) or both_repack
    if fid == "C37-stale-packed-cache":
        # serial updaters; the one that runs second had loaded packed-refs before the first one REMOVED the
        # packed ref that the second one then compares with / looks up
        if _windows_overlap(obs["trace"]):
            return False
        order = [p for p, eff in obs["trace"] if eff]
        if not order:
            return False
        first = order[0]
        o1, o2 = inp["ops"][first], inp["ops"][1 - first]
        return (inp["warm"][1 - first] and o1["op"] == "remove" and obs["t"][first] is True
                and pk0[o1["n"]] is not None and _target(inp, o2) == o1["n"]
                and (o2["op"] == "add" or o2.get("old") is not None))
    return False


# -------------------------------------------------------------- generators --

X, Y, Z = 1, 2, 4         # refs/heads/a, refs/heads/b, refs/heads/c
LOST = {"kind": "conc", "loose": [[X, ["sha", 1]]], "packed": [], "warm": [False, False],
        "ops": [{"op": "set", "n": X, "old": ["sha", 1], "new": 2},
                {"op": "set", "n": X, "old": ["sha", 1], "new": 3}],
        "sched": [0, 1, 0, 1] + PAD}
STALE = {"kind": "conc", "loose": [], "packed": [[X, 1]], "warm": [False, True],
         "ops": [{"op": "remove", "n": X, "old": ["sha", 1]},
                 {"op": "set", "n": X, "old": ["sha", 1], "new": 3}],
         "sched": [0, 0, 0, 1, 1, 1] + PAD}
RESURRECT = {"kind": "conc", "loose": [], "packed": [[X, 1], [Y, 2]], "warm": [True, True],
             "ops": [{"op": "remove", "n": X, "old": ["sha", 1]},
                     {"op": "remove", "n": Y, "old": ["sha", 2]}],
             "sched": [0, 0, 1, 1, 0, 1] + PAD}
# regression witnesses of the repaired cold-cache defect (80b730a): must now satisfy the specification
COLD = {"kind": "seq", "loose": [], "packed": [[X, 1]], "warm": False,
        "ops": [{"op": "remove", "n": X, "old": None}]}
COLD2 = {"kind": "seq", "loose": [[X, ["sha", 1]]], "packed": [[X, 2]], "warm": False,
         "ops": [{"op": "remove", "n": X, "old": ["sha", 1]}]}


def corpus():
    return [LOST, STALE, RESURRECT, COLD, COLD2, PUSH_LOST, PUSH_LOST_PACKED, PUSH_ADD]


def _table():
    """the exhaustive sequential case table"""
    base = {
        "absent": ([], []),
        "loose": ([[X, ["sha", 1]]], []),
        "packed": ([], [[X, 1]]),
        "loose+packed": ([[X, ["sha", 1]]], [[X, 2]]),
        "loose=packed": ([[X, ["sha", 1]]], [[X, 1]]),
        "holds-zero": ([[X, ["sha", 0]]], []),
    }
    states = []            # (label, loose, packed, op name)
    for lab, (lo, pa) in base.items():
        states.append((lab, lo, pa, X))
        states.append(("HEAD->" + lab, [[0, ["sym", X]]] + lo, pa, 0))
        states.append(("b->" + lab, [[Y, ["sym", X]]] + lo, pa, Y))
    states += [
        ("2hop", [[0, ["sym", Y]], [Y, ["sym", X]], [X, ["sha", 1]]], [], 0),
        ("2hop-packed-end", [[0, ["sym", Y]], [Y, ["sym", X]]], [[X, 1]], 0),
        ("2hop-absent-end", [[0, ["sym", Y]], [Y, ["sym", X]]], [], 0),
        ("self-loop", [[X, ["sym", X]]], [], X),
        ("self-loop-packed", [[X, ["sym", X]]], [[X, 1]], X),
        ("2-loop", [[X, ["sym", Y]], [Y, ["sym", X]]], [], X),
        ("chain4", [[0, ["sym", 1]], [1, ["sym", 2]], [2, ["sym", 3]], [3, ["sym", 4]], [4, ["sha", 1]]], [], 0),
        ("chain5", [[0, ["sym", 1]], [1, ["sym", 2]], [2, ["sym", 3]], [3, ["sym", 4]], [4, ["sym", 5]], [5, ["sha", 1]]], [], 0),
        ("chain5-absent", [[0, ["sym", 1]], [1, ["sym", 2]], [2, ["sym", 3]], [3, ["sym", 4]], [4, ["sym", 5]]], [], 0),
        ("chain4-absent", [[0, ["sym", 1]], [1, ["sym", 2]], [2, ["sym", 3]], [3, ["sym", 4]]], [], 0),
        ("sym-over-packed", [[X, ["sym", Y]], [Y, ["sha", 3]]], [[X, 1]], X),
        ("dangling-to-bad", [[0, ["sym", BAD]]], [], 0),
        ("bad-name", [[X, ["sha", 1]]], [], BAD),
        ("other-packed", [[X, ["sha", 1]]], [[Y, 2], [3, 5]], X),
        ("packed-with-others", [], [[X, 1], [Y, 2], [3, 5]], X),
    ]
    olds = [None, ["sha", 1], ["sha", 2], ["sha", 3], ["sha", 0], ["sym", X], ["sym", Y]]
    for lab, lo, pa, n in states:
        for warm in (False, True):
            for old in olds:
                yield {"kind": "seq", "loose": lo, "packed": pa, "warm": warm, "label": lab,
                       "ops": [{"op": "set", "n": n, "old": old, "new": 7}]}
                yield {"kind": "seq", "loose": lo, "packed": pa, "warm": warm, "label": lab,
                       "ops": [{"op": "remove", "n": n, "old": old}]}
            yield {"kind": "seq", "loose": lo, "packed": pa, "warm": warm, "label": lab,
                   "ops": [{"op": "add", "n": n, "new": 7}]}


def _rand_store(rng):
    lo, pa = [], []
    for n in range(len(NAMES)):
        r = rng.random()
        if r < 0.3:
            lo.append([n, ["sha", rng.randint(0, 3)]])
        elif r < 0.5:
            lo.append([n, ["sym", rng.randrange(len(NAMES))]])
        if n and rng.random() < 0.35:
            pa.append([n, rng.randint(1, 3)])
    return lo, pa


def _rand_op(rng):
    n = rng.randrange(len(NAMES)) if rng.random() < 0.97 else BAD
    k = rng.random()
    old = rng.choice([None, ["sha", 0], ["sha", 1], ["sha", 2], ["sha", 3], ["sym", rng.randrange(len(NAMES))]])
    if k < 0.4:
        return {"op": "set", "n": n, "old": old, "new": rng.randint(1, 3)}
    if k < 0.6:
        return {"op": "add", "n": n, "new": rng.randint(1, 3)}
    return {"op": "remove", "n": n, "old": old}


def _interleavings(ka, kb):
    for pos in itertools.combinations(range(ka + kb), ka):
        s = [1] * (ka + kb)
        for p in pos:
            s[p] = 0
        yield s


def _conc_table():
    stores = [([], []), ([[X, ["sha", 1]]], []), ([], [[X, 1]]), ([[X, ["sha", 1]]], [[X, 2]]),
              ([[0, ["sym", X]], [X, ["sha", 1]]], [[Y, 2]]), ([], [[X, 1], [Y, 2]])]
    ops_a = [{"op": "set", "n": X, "old": ["sha", 1], "new": 2},
             {"op": "remove", "n": X, "old": ["sha", 1]},
             {"op": "add", "n": X, "new": 2},
             {"op": "set", "n": 0, "old": ["sha", 0], "new": 2}]
    ops_b = [{"op": "set", "n": X, "old": ["sha", 1], "new": 3},
             {"op": "remove", "n": X, "old": None},
             {"op": "add", "n": 0, "new": 3},
             {"op": "set", "n": X, "old": None, "new": 3},
             {"op": "remove", "n": Y, "old": ["sha", 2]}]
    for lo, pa in stores:
        for a in ops_a:
            for b in ops_b:
                for warm in ([False, False], [True, True], [False, True]):
                    for s in _interleavings(3, 3):
                        yield {"kind": "conc", "loose": lo, "packed": pa, "warm": warm, "ops": [a, b], "sched": s + PAD}


def _push_table():
    A, B = 1, 2
    betweens = [
        [],
        [{"op": "set", "n": A, "old": ["sha", 1], "new": 3}],          # their CAS g1 -> gx succeeds
        [{"op": "set", "n": A, "old": None, "new": 3}],
        [{"op": "set", "n": 0, "old": ["sha", 1], "new": 3}],          # through HEAD -> a
        [{"op": "remove", "n": A, "old": ["sha", 1]}],
        [{"op": "remove", "n": A, "old": None}, {"op": "add", "n": A, "new": 3}],
        [{"op": "add", "n": A, "new": 3}],
        [{"op": "set", "n": B, "old": ["sha", 3], "new": 1}],          # unrelated ref
        [{"op": "set", "n": A, "old": ["sha", 1], "new": 3}, {"op": "set", "n": A, "old": ["sha", 3], "new": 1}],  # ABA
        [{"op": "set", "n": A, "old": ["sha", 0], "new": 3}],
    ]
    for init in ("loose", "packed", "absent", "loose+packed"):
        for bt in betweens:
            for warm in (False, True):
                yield {"kind": "push", "init": init, "n": A, "new": 2, "between": bt, "warm": warm}


PUSH_LOST = {"kind": "push", "init": "loose", "n": 1, "new": 2, "warm": False,
             "between": [{"op": "set", "n": 1, "old": ["sha", 1], "new": 3}]}
PUSH_LOST_PACKED = dict(PUSH_LOST, init="packed")
PUSH_ADD = {"kind": "push", "init": "absent", "n": 1, "new": 2, "warm": False,
            "between": [{"op": "add", "n": 1, "new": 3}]}


def cases(rng, tier):
    pt = list(_push_table())
    yield from (rng.sample(pt, 30) if tier == "quick" else pt)
    yield from _table()
    for _ in range(300 if tier == "quick" else 6000):
        lo, pa = _rand_store(rng)
        yield {"kind": "seq", "loose": lo, "packed": pa, "warm": rng.random() < 0.5,
               "ops": [_rand_op(rng) for _ in range(rng.randint(2, 5))]}
    allc = list(_conc_table())
    if tier == "quick":
        # every non-overlapping schedule of the table, and a sample of the overlapping ones
        serial = [c for c in allc if c["sched"][:6] in ([0, 0, 0, 1, 1, 1], [1, 1, 1, 0, 0, 0])]
        other = [c for c in allc if c["sched"][:6] not in ([0, 0, 0, 1, 1, 1], [1, 1, 1, 0, 0, 0])]
        allc = serial + rng.sample(other, 300)
    yield from allc
    for _ in range(60 if tier == "quick" else 1500):
        lo, pa = _rand_store(rng)
        yield {"kind": "conc", "loose": lo, "packed": pa, "warm": [rng.random() < 0.5, rng.random() < 0.5],
               "ops": [_rand_op(rng), _rand_op(rng)],
               "sched": [rng.randint(0, 1) for _ in range(rng.randint(0, 6))] + PAD}


# --------------------------------------------------------------- reporting --

def nontrivial(inp, obs):
    if isinstance(obs, Err):
        return False
    if inp["kind"] == "push" or inp["loose"] or inp["packed"]:
        return True
    t = obs["t"]
    return any(s[0] is True for s in t) if inp["kind"] == "seq" else (t[0] is True or t[1] is True)


def distribution(inputs, observations):
    d = {"seq": 0, "conc": 0, "seq_ops": 0, "results": {}, "conc_overlapping": 0, "conc_not_linearizable": 0,
         "seq_spec_failures": 0, "dulwich_differences": 0, "dulwich_difference_samples": []}
    for i, o in zip(inputs, observations):
        d[i["kind"]] = d.get(i["kind"], 0) + 1
        if i["kind"] == "push":
            continue
        if isinstance(o, Err):
            continue
        if i["kind"] == "seq":
            d["seq_ops"] += len(i["ops"])
            if _seq_failures(i, o):
                d["seq_spec_failures"] += 1
            for k, (st, ds) in enumerate(zip(o["t"], o["d"])):
                key = i["ops"][k]["op"] + ":" + str(st[0])
                d["results"][key] = d["results"].get(key, 0) + 1
                if [st[0], _view(st[1])] != [ds[0], ds[1]]:
                    d["dulwich_differences"] += 1
                    if len(d["dulwich_difference_samples"]) < 12:
                        d["dulwich_difference_samples"].append(
                            {"label": i.get("label"), "loose": i["loose"], "packed": i["packed"], "warm": i["warm"],
                             "ops": i["ops"][:k + 1], "breezy": [str(st[0]), _view(st[1])], "dulwich": [str(ds[0]), ds[1]]})
                    break
        else:
            if _windows_overlap(o["trace"]):
                d["conc_overlapping"] += 1
            if oracle(i, o):
                d["conc_not_linearizable"] += 1
    return d
