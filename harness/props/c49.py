"""C49 -- Configuration values resolve by location and round-trip through files (tie H).

Case kinds (strings are Python str; the model sees lists of code points):
  fn      {"name", "pat"}                       fnmatch.fnmatch(name, pat)        (environment model)
  iter    {"sections": [str], "location"}       config._iter_for_location_by_parts
  loc     {"nn": None|[[k,v]], "named": [[id, [[k,v]]]], "location", "glob": None|str, "name"}
          a real locations.conf (+ breezy.conf) in the scratch BRZ_HOME, read through a FRESH
          LocationStack / LocationMatcher: [[id, extra_path] of get_sections()], Stack.get(name, expand=False)
  bool    as loc, "name" is a registered boolean option, "default" its registered default
  value   {"v"}   LocationStack.set + get on the same stack; save; get through a fresh stack
  selfloc {"location"}  LocationStack(location).set("foo","x") ; get (same stack) ; save ; fresh get
  spm     {"nn", "named", "location"}  [[id, extra_path] of StartingPathMatcher(store, location).get_sections()]
"""
import fnmatch as _fnmatch
import io
import itertools
import os

from vlib import Tag, Err, coq_list, coq_option

PROP = "C49"
COQ = {
    "property_file": "Properties/C49.v",
    "imports": "From BV Require Import Lib.Bytes Model.Fnmatch Model.ConfigLoc.",
}
META = {
    "level": "proof",
    "title": "Configuration values resolve by location and round-trip through files",
    "technique": ("Coq theorems (induction over section lists / strings) on a hand model of the location matcher, "
                  "LocationSection.get and the breezy side of value quoting + correspondence on real locations.conf files"),
    "level_text": ("Proved in Coq for all stores/locations/options: a section matches iff its parts match a prefix of the "
                   "location's parts segment-wise through fnmatch (matcher proved equal to a declarative glob language; "
                   "glob-free names = plain prefix); extra_path is exactly the unmatched suffix and is what appendpath/"
                   "{relpath} receive; get_sections is the matching sections sorted by (number of parts, id) descending "
                   "and cut at the first section whose ignore_parents is true (that section included in the cut); "
                   "Stack.get returns the value of the first such section defining the option. Value round trip "
                   "(after the repair /repo 4293772 of IniFileStore.unquote): in memory Stack.set/get returns EVERY accepted "
                   "value unchanged (unguarded theorem; the only exclusion is ConfigObj's explicit refusal, characterised); "
                   "through save + reload it holds under an executable guard and is REFUTED on the residue class (single "
                   "line, both kinds of quote, no '#', same quote at both ends: known finding C49-mixed-quotes). "
                   "ConfigObj's quoting/parsing is environment: modelled, tied by the correspondence run only."),
    "level_note": ("Trusted: Coq kernel, vm_compute, the hand model's correspondence (sampled, not exhaustive), the Gallina "
                   "models of fnmatch.translate, ConfigObj._quote/_unquote/file layer and urlutils.join/basename on plain paths."),
    "design_ref": "DESIGN.md §5 C49",
    "trusted_base": ["hand model coq/Model/ConfigLoc.v of breezy/config.py (matcher, LocationSection.get, unquote)",
                     "Gallina model coq/Model/Fnmatch.v of CPython 3.12 fnmatch.translate/fnmatch (environment)",
                     "correspondence harness harness/props/c49.py"],
    "assumptions": ["POSIX (os.path.normcase is the identity)",
                    "section names do not start with 'file://', locations carry no segment parameters (',branch=')",
                    "urlutils.join(base, rel) = rel if rel is absolute else base + '/' + rel, and basename = last segment for plain paths (dromedary, compiled)",
                    "ConfigObj 5.0.9 _quote/_unquote/write/parse as modelled in Model/ConfigLoc.v (cobj_quote, set_save_get) "
                    "for values made of TAB, LF and non-whitespace printable characters",
                    "str.lower() maps no non-ASCII character to a letter of yes/no/on/off/true/false/y/n",
                    "no command-line overrides (breezy._global_state is None)"],
    "rule": ("fnmatch: all patterns over {a,b,*,?,[,],!,-} up to a length bound x short names + random class patterns; "
             "section-name sets (<=6 names, <=5 segments, globs, derived from the location so that several match) x "
             "locations written to a real locations.conf; values over quote/comma/hash/equals/newline/backslash/space/"
             "unicode; non-trivial = >=2 matching sections, a glob, a policy/ignore_parents, or a special character"),
}
SHARD = 400

_state = {}


# ---------------------------------------------------------------- encoders
def cstr(s):
    return "[" + ";".join(str(ord(c)) for c in s) + "]%N" if s else "(@nil N)"


def copts(o):
    return coq_list(["(%s, %s)" % (cstr(k), cstr(v)) for k, v in o])


def cnamed(named):
    return coq_list(["(%s, %s)" % (cstr(i), copts(o)) for i, o in named])


# ---------------------------------------------------------------- set up
def setup(scratch):
    import logging
    import breezy
    import breezy.bzr  # noqa
    _state["old_home"] = os.environ.get("BRZ_HOME")
    home = os.path.join(scratch, "home")
    os.makedirs(home, exist_ok=True)
    os.environ["BRZ_HOME"] = home
    from breezy import bedding
    os.makedirs(bedding.config_dir(), exist_ok=True)
    _state["dir"] = bedding.config_dir()
    logging.getLogger("brz").addHandler(logging.NullHandler())
    logging.getLogger("brz").propagate = False


def teardown():
    from breezy import config
    config._shared_stores.clear()
    if _state.get("old_home") is None:
        os.environ.pop("BRZ_HOME", None)
    else:
        os.environ["BRZ_HOME"] = _state["old_home"]


def _paths():
    d = _state["dir"]
    return os.path.join(d, "locations.conf"), os.path.join(d, "breezy.conf")


def _reset_files():
    from breezy import config
    config._shared_stores.clear()
    for p in _paths():
        try:
            os.unlink(p)
        except OSError:
            pass


def render(nn, named):
    lines = []
    for k, v in (nn or []):
        lines.append("%s = %s" % (k, v))
    for i, o in named:
        lines.append('["%s"]' % i)
        for k, v in o:
            lines.append("%s = %s" % (k, v))
    return ("\n".join(lines) + "\n").encode("utf-8")


def parses_back(nn, named):
    """Generation-time filter: ConfigObj (environment) must read the rendered file as intended."""
    import configobj
    try:
        co = configobj.ConfigObj(io.BytesIO(render(nn, named)), encoding="utf-8", list_values=False,
                                 interpolation=False)
    except configobj.ConfigObjError:
        return False
    if [(k, co[k]) for k in co.scalars] != [tuple(x) for x in (nn or [])]:
        return False
    if list(co.sections) != [i for i, _ in named]:
        return False
    for i, o in named:
        if co[i].sections or [(k, co[i][k]) for k in co[i].scalars] != [tuple(x) for x in o]:
            return False
    return True


# ---------------------------------------------------------------- generators
PLAIN = ["a", "b", "c", "ab", "abc", "d", "a.b", "é", "a b", "x-y"]
ODD = [".", "..", "", "-", "]", "[ab]", "*", "!"]
GLOBS = ["*", "?", "a*", "*b", "a?c", "??", "[ab]", "[!a]", "[a-c]", "[]a]", "[!]]", "[c-a]", "[a-]", "[-a]",
         "[a-b-c]", "[", "a[", "[a", "*[ab]*", "[*]", "[?]", "[!a-c]b", "**", "[!c-a]", "[b-a!c]", "?*", "*.*"]
OPTS = ["foo", "bar"]
VALS = ["v1", "v2", "x/y", '"q"', "'q'", "a b", "{relpath}", "p/{relpath}/q", "{basename}", "{branchname}",
        "{other}", "{relpath", "é", "true", "yes", "0", '"', "a{relpath}{basename}b", "{{relpath}}", "",
        "{relpath}{relpath}", "x{base{basename}name}"]
POLS = ["appendpath", "appendpath", "appendpath", "norecurse", "none", '"appendpath"', "Appendpath",
        "{relpath}", "append{other}"]
IGNS = ["true", "True", "false", "1", "yes", '"true"', "maybe", "{relpath}", "on", "off", "TRUE", "y", "0", ""]
BOOLS = ["true", "false", "True", "FALSE", "yes", "no", "on", "off", "1", "0", "y", "n", '"true"', "'no'", "maybe",
         "", "2", "tru", " yes", '"', "YES", "oN", "İ"]
BOOL_OPTS = {"branch.fetch_tags": "False", "append_revisions_only": None, "dirstate.fdatasync": "True"}


def _matching_glob(rng, seg):
    cands = [g for g in GLOBS if _fnmatch.fnmatchcase(seg, g)]
    return rng.choice(cands) if cands else seg


def gen_location(rng, plain_only=False):
    n = rng.randint(0, 5)
    segs = []
    for _ in range(n):
        r = rng.random()
        if plain_only or r < 0.85:
            segs.append(rng.choice(PLAIN[:8] if plain_only else PLAIN))
        else:
            segs.append(rng.choice(ODD))
    loc = "/".join(segs)
    if rng.random() < 0.85:
        loc = "/" + loc
    if rng.random() < 0.15:
        loc += "/"
    if not loc:
        loc = "/"
    return loc


def gen_section_name(rng, loc):
    lp = loc.rstrip("/").split("/")
    r = rng.random()
    if r < 0.75:
        k = rng.randint(1, min(len(lp), 5))
        segs = list(lp[:k])
        for i in range(len(segs)):
            q = rng.random()
            if q < 0.3:
                segs[i] = _matching_glob(rng, segs[i])
            elif q < 0.38:
                segs[i] = rng.choice(GLOBS + PLAIN)
        if rng.random() < 0.1:
            segs.append(rng.choice(PLAIN + GLOBS))
        name = "/".join(segs)
    else:
        segs = [rng.choice(PLAIN + GLOBS) for _ in range(rng.randint(1, 4))]
        name = "/".join(segs)
        if rng.random() < 0.7:
            name = "/" + name
    if rng.random() < 0.1:
        name += "/"
    if name == "" and rng.random() < 0.8:
        name = "/"
    return name


def gen_options(rng, with_ignore=True):
    o = []
    for k in OPTS:
        if rng.random() < 0.55:
            o.append([k, rng.choice(VALS)])
            if rng.random() < 0.35:
                o.append([k + ":policy", rng.choice(POLS)])
                if rng.random() < 0.15:
                    o.append([k + ":policy:policy", rng.choice(POLS)])
    if with_ignore and rng.random() < 0.2:
        o.append(["ignore_parents", rng.choice(IGNS)])
        if rng.random() < 0.1:
            o.append(["ignore_parents:policy", "appendpath"])
    rng.shuffle(o)
    return o


def _uses_appendpath(nn, named):
    return any("append" in v for o in [nn or []] + [o for _, o in named] for _, v in o)


def gen_loc_case(rng, kind="loc"):
    for _ in range(50):
        plain_only = rng.random() < 0.5
        loc = gen_location(rng, plain_only)
        names = []
        for _ in range(rng.randint(0, 6)):
            s = gen_section_name(rng, loc)
            if s and s not in names and not s.startswith("file://") and s.strip() == s:
                names.append(s)
        if kind == "bool":
            bname = rng.choice(sorted(BOOL_OPTS))
            named = []
            for s in names:
                o = []
                if rng.random() < 0.6:
                    o.append([bname, rng.choice(BOOLS)])
                if rng.random() < 0.15:
                    o.append(["ignore_parents", rng.choice(IGNS)])
                named.append([s, o])
            nn = [[bname, rng.choice(BOOLS)]] if rng.random() < 0.2 else None
            glob = rng.choice([v for v in BOOLS if v != '"' and v.strip() == v]) if rng.random() < 0.3 else None
            case = {"kind": "bool", "nn": nn, "named": named, "location": loc, "glob": glob, "name": bname,
                    "default": BOOL_OPTS[bname]}
        else:
            named = [[s, gen_options(rng)] for s in names]
            nn = gen_options(rng) if rng.random() < 0.25 else None
            if nn == []:
                nn = None
            glob = rng.choice([v for v in VALS if v != '"']) if rng.random() < 0.3 else None
            case = {"kind": "loc", "nn": nn, "named": named, "location": loc, "glob": glob,
                    "name": rng.choice(OPTS)}
        if _uses_appendpath(case["nn"], named):
            lp = loc.rstrip("/").split("/")
            if any(p in ("", ".", "..") for p in lp[1:]) or (lp[0] in (".", "..")):
                continue
            if any(v.endswith("/") for o in [case["nn"] or []] + [o for _, o in named] for _, v in o):
                continue
        if case["nn"] is not None and any(v.strip() != v for _, v in case["nn"]):
            continue
        if not parses_back(case["nn"], named):
            _state["dropped"] = _state.get("dropped", 0) + 1
            continue
        return case
    raise RuntimeError("could not generate a representable case")


VAL_ALPHA = ['a', 'b', ' ', '"', "'", ',', '#', '=', '\n', '\\', 'é', '\t', '{', '}', '[', ']', ';', '%', '$']


def gen_value(rng):
    r = rng.random()
    if r < 0.12:
        base = rng.choice(["{relpath}", "{basename}", "{branchname}", "{foo}", "a{relpath}b"])
        return base
    n = rng.randint(0, 7)
    alpha = VAL_ALPHA if r < 0.9 else VAL_ALPHA + ['\r', '\x0b', '\x0c', '\x85', ' ', '\xa0', '\x1f', '\x00',
                                                    '中', '\U0001f600']
    return "".join(rng.choice(alpha) for _ in range(n))


def corpus():
    out = []
    # finding witnesses first
    for v in ["a\nb", "\n", "a\"b'c", "\"a'b\"", "a\"'#", "a\rb", "a b", "a\xa0", "x\x1f", "\"\"\"a\nb", "a\n'''"]:
        out.append({"kind": "value", "v": v})
    for loc in ["/a/[b]", "/a/[!a]", "/a/b", "/a/[b", "/a/b*", "/", "rel/p", "/a b/c"]:
        out.append({"kind": "selfloc", "location": loc})
    # documented examples / regression shapes
    out.append({"kind": "loc", "nn": None,
                "named": [["/a", [["foo", "1"]]], ["/a/b", [["foo", "2"]]], ["/a/*", [["foo", "3"]]]],
                "location": "/a/b/c", "glob": None, "name": "foo"})
    out.append({"kind": "loc", "nn": [["foo", "nn"]],
                "named": [["/a", [["foo", "1"]]], ["/a/b", [["ignore_parents", "true"], ["foo", "2"]]],
                          ["/a/b/c", [["bar", "3"]]]],
                "location": "/a/b/c/d", "glob": "g", "name": "foo"})
    out.append({"kind": "loc", "nn": None,
                "named": [["/a", [["foo", "base"], ["foo:policy", "appendpath"]]],
                          ["/a/b", [["bar", "{relpath}|{basename}|{branchname}"]]]],
                "location": "/a/b/c/d", "glob": None, "name": "foo"})
    out.append({"kind": "loc", "nn": None,
                "named": [["/a", [["foo", "base"], ["foo:policy", "append{x}"], ["foo:policy:policy", "appendpath"]]]],
                "location": "/a/path", "glob": None, "name": "foo"})
    out.append({"kind": "iter", "sections": ["/a/b-", "/a/b/c", "/a/b", "/a/*/c"], "location": "/a/b/c"})
    for name, pat in [("b", "[b-a!c]"), ("c", "[b-a!c]"), ("-", "[a-]"), ("]", "[]-a]"), ("a", "[c-a]"),
                      ("x", "[!c-a]"), ("\\", "[\\]"), ("b", "[a-b-c]"), ("-", "[a-b-c]"), ("[", "["),
                      ("a\nb", "a?b"), ("ab", "a*b*"), ("", "*"), ("", "?"), ("a", "[^a]"), ("^", "[^a]"),
                      ("a", "[[a]"), ("&", "[&&]"), ("~", "[a~~]"), ("|", "[||]"), ("b", "[a\\-c]")]:
        out.append({"kind": "fn", "name": name, "pat": pat})
    return out


def cases(rng, tier):
    quick = tier == "quick"
    # 1. fnmatch: exhaustive small domain
    alpha = "ab*?[]!-"
    names = ["", "a", "b", "ab", "ba", "-", "]", "!", "aab", "[", "c", "a-"]
    maxlen = 3 if quick else 4
    for n in range(maxlen + 1):
        for t in itertools.product(alpha, repeat=n):
            pat = "".join(t)
            for name in (names[:6] if quick else names[:1] if n == 4 else names):
                yield {"kind": "fn", "name": name, "pat": pat}
    # random bracket expressions
    calpha = "abcdz-!]^[\\&~|09"
    for _ in range(1500 if quick else 6000):
        body = "".join(rng.choice(calpha) for _ in range(rng.randint(0, 7)))
        pat = rng.choice(["", "a", "*"]) + "[" + body + "]" + rng.choice(["", "b", "*", "?"])
        name = "".join(rng.choice(calpha + "ab") for _ in range(rng.randint(0, 3)))
        yield {"kind": "fn", "name": name, "pat": pat}
    # 2. _iter_for_location_by_parts directly (no ConfigObj restrictions on names)
    for _ in range(600 if quick else 3000):
        loc = gen_location(rng)
        secs = []
        for _ in range(rng.randint(0, 6)):
            s = gen_section_name(rng, loc)
            if not s.startswith("file://"):
                secs.append(s)
        yield {"kind": "iter", "sections": secs, "location": loc}
    # 3. real locations.conf through LocationStack
    for _ in range(1200 if quick else 8000):
        yield gen_loc_case(rng, "loc")
    for _ in range(200 if quick else 2000):
        yield gen_loc_case(rng, "bool")
    for _ in range(200 if quick else 2000):
        c = gen_loc_case(rng, "loc")
        yield {"kind": "spm", "nn": c["nn"], "named": c["named"], "location": c["location"]}
    # 4. values: exhaustive short strings over the special characters, then random
    spec = ['a', ' ', '"', "'", ',', '#', '\n', '=', '\\']
    for n in range(0, (3 if quick else 4) + 1):
        for t in itertools.product(spec if n < 4 else spec[:7], repeat=n):
            yield {"kind": "value", "v": "".join(t)}
    for _ in range(300 if quick else 3000):
        yield {"kind": "value", "v": gen_value(rng)}
    # 5. self locations
    for _ in range(150 if quick else 1500):
        loc = gen_location(rng)
        if rng.random() < 0.3:
            loc = gen_section_name(rng, loc)
        if loc.strip() != loc or not loc:
            continue
        yield {"kind": "selfloc", "location": loc}


# ---------------------------------------------------------------- implementation driver
def _write_store(inp):
    lp, gp = _paths()
    _reset_files()
    with open(lp, "wb") as f:
        f.write(render(inp["nn"], inp["named"]))
    if inp["glob"] is not None:
        with open(gp, "wb") as f:
            f.write(("[DEFAULT]\n%s = %s\n" % (inp["name"], inp["glob"])).encode("utf-8"))


def impl(inp):
    k = inp["kind"]
    if k == "fn":
        return _fnmatch.fnmatch(inp["name"], inp["pat"])
    from breezy import config
    import configobj
    if k == "iter":
        return [[s, e, n] for s, e, n in config._iter_for_location_by_parts(list(inp["sections"]), inp["location"])]
    if k in ("loc", "bool"):
        _write_store(inp)
        stack = config.LocationStack(inp["location"])
        ids = [s.id for _, s in stack.store.get_sections()]
        want = ([None] if inp["nn"] else []) + [i for i, _ in inp["named"]]
        if ids != want:
            raise AssertionError("locations.conf was not read as intended: %r vs %r" % (ids, want))
        if k == "bool":
            return stack.get(inp["name"])
        matcher = config.LocationMatcher(stack.store, inp["location"])
        secs = [[s.id or "", s.extra_path] for _, s in matcher.get_sections()]
        # a FRESH stack for the value
        config._shared_stores.clear()
        val = config.LocationStack(inp["location"]).get(inp["name"], expand=False)
        return [secs, val]
    if k == "spm":
        _write_store(dict(inp, glob=None, name="foo"))
        store = config.LocationStack(inp["location"]).store
        m = config.StartingPathMatcher(store, inp["location"])
        return [[s.id or "", s.extra_path] for _, s in m.get_sections()]
    if k == "value":
        v = inp["v"]
        _reset_files()
        s = config.LocationStack("/v/loc")
        try:
            s.set("foo", v)
        except configobj.ConfigObjError:
            return [Err("ConfigObjError"), Err("ConfigObjError")]
        mem = s.get("foo", expand=False)
        try:
            s.store.save()
        except configobj.ConfigObjError:
            return [mem, Err("ConfigObjError")]
        config._shared_stores.clear()
        try:
            got = config.LocationStack("/v/loc").get("foo", expand=False)
        except config.ParseConfigError:
            got = Err("ParseConfigError")
        return [mem, got]
    if k == "selfloc":
        loc = inp["location"]
        _reset_files()
        s = config.LocationStack(loc)
        s.set("foo", "x")
        mem = s.get("foo", expand=False)
        try:
            s.store.save()
            config._shared_stores.clear()
            got = config.LocationStack(loc).get("foo", expand=False)
        except (config.ParseConfigError, configobj.ConfigObjError) as e:
            got = Err(type(e).__name__)
        return [mem, got]
    raise ValueError(k)


def value_safe(v):
    ws = {133, 160, 5760, 8232, 8233, 8239, 8287, 12288} | set(range(8192, 8203))
    return all(ord(c) in (9, 10) or (ord(c) >= 32 and ord(c) != 127 and ord(c) not in ws) for c in v)


def impl_obs(inp, obs):
    if isinstance(obs, Err):
        return obs
    k = inp["kind"]
    if k == "value" and not value_safe(inp["v"]):
        return [obs[0], Tag("unmodelled")]
    if k == "selfloc":
        return obs[0]
    return obs


def model_term(inp):
    k = inp["kind"]
    if k == "fn":
        return f"run_fn {cstr(inp['name'])} {cstr(inp['pat'])}"
    if k == "iter":
        return f"run_iter {coq_list([cstr(s) for s in inp['sections']])} {cstr(inp['location'])}"
    if k in ("loc", "bool"):
        nn = coq_option(inp["nn"] or None, copts)
        head = (f"{nn} {cnamed(inp['named'])} {cstr(inp['location'])} "
                f"{coq_option(inp['glob'], cstr)} {cstr(inp['name'])}")
        if k == "bool":
            return f"run_bool {head} {coq_option(inp['default'], cstr)}"
        return f"run_loc {head}"
    if k == "spm":
        return (f"run_spm {coq_option(inp['nn'] or None, copts)} {cnamed(inp['named'])} "
                f"{cstr(inp['location'])}")
    if k == "value":
        return f"run_value {cstr(inp['v'])}"
    if k == "selfloc":
        return f"run_selfloc {cstr(inp['location'])} {cstr('foo')}"
    raise ValueError(k)


# ---------------------------------------------------------------- the property on the implementation
LOCAL_REFS = ("{relpath}", "{basename}", "{branchname}")
_TRUE = {"yes", "y", "on", "true", "1"}


def _unq(v):
    if v and v[0] == v[-1] and v[0] in "\"'":
        return v[1:-1]
    return v


def _spec_sections(inp):
    """Independent statement of the rule: matching sections, most specific first, cut at ignore_parents."""
    loc = inp["location"]
    lp = loc.rstrip("/").split("/")
    cands = []
    if inp["nn"]:
        cands.append((0, "", dict(map(tuple, inp["nn"])), loc))
    for i, o in inp["named"]:
        sp = i.rstrip("/").split("/")
        if len(sp) <= len(lp) and all(_fnmatch.fnmatchcase(a, b) for a, b in zip(lp, sp)):
            cands.append((len(sp), i, dict(map(tuple, o)), "/".join(lp[len(sp):])))
    cands.sort(key=lambda c: (c[0], c[1]), reverse=True)
    return cands


def _simple(o, name):
    """Value of [name] in options o when no policy / reference machinery is involved, else NotImplemented."""
    v = o.get(name)
    if v is None:
        return None
    if "{" in v or (name + ":policy") in o:
        return NotImplemented
    return v


def oracle(inp, obs):
    if isinstance(obs, Err):
        return "driver error " + str(obs)
    k = inp["kind"]
    if k == "fn":
        return None
    if k == "iter":
        lp = inp["location"].rstrip("/").split("/")
        want = []
        for s in inp["sections"]:
            sp = s.rstrip("/").split("/")
            if len(sp) <= len(lp) and all(_fnmatch.fnmatchcase(a, b) for a, b in zip(lp, sp)):
                want.append([s, "/".join(lp[len(sp):]), len(sp)])
        if obs != want:
            return "matching is not the component-wise prefix/glob match with the unmatched suffix: %r vs %r" % (obs, want)
        return None
    if k == "loc":
        secs, val = obs
        cands = _spec_sections(inp)
        want, value = [], None
        undecided = False
        for n, i, o, extra in cands:
            ign = _simple(o, "ignore_parents")
            if ign is NotImplemented:
                undecided = True
                break
            if ign is not None and ign.lower() in _TRUE:
                break
            want.append([i, extra])
        if not undecided:
            if secs != want:
                return "sections are not the matching ones, most specific first, cut at ignore_parents: %r vs %r" % (secs, want)
        elif secs != want + secs[len(want):] or [s for s in secs if s not in [[i, e] for _, i, _, e in cands]]:
            return "sections %r are not a prefix-compatible selection of the matching sections" % (secs,)
        # the value comes from the first visible section that defines the option
        omap = {i: o for _, i, o, _ in cands}
        for i, extra in secs:
            o = omap[i]
            if inp["name"] in o:
                raw = o[inp["name"]]
                pol = _simple(o, inp["name"] + ":policy")
                if pol is NotImplemented or (inp["name"] + ":policy:policy") in o:
                    return None
                if pol == "appendpath":
                    raw = extra if extra.startswith("/") else raw + "/" + extra
                base = extra.rstrip("/")
                base = base[base.rfind("/") + 1:] if not extra.endswith("//") else ""
                bn = inp["location"]
                bn = bn[:-1] if bn.endswith("/") else bn
                bn = bn[bn.rfind("/") + 1:]
                if i == "":
                    bn = ""
                exp = raw.replace("{relpath}", "\0R").replace("{basename}", "\0B").replace("{branchname}", "\0N")
                exp = exp.replace("\0R", extra).replace("\0B", base).replace("\0N", bn)
                if val != _unq(exp):
                    return "value %r is not the one of the most specific visible section %r (%r)" % (val, i, _unq(exp))
                return None
        want_val = None if inp["glob"] is None else _unq(inp["glob"])
        if val != want_val:
            return "no visible section defines the option but the value is %r (global: %r)" % (val, want_val)
        return None
    if k == "bool":
        return None
    if k == "spm":
        order = [i for i, _ in reversed(inp["named"])] + ([""] if inp["nn"] else [])
        ids = [i for i, _ in obs]
        it = iter(order)
        if not all(any(i == j for j in it) for i in ids):
            return "StartingPathMatcher does not respect the reversed store order: %r" % (ids,)
        return None
    if k == "value":
        v = inp["v"]
        if any(r in v for r in LOCAL_REFS):
            return None     # a reference to a section-local option, expanded by design
        mem, got = obs
        if isinstance(mem, Err) and isinstance(got, Err) and str(got) == "ConfigObjError":
            return None     # refused loudly at set time: nothing was stored
        if mem != v:
            return "Stack.set(%r) then Stack.get on the same stack gives %r" % (v, mem)
        if isinstance(got, Err) and str(got) == "ConfigObjError":
            return None     # save refused loudly (ConfigObj cannot quote the text): nothing was written
        if got != v:
            return "Stack.set(%r), save, fresh Stack.get gives %r" % (v, got)
        return None
    if k == "selfloc":
        mem, got = obs
        if mem != "x":
            return "LocationStack(%r).set then get on the same stack gives %r" % (inp["location"], mem)
        if got != "x":
            return "LocationStack(%r).set, save, fresh get gives %r" % (inp["location"], got)
        return None
    return "unknown kind"


LINEBREAKS = set("\r\x0b\x0c\x1c\x1d\x1e\x85  ")


def _has_both_quotes(v):
    return "'" in v and '"' in v


def finding_matches(fid, inp, obs, why):
    """C49-multiline is fixed (/repo 4293772); C49-mixed-quotes is narrowed to its residue."""
    k = inp["kind"]
    if k == "value":
        v = inp["v"]
        if fid == "C49-linebreak":
            # any line boundary other than LF: unparsable file, or (inside a multi-line
            # value) silently rewritten to LF
            return bool(set(v) & LINEBREAKS)
        if set(v) & LINEBREAKS:
            return False
        if fid == "C49-mixed-quotes":
            # residue: single line, both kinds of quote, no '#', same quote at both ends;
            # only the save + reload path is damaged
            return ("\n" not in v and _has_both_quotes(v) and "#" not in v and len(v) >= 2
                    and v[0] == v[-1] and v[0] in "'\"" and obs[0] == v)
        if fid == "C49-unicode-space":
            return ("\n" not in v and not _has_both_quotes(v)
                    and v.strip() != v and v.strip(" \t") == v)
    if k == "selfloc":
        loc = inp["location"]
        if fid == "C49-glob-location":
            lp = loc.rstrip("/").split("/")
            return not all(_fnmatch.fnmatchcase(a, a) for a in lp)
        if fid == "C49-bracket-location":
            lp = loc.rstrip("/").split("/")
            return all(_fnmatch.fnmatchcase(a, a) for a in lp) and ("]" in loc or "[" in loc)
    return False


def nontrivial(inp, obs):
    k = inp["kind"]
    if k == "fn":
        return any(c in inp["pat"] for c in "*?[")
    if k == "iter":
        return not isinstance(obs, Err) and len(obs) >= 1
    if k in ("loc", "bool"):
        if isinstance(obs, Err):
            return False
        if k == "bool":
            return True
        return len(obs[0]) >= 2 or any(c in i for i, _ in inp["named"] for c in "*?[") or \
            any("policy" in kk or kk == "ignore_parents" for _, o in inp["named"] for kk, _ in o)
    if k == "value":
        return any(c in inp["v"] for c in "\"',#=\n\\ ")
    return True


def distribution(inputs, observations):
    d = {"by_kind": {}, "loc_visible_sections": {}, "loc_value_from": {"section": 0, "global": 0, "none": 0},
         "loc_cut_by_ignore_parents": 0, "loc_with_policy": 0, "fn_true": 0, "value_roundtrip_ok": 0,
         "value_roundtrip_bad": 0, "dropped_unrepresentable": _state.get("dropped", 0)}
    for i, o in zip(inputs, observations):
        k = i["kind"]
        d["by_kind"][k] = d["by_kind"].get(k, 0) + 1
        if isinstance(o, Err):
            continue
        if k == "fn" and o:
            d["fn_true"] += 1
        if k == "loc":
            n = str(min(len(o[0]), 6))
            d["loc_visible_sections"][n] = d["loc_visible_sections"].get(n, 0) + 1
            if len(o[0]) < len(_spec_sections(i)):
                d["loc_cut_by_ignore_parents"] += 1
            if any("policy" in kk for _, oo in i["named"] for kk, _ in oo):
                d["loc_with_policy"] += 1
            if o[1] is None:
                d["loc_value_from"]["none"] += 1
            elif any(i["name"] in dict(map(tuple, oo)) for ii, oo in ([["", i["nn"] or []]] + i["named"])
                     if [ii] in [[s[0]] for s in o[0]]):
                d["loc_value_from"]["section"] += 1
            else:
                d["loc_value_from"]["global"] += 1
        if k == "value":
            if o[0] == i["v"] and o[1] == i["v"]:
                d["value_roundtrip_ok"] += 1
            else:
                d["value_roundtrip_bad"] += 1
    return d


def shrink(inp, fails):
    k = inp["kind"]
    if k == "value":
        v = inp["v"]
        changed = True
        while changed:
            changed = False
            for j in range(len(v)):
                w = v[:j] + v[j + 1:]
                if fails(dict(inp, v=w)):
                    v, changed = w, True
                    break
        return dict(inp, v=v)
    if k in ("loc", "bool"):
        cur = inp
        changed = True
        while changed:
            changed = False
            for j in range(len(cur["named"])):
                cand = dict(cur, named=cur["named"][:j] + cur["named"][j + 1:])
                if fails(cand):
                    cur, changed = cand, True
                    break
        return cur
    return inp
