"""C48 -- Ignore patterns match according to their documented semantics (tie H, textual).

Three parties are compared on every case:
  * the REAL code  (breezy.globbing: _sub_fullpath/_sub_basename/_sub_extension, Globster,
    ExceptionGlobster, _OrderedGlobster; bzrformats normalize_pattern; Python re)
  * the Coq model  (coq/Model/Globbing.v, evaluated by vm_compute)
  * the reference matcher written from `brz help patterns` (py_* below = the oracle; its Coq twin
    is Model.Globbing.glob_match, and the two are cross-checked by the "ref" cases).
"""
import itertools
import warnings

from vlib import Tag, Err, coq_list, coq_nat

PROP = "C48"
COQ = {
    "property_file": "Properties/C48.v",
    "imports": "From BV Require Import Model.Globbing.",
}
META = {
    "level": "proof",
    "title": "Ignore patterns match according to their documented semantics",
    "technique": ("Coq: glob token grammar, regex AST with denotational semantics + verified backtracking matcher, "
                  "translation correctness, Globster/ExceptionGlobster for every batch size; textual tie of the "
                  "translators (model text == real _sub_* output) + behavioural tie against real Globster/re"),
    "level_text": ("Proved for all token lists of the glob grammar (literal, backslash escape, *, ?, **/, character "
                   "class with negation and ranges) and all names (newlines included): the regex the translators emit, "
                   "behind the kind's prefix and before '\\Z', matches exactly the names the documented semantics "
                   "selects; Globster.match returns a matching pattern iff one exists, for every batch size k>0 (so 99 "
                   "vs more cannot matter); '!'/'!!' precedence of ExceptionGlobster; _OrderedGlobster returns the first "
                   "match. (Findings C48-newline and C48-re-global-flag are repaired; their witnesses are regression inputs.) Partial: RE: "
                   "patterns and POSIX named classes ([:digit:]) have no Coq semantics (correspondence/oracle only)."),
    "level_note": ("Trusted: Coq kernel, vm_compute; that Python's re parses the printed regex back to the model's AST "
                   "and implements its semantics (validated on every case: real Globster vs the verified matcher); the "
                   "scanner reading of the Rust Replacer (validated textually); normalize_pattern model (validated)."),
    "design_ref": "DESIGN.md §5 C48",
    "trusted_base": ["hand model coq/Model/Globbing.v of breezy/globbing.py",
                     "reading of bzrformats Replacer as leftmost-first rule scanner (textual tie on every case)",
                     "Python re semantics for the printed regex subset (behavioural tie on every case)",
                     "correspondence harness harness/props/c48.py"],
    "assumptions": ["Python re alternation contract: prefix(?:(A1)|...|(An))$ matches iff some prefix(?:(Ai))$ matches and "
                    "lastindex designates such an i (Section hypothesis; instantiated and proved for the model's matcher)",
                    "normalize_pattern (bzrformats) is an arbitrary function in the Globster theorems; its concrete model "
                    "is validated by the run",
                    "RE: patterns and patterns containing '[:' are outside the Coq semantics",
                    "file names are ASCII in the run (the model is over code points)"],
    "rule": ("exhaustive short pattern strings over a glob alphabet (textual tie); structured random patterns from the "
             "token grammar x names from a path grammar biased towards near-matches; pattern lists of 1..250 patterns "
             "crossing the 99 boundary per kind; non-trivial = at least one name matched and one not"),
}
SHARD = 250

KINDS = {"extension": "KExt", "basename": "KBase", "fullpath": "KFull"}
SPECIALS = "(){}|^$+."


# --------------------------------------------------------------------------
# the reference matcher (oracle), written from `brz help patterns`
# --------------------------------------------------------------------------

def py_opaque(p):
    return p.startswith("RE:") or p.startswith("!RE:") or "[:" in p


def _run_close(s):
    """longest run of non-bracket chars, non-empty, followed by ']' -> (run, consumed)"""
    i = 0
    while i < len(s) and s[i] not in "[]":
        i += 1
    if i == 0 or i >= len(s) or s[i] != "]":
        return None
    return s[:i], i + 1


def _scan_group(s):
    """text after '[' -> (neg, body, consumed) or None; documented forms [..] [!..] [^..],
    a ']' directly after the opening (or after ^) is literal."""
    def try_d():
        rc = _run_close(s)
        if not rc:
            return None
        r, n = rc
        if r[0] in "!^":
            return True, r[1:], n
        return False, r, n
    if s.startswith("^]"):
        rc = _run_close(s[2:])
        if rc:
            return True, "]" + rc[0], rc[1] + 2
        return try_d()
    if s.startswith("^"):
        rc = _run_close(s[1:])
        if rc:
            return True, rc[0], rc[1] + 1
        return try_d()
    if s.startswith("]"):
        rc = _run_close(s[1:])
        if rc:
            return False, "]" + rc[0], rc[1] + 1
        return try_d()
    return try_d()


def py_tokenize(full, p):
    """glob tokens of a pattern: ('lit',c) ('esc',c) ('star',) ('quest',) ('dirs',) ('class',neg,body)"""
    toks = []
    i = 0
    n = len(p)
    while i < n:
        c = p[i]
        boundary = i == 0 or p[i - 1] == "/"
        if c == "[":
            g = _scan_group(p[i + 1:])
            if g:
                toks.append(("class", g[0], g[1]))
                i += 1 + g[2]
            else:
                toks.append(("lit", c))
                i += 1
            continue
        if full and boundary:
            j = i
            while True:
                if p.startswith("./", j):
                    j += 2
                elif p.startswith("/", j):
                    j += 1
                else:
                    break
            if j > i:
                i = j
                continue
        if c == "\\":
            if i + 1 < n and p[i + 1] != "\n":
                toks.append(("esc", p[i + 1]))
                i += 2
            else:
                toks.append(("lit", c))
                i += 1
            continue
        if c in SPECIALS:
            toks.append(("lit", c))
            i += 1
            continue
        if c == "*":
            j = i
            while j < n and p[j] == "*":
                j += 1
            if full and boundary and j - i >= 2 and j < n and p[j] == "/":
                toks.append(("dirs",))
                i = j + 1
            else:
                toks.append(("star",))
                i = j
            continue
        if c == "?":
            toks.append(("quest",))
        else:
            toks.append(("lit", c))
        i += 1
    return toks


def _class_items(body):
    items = []
    i = 0
    while i < len(body):
        c = body[i]
        if i + 2 < len(body) and body[i + 1] == "-":
            d = body[i + 2]
            if d < c:
                return None
            items.append((c, d))
            i += 3
        else:
            items.append((c, c))
            i += 1
    return items


def _wf_tok(full, t):
    if t[0] == "lit":
        return t[1] not in "*?[\\"
    if t[0] == "esc":
        return not (t[1].isascii() and t[1].isalnum())
    if t[0] == "dirs":
        return full
    if t[0] == "class":
        neg, body = t[1], t[2]
        if not body:
            return False
        if body[0] in "[\\" or (not neg and body[0] == "^"):
            return False
        if any(ch in "[]\\" for ch in body[1:]):
            return False
        return _class_items(body) is not None
    return True


def _in_class(neg, body, ch):
    items = _class_items(body)
    if items is None:
        return False
    return neg != any(lo <= ch <= hi for lo, hi in items)


def _gm(toks, s):
    """documented semantics on one string (whole path, or last component)"""
    if not toks:
        return s == ""
    t, rest = toks[0], toks[1:]
    if t[0] in ("lit", "esc"):
        return s[:1] == t[1] and _gm(rest, s[1:])
    if t[0] == "quest":                      # any single character except '/'
        return s != "" and s[0] != "/" and _gm(rest, s[1:])
    if t[0] == "class":                      # one character of the group
        return s != "" and _in_class(t[1], t[2], s[0]) and _gm(rest, s[1:])
    if t[0] == "star":                       # 0 or more characters except '/'
        i = 0
        while True:
            if _gm(rest, s[i:]):
                return True
            if i < len(s) and s[i] != "/":
                i += 1
            else:
                return False
    if t[0] == "dirs":                       # 0 or more directories
        if _gm(rest, s):
            return True
        return any(s[i] == "/" and _gm(rest, s[i + 1:]) for i in range(len(s)))
    raise AssertionError(t)


def py_wf_kind(full, p):
    return not py_opaque(p) and all(_wf_tok(full, t) for t in py_tokenize(full, p))


def py_wf(p):
    """p normalized"""
    return py_wf_kind("/" in p, p)


def py_glob_match(p, name):
    """p normalized and well formed"""
    if "/" in p:
        return _gm(py_tokenize(True, p), name)
    return _gm(py_tokenize(False, p), name.rsplit("/", 1)[-1])


def py_normalize(p):
    from breezy import globbing
    return globbing.normalize_pattern(p)


def _split_exc(pats):
    i = [[], [], []]
    for p in pats:
        if p.startswith("!!"):
            i[2].append(p[2:])
        elif p.startswith("!"):
            i[1].append(p[1:])
        else:
            i[0].append(p)
    return i


# --------------------------------------------------------------------------
# generators
# --------------------------------------------------------------------------

WORDS = ["a", "b", "ab", "foo", "bar", "x", "y", "src", "lib", "a.b", "py", "c", "o", "t1", "~", "#", "a-b", "_x"]
ALPHA_EXH = "a*?[]!^-/."
NAME_ATOMS = ["a", "b", "c", "ab", "foo", "bar", "x", "y", "a.b", "py", ".", "-", "^", "!", "]", "[", "*", "?", "~",
              "#", "(", ")", "{", "$", "+", "|", " ", "z", "1", "_x"]


def gen_class(rng):
    neg = rng.choice(["", "", "!", "^"])
    items = []
    if rng.random() < 0.15:
        items.append("]")
    for _ in range(rng.randint(1, 3)):
        r = rng.random()
        if r < 0.35:
            lo = rng.choice("abcxyz019")
            hi = chr(min(ord(lo) + rng.randint(0, 3), 126))
            items.append(lo + "-" + hi)
        elif r < 0.9:
            items.append(rng.choice("abcxyz.-^!~#/*?$1 "))
        else:
            items.append(rng.choice(["z-a", "-", "a-", "^"]))
    return "[" + neg + "".join(items) + "]"


def gen_component(rng):
    out = []
    for _ in range(rng.randint(1, 3)):
        r = rng.random()
        if r < 0.45:
            out.append(rng.choice(WORDS))
        elif r < 0.62:
            out.append("*")
        elif r < 0.72:
            out.append("?")
        elif r < 0.84:
            out.append(gen_class(rng))
        elif r < 0.90:
            out.append(rng.choice(SPECIALS + "]!-"))
        elif r < 0.94:
            out.append("**")
        else:
            out.append("." + rng.choice(WORDS))
    return "".join(out)


def gen_pattern(rng, kind=None):
    kind = kind or rng.choice(["extension", "basename", "basename", "fullpath", "fullpath"])
    if kind == "extension":
        return "*." + rng.choice(["py", "c", "o", "a.b", "t?", "[co]", "py[co]", "*", "b.c", "x*", "sw[nop]", "~"])
    if kind == "basename":
        p = gen_component(rng)
        return p if "/" not in p else p.replace("/", "")
    parts = []
    if rng.random() < 0.25:
        parts.append(rng.choice([".", "", "**", "***"]))
    for _ in range(rng.randint(1, 3)):
        r = rng.random()
        if r < 0.2:
            parts.append("**")
        elif r < 0.27:
            parts.append(".")
        else:
            parts.append(gen_component(rng))
    if len(parts) == 1:
        parts.insert(0, rng.choice([".", "**", "a", "src"]))
    p = "/".join(parts)
    if rng.random() < 0.1:
        p += "/"
    return p


def instantiate(rng, p):
    """a name that is likely to match pattern p (or nearly so)"""
    full = "/" in p
    out = []
    for t in py_tokenize(full, p):
        if t[0] in ("lit", "esc"):
            out.append(t[1])
        elif t[0] == "quest":
            out.append(rng.choice("abx./"))
        elif t[0] == "star":
            out.append(rng.choice(["", "a", "foo", "a.b", "x/y", "ab"]))
        elif t[0] == "dirs":
            out.append(rng.choice(["", "a/", "a/b/", "x/", "/"]))
        elif t[0] == "class":
            cands = [ch for ch in "abcxyz019.-^!~#/*?$ ]" if _in_class(t[1], t[2], ch)]
            out.append(rng.choice(cands) if cands and rng.random() < 0.85 else rng.choice("abz/"))
    s = "".join(out)
    if not full and rng.random() < 0.5:
        s = rng.choice(["a/", "x/y/", "src/"]) + s
    r = rng.random()
    if r < 0.12 and s:
        i = rng.randrange(len(s))
        s = s[:i] + s[i + 1:]
    elif r < 0.24:
        i = rng.randint(0, len(s))
        s = s[:i] + rng.choice("ab/.x") + s[i:]
    elif r < 0.28:
        s = s + rng.choice(["/a", ".c", "x"])
    return s


def gen_name(rng):
    comps = []
    for _ in range(rng.randint(1, 3)):
        comps.append("".join(rng.choice(NAME_ATOMS) for _ in range(rng.randint(1, 3))))
    return "/".join(comps)


def names_for(rng, pats, n):
    out = []
    for _ in range(n):
        if pats and rng.random() < 0.7:
            p = rng.choice(pats)
            while p.startswith("!"):
                p = p[1:]
            p = py_normalize(p)
            out.append(instantiate(rng, p) if not py_opaque(p) else gen_name(rng))
        else:
            out.append(gen_name(rng))
    return out


def big_list(rng, n, kind):
    """n distinct-ish patterns of one kind, so that the 99 boundary of that kind is crossed"""
    pats = []
    for i in range(n):
        w = "p%d" % i
        if kind == "extension":
            pats.append("*." + w + rng.choice(["", "?", "[ab]", "*"]))
        elif kind == "basename":
            pats.append(rng.choice(["", "*", "?", "[!x]"]) + w + rng.choice(["", "*", ".c"]))
        else:
            pats.append(rng.choice(["d/", "**/", "./", "*/", "d/**/"]) + w + rng.choice(["", "*", "/?"]))
    return pats


def corpus():
    out = []
    # repaired finding C48-newline (37b5ed8): regression inputs, must pass
    out.append({"kind": "match", "mode": "plain", "pats": ["*"], "names": ["x\ny"]})
    out.append({"kind": "match", "mode": "plain", "pats": ["foo"], "names": ["foo\n"]})
    out.append({"kind": "match", "mode": "plain", "pats": ["*.py"], "names": ["foo\nbar.py", "a.py\n"]})
    out.append({"kind": "match", "mode": "plain", "pats": ["a/b"], "names": ["a/b\n"]})
    # repaired finding C48-re-global-flag (2d454d4): regression inputs, must pass
    out.append({"kind": "match", "mode": "plain", "pats": ["RE:(?i)foo"], "names": ["FOO", "foo", "bar"]})
    out.append({"kind": "match", "mode": "plain", "pats": ["RE:(?i:foo)", "*.c"], "names": ["FOO", "foo", "bar", "a.c"]})
    out.append({"kind": "match", "mode": "plain", "pats": ["*.c", "RE:(?i)foo", "bar"], "names": ["x/FoO", "BAR", "bar", "A.C"]})
    out.append({"kind": "match", "mode": "exc", "pats": ["?", "**/x", "!*.o", "a/**/b", "[!a]x"],
                "names": ["\n", "a\nb/x", "a\n.o", "a/\n/b", "\nx", "b\n/x", "d\n/a.o", "a/b\n"]})
    # reported group is A matching alternative, not necessarily the first one in list order (extension prefix)
    out.append({"kind": "match", "mode": "plain", "pats": ["*.b.c", "*.c"], "names": ["a.b.c"]})
    out.append({"kind": "match", "mode": "plain", "pats": ["*.c", "*.b.c"], "names": ["a.b.c"]})
    # truthiness of the empty pattern in ExceptionGlobster
    out.append({"kind": "match", "mode": "exc", "pats": ["!", "*"], "names": ["", "a"]})
    out.append({"kind": "match", "mode": "exc", "pats": ["!!", "!*"], "names": ["", "a"]})
    # documented examples and the default user ignores
    from breezy import ignores
    out.append({"kind": "match", "mode": "exc", "pats": list(ignores.USER_DEFAULTS),
                "names": ["a.o", "x/b.pyc", "x/b.py", "foo~", ".#a", "#a#", "__pycache__", "d/__pycache__", "a.swp",
                          "bzr-orphans", "a.so", "lib.a", "a", "x.sw", "#a"]})
    out.append({"kind": "match", "mode": "plain", "pats": ["./a", "/b", "a/**/b", "**/c", "d/**", "x/***/y"],
                "names": ["a", "z/a", "b", "z/b", "a/b", "a/x/b", "a/x/y/b", "a//b", "c", "z/c", "z/z/c", "d/x", "d/x/y",
                          "x/y", "x/q/y", "xy"]})
    out.append({"kind": "match", "mode": "exc", "pats": ["*.o", "!keep.o", "!!dist/keep.o", "!dist/*", "dist"],
                "names": ["a.o", "keep.o", "dist/keep.o", "dist/x", "dist", "x/keep.o"]})
    for k in KINDS:
        out.append({"kind": "prefix", "k": k})
    for p in ["[!]", "[^]", "[^]]", "[!]a]", "[a", "a]", "[z-a]", "[]a]", "[^]a]", "[]", "[]]", "[a-]", "[-a]", "[a-c-e]",
              "[!!]", "[^^]", "[!^]", "[a/b]/c", "x/[!/]", "**/", "**", "a/**", "**a/b", "a**/b", "/**/a", "./**/a",
              "a/./b", ".//./a", "/", "", ".", "..", "./", "a/../b", "***", "*.*", "*.", "*.**", "**.a", "?*.a"]:
        out.append({"kind": "translate", "p": p})
        out.append({"kind": "ref", "p": p, "names": ["a", "]", "^", "!", "a]", "x/a", "-", "b", "[", "", "a/b", ".", ".a",
                                                       "a.a", "a/x/b", "/"]})
    for k in KINDS:
        for p in ["\\*x", "a\\.b", "\\[a]", "a\\", "\\\\", "a\\\\*", "[a\\]b]", "\\a", "a\\/b", "a\\\nb", "\\?\\*\\[", "RE:a",
                  "[[:digit:]]", "a/./b", "**/x", "\\(x\\)"]:
            out.append({"kind": "sub", "k": k, "p": p})
    out.append({"kind": "raw", "k": "basename", "p": "\\*x\\?", "names": ["*x?", "ax?", "*xa", "d/*x?"]})
    out.append({"kind": "raw", "k": "fullpath", "p": "a\\*/\\[b]", "names": ["a*/[b]", "ab/[b]", "a*/b"]})
    out.append({"kind": "raw", "k": "extension", "p": "*.\\*", "names": ["a.*", "a.b", "*"]})
    return out


def cases(rng, tier):
    quick = tier == "quick"
    # 1. textual tie, exhaustive over a glob alphabet
    maxlen = 4 if quick else 5
    for n in range(maxlen + 1):
        for t in itertools.product(ALPHA_EXH, repeat=n):
            p = "".join(t)
            if n == maxlen and rng.random() < (0.75 if quick else 0.94):
                continue
            yield {"kind": "translate", "p": p}
    # 2. direct translator calls on un-normalized strings (backslashes, //, trailing /)
    for _ in range(400 if quick else 3000):
        n = rng.randint(1, 7)
        p = "".join(rng.choice("ab*?[]!^-/.\\\\(|") for _ in range(n))
        yield {"kind": "sub", "k": rng.choice(list(KINDS)), "p": p}
    # 3. exhaustive short patterns x fixed name set: behaviour (model vs real) and oracle
    names3 = ["", "a", "b", "aa", "ab", "a/a", "a/b", "b/a", "/a", "a/", ".", "a.a", ".a", "a.", "-", "^", "!", "]", "[",
              "*", "?", "a/a/a", "a//a", "./a", "-a", "a-", "!a", "a]"]
    alpha3 = "a*?[]!-/."
    maxlen3 = 3 if quick else 4
    for n in range(1, maxlen3 + 1):
        for t in itertools.product(alpha3, repeat=n):
            p = "".join(t)
            if n == maxlen3 and rng.random() < (0.6 if quick else 0.7):
                continue
            yield {"kind": "match", "mode": "plain", "pats": [p], "names": names3}
    # 4. structured single patterns, near-miss names
    for _ in range(500 if quick else 8000):
        p = gen_pattern(rng)
        yield {"kind": "match", "mode": rng.choice(["plain", "plain", "ordered"]), "pats": [p],
               "names": names_for(rng, [p], 8)}
    for _ in range(150 if quick else 2000):
        p = gen_pattern(rng)
        yield {"kind": "ref", "p": p, "names": names_for(rng, [p], 8)}
    # 5. raw (un-normalized, kind forced): backslash escapes
    for _ in range(150 if quick else 2000):
        k = rng.choice(list(KINDS))
        body = "".join(rng.choice(["a", "b", "\\*", "\\?", "\\[", "\\.", "*", "?", "\\]", "\\-", "[ab]", ".", "\\\\", "\\a"])
                       for _ in range(rng.randint(1, 4)))
        if k == "fullpath":
            body = rng.choice(["a/", "**/", ""]) + body
        p = ("*." + body) if k == "extension" else body
        nm = [body.replace("\\", ""), "a" + body.replace("\\", ""), "x/" + body.replace("\\", "")] + \
            [gen_name(rng) for _ in range(3)]
        yield {"kind": "raw", "k": k, "p": p, "names": nm}
    # 6. small and medium lists, all modes
    for _ in range(300 if quick else 4000):
        n = rng.choice([2, 3, 3, 5, 8, 13])
        pats = [gen_pattern(rng) for _ in range(n)]
        mode = rng.choice(["plain", "exc", "exc", "ordered"])
        if mode == "exc":
            pats = [rng.choice(["", "", "!", "!!"]) + p for p in pats]
            if rng.random() < 0.03:
                pats.append(rng.choice(["!", "!!"]))
        yield {"kind": "match", "mode": mode, "pats": pats, "names": names_for(rng, pats, 10)}
    # 7. big lists crossing the 99 boundary of one kind at several offsets
    sizes = [98, 99, 100, 101, 150, 197, 198, 199, 200, 250]
    reps = 1 if quick else 8
    for _ in range(reps):
        for n in sizes:
            for kind in KINDS:
                if quick and (n + len(kind)) % 2 == 0:
                    continue
                pats = big_list(rng, n, kind)
                bigset = set(pats)
                # a few patterns of the other kinds so that every batch list is exercised
                extra = [gen_pattern(rng) for _ in range(rng.randint(0, 4))]
                pats = pats + extra
                rng.shuffle(pats)
                own = [p for p in pats if p in bigset]
                mode = rng.choice(["plain", "plain", "exc"])
                if mode == "exc":
                    pats = [(rng.choice(["!", "!!"]) if rng.random() < 0.08 else "") + p for p in pats]
                # names that hit patterns around the boundary positions (in the kind's own list order)
                picks = []
                for idx in (0, 97, 98, 99, 100, 101, 197, 198, 199, n - 1):
                    if idx < len(own):
                        picks.append(own[idx])
                nm = []
                for p in picks:
                    q = p
                    while q.startswith("!"):
                        q = q[1:]
                    nm.append(instantiate(rng, py_normalize(q)))
                nm += [gen_name(rng) for _ in range(2)]
                yield {"kind": "match", "mode": mode, "pats": pats, "names": nm}
                if rng.random() < 0.3:
                    yield {"kind": "joined", "k": kind, "pats": [py_normalize(p.lstrip("!")) for p in pats
                                                                if not py_opaque(p)][:rng.randint(1, 6)]}
    # 6b. ignore files through breezy.ignores.parse_ignore_file (a set: only ignored-ness is observed)
    for _ in range(120 if quick else 1500):
        lines = []
        for _i in range(rng.randint(1, 8)):
            r = rng.random()
            if r < 0.1:
                lines.append("# " + gen_pattern(rng))
            elif r < 0.17:
                lines.append("")
            else:
                lines.append(rng.choice(["", "", "", "!", "!!"]) + gen_pattern(rng) + rng.choice(["", "", "\r", "/"]))
        pats = [l for l in lines if l.rstrip("\r") and not l.startswith("#")]
        yield {"kind": "ignorefile", "lines": lines, "names": names_for(rng, [p.rstrip("\r") for p in pats], 8)}
    # 8. opaque patterns (RE:, named classes): oracle only (Python re as the reference), model skipped
    for _ in range(60 if quick else 1000):
        pats = [gen_pattern(rng) for _ in range(rng.randint(0, 3))]
        pats.append(rng.choice(["RE:a.*", "RE:^x/[ab]+$", "RE:(?i:foo)", "RE:(a|b)c", "*.[[:digit:]]", "[[:alnum:]]x",
                                "a/[[:space:]]b", "RE:.*\\.py[co]"]))
        rng.shuffle(pats)
        yield {"kind": "match", "mode": "plain", "pats": pats,
               "names": names_for(rng, pats, 6) + ["abc", "x/a", "x/bb", "FOO", "ac", "a.1", "1x", "a/ b", "a.pyc"]}


# --------------------------------------------------------------------------
# drivers
# --------------------------------------------------------------------------

def setup(scratch):
    import breezy
    import breezy.bzr  # noqa
    warnings.simplefilter("ignore", FutureWarning)


def _translator(k):
    from breezy import globbing
    return globbing.Globster.pattern_info[k]["translator"], globbing.Globster.pattern_info[k]["prefix"]


def _guard(f):
    from breezy import lazy_regex
    try:
        return f()
    except lazy_regex.InvalidPattern:
        return Err("InvalidPattern")


def impl(inp):
    from breezy import globbing
    kd = inp["kind"]
    if kd == "translate":
        n = globbing.normalize_pattern(inp["p"])
        k = globbing.Globster.identify(n)
        return [n, Tag(k), globbing.Globster.pattern_info[k]["translator"](n)]
    if kd == "sub":
        return _translator(inp["k"])[0](inp["p"])
    if kd == "prefix":
        return _translator(inp["k"])[1]
    if kd == "joined":
        g = globbing.Globster([])
        tr, pre = _translator(inp["k"])
        g._add_patterns(list(inp["pats"]), tr, pre)
        return [rx._regex_args[0] for rx, _ in g._regex_patterns]
    if kd == "ref":
        n = globbing.normalize_pattern(inp["p"])
        if not py_wf(n):
            return [False, []]
        return [True, [py_glob_match(n, x) for x in inp["names"]]]
    if kd == "ignorefile":
        import io
        from breezy import ignores
        pats = ignores.parse_ignore_file(io.BytesIO("\n".join(inp["lines"]).encode("utf-8")))
        g = globbing.ExceptionGlobster(pats)
        return [sorted(pats), [_guard(lambda: g.match(x)) for x in inp["names"]]]
    if kd == "raw":
        g = globbing.Globster([])
        tr, pre = _translator(inp["k"])
        g._add_patterns([inp["p"]], tr, pre)
        return [_guard(lambda: g.match(x)) for x in inp["names"]]
    cls = {"plain": globbing.Globster, "exc": globbing.ExceptionGlobster, "ordered": globbing._OrderedGlobster}[inp["mode"]]
    g = cls(list(inp["pats"]))
    return [_guard(lambda: g.match(x)) for x in inp["names"]]


def _norm_lists(inp):
    """normalized pattern lists as the constructors see them: (plain, exception, double-exception)"""
    if inp["mode"] == "exc":
        i = _split_exc(inp["pats"])
    else:
        i = [list(inp["pats"]), [], []]
    return [[py_normalize(p) for p in l] for l in i]


def _all_wf(inp):
    return all(py_wf(p) for l in _norm_lists(inp) for p in l)


def _any_opaque(inp):
    return any(py_opaque(p) for l in _norm_lists(inp) for p in l)


def _raw_wf(inp):
    p = inp["p"]
    return not py_opaque(p) and py_wf_kind(inp["k"] == "fullpath", p[2:] if inp["k"] == "extension" else p)


def impl_obs(inp, obs):
    kd = inp["kind"]
    if kd == "translate":
        if py_opaque(obs[0]):
            return [obs[0], obs[1], Tag("opaque")]
        return obs
    if kd == "sub":
        return Tag("opaque") if py_opaque(inp["p"]) else obs
    if kd == "joined":
        return obs[0] if len(obs) == 1 else Err("more than one batch")
    if kd == "raw":
        ok = _raw_wf(inp)
        return [True, obs] if ok else [False, []]
    if kd == "match":
        return [True, obs] if _all_wf(inp) else [False, []]
    if kd == "ignorefile":
        fake = {"mode": "exc", "pats": obs[0]}
        if not _all_wf(fake):
            return [False, []]
        return [True, [x if isinstance(x, Err) else (x is not None) for x in obs[1]]]
    return obs


def _cs(s):
    return "[" + ";".join(str(ord(c)) for c in s) + "]%N" if s else "(@nil N)"


def model_term(inp):
    kd = inp["kind"]
    if kd == "translate":
        return f"run_translate {_cs(inp['p'])}"
    if kd == "sub":
        return f"run_sub {KINDS[inp['k']]} {_cs(inp['p'])}"
    if kd == "prefix":
        return f"run_prefix {KINDS[inp['k']]}"
    if kd == "joined":
        return f"run_joined {KINDS[inp['k']]} {coq_list(inp['pats'], _cs)}"
    names = coq_list(inp["names"], _cs)
    if kd == "ref":
        return f"run_ref {_cs(inp['p'])} {names}"
    if kd == "ignorefile":
        return f"run_ignorefile {coq_list(inp['lines'], _cs)} {names}"
    if kd == "raw":
        return f"run_raw {KINDS[inp['k']]} {_cs(inp['p'])} {names}"
    f = {"plain": "run_match", "exc": "run_exc", "ordered": "run_ordered"}[inp["mode"]]
    return f"{f} {coq_list(inp['pats'], _cs)} {names}"


# --------------------------------------------------------------------------
# the property itself
# --------------------------------------------------------------------------

def _re_reference(p, name):
    """opaque patterns: what the documentation promises is 'a Python regular expression matched
    against the whole path' (RE:) / the POSIX class; use Python re on the single pattern."""
    import re
    from breezy import globbing
    if p.startswith("RE:"):
        return re.fullmatch(p[3:], name) is not None      # independent of _sub_re
    k = globbing.Globster.identify(p)
    tr, pre = _translator(k)
    return re.match(f"{pre}(?:({tr(p)}))\\Z", name) is not None


def _matches(p, name):
    return _re_reference(p, name) if py_opaque(p) else py_glob_match(p, name)


def oracle(inp, obs):
    if isinstance(obs, Err):
        return "driver error " + str(obs)
    if inp["kind"] == "raw":
        full = inp["k"] == "fullpath"
        p = inp["p"]
        if not _raw_wf(inp):
            return None
        toks = py_tokenize(full, p[2:] if inp["k"] == "extension" else p)
        if inp["k"] == "extension":
            toks = [("star",), ("lit", ".")] + toks
        for name, r in zip(inp["names"], obs):
            exp = _gm(toks, name if full else name.rsplit("/", 1)[-1])
            if isinstance(r, Err) or (r is not None) != exp:
                return f"raw {inp['k']} pattern {p!r}: name {name!r} -> {r!r}, documented semantics says match={exp}"
        return None
    if inp["kind"] == "ignorefile":
        # what the harness itself reads in the file: non-empty, non-comment lines
        want = {py_normalize(l.rstrip("\r\n")) for l in inp["lines"] if l.rstrip("\r\n") and not l.startswith("#")}
        if set(obs[0]) != want:
            return f"parse_ignore_file returned {sorted(obs[0])!r}, the file contains {sorted(want)!r}"
        inp = {"kind": "match", "mode": "exc", "pats": sorted(obs[0]), "names": inp["names"], "_bool": True}
        obs = obs[1]
    if inp["kind"] != "match":
        return None
    lists = _norm_lists(inp)
    if not all(py_wf(p) or py_opaque(p) for l in lists for p in l):
        return None                              # ill-formed patterns: no documented meaning
    if "" in lists[1] or "" in lists[2]:
        return None                              # an empty exception pattern ('!' / '!!' alone): no documented meaning
    for name, r in zip(inp["names"], obs):
        if isinstance(r, Err):
            return f"well-formed patterns raise {r} on {name!r}"
        m = [[p for p in l if _matches(p, name)] for l in lists]
        if inp.get("_bool"):
            exp = bool(m[2]) or (not m[1] and bool(m[0]))
            if (r is not None) != exp:
                return f"ignore file {inp['pats']!r}: {name!r} ignored={r is not None}, documented semantics says {exp}"
            continue
        if inp["mode"] == "exc":
            if m[2]:
                ok = r is not None and r.startswith("!!") and r[2:] in m[2]
                exp = "one of " + repr(["!!" + p for p in m[2]])
            elif m[1]:
                ok, exp = r is None, "None (exception pattern %r matches)" % m[1][0]
            else:
                ok = (r in m[0]) if m[0] else r is None
                exp = ("one of " + repr(m[0])) if m[0] else "None"
        elif inp["mode"] == "ordered":
            ok = (r == m[0][0]) if m[0] else r is None
            exp = repr(m[0][0]) if m[0] else "None"
        else:
            ok = (r in m[0]) if m[0] else r is None
            exp = ("one of " + repr(m[0][:5])) if m[0] else "None"
        if not ok:
            return f"{inp['mode']} match of {name!r} returned {r!r}, documented semantics requires {exp}"
    return None


def finding_matches(fid, inp, obs, why):
    return False        # C48-newline and C48-re-global-flag are repaired: nothing is excused


def nontrivial(inp, obs):
    if inp["kind"] == "ignorefile" and isinstance(obs, list):
        return any(o is None for o in obs[1]) and any(o is not None for o in obs[1])
    if inp["kind"] in ("match", "raw") and isinstance(obs, list):
        return any(o is None for o in obs) and any(o is not None for o in obs)
    return inp["kind"] in ("translate", "sub") and any(c in inp["p"] for c in "*?[")


def distribution(inputs, observations):
    d = {"by_kind": {}, "by_mode": {}, "lists_over_99": 0, "max_patterns": 0, "names": 0, "matched": 0,
         "ill_formed_cases": 0, "opaque_cases": 0}
    for i, o in zip(inputs, observations):
        d["by_kind"][i["kind"]] = d["by_kind"].get(i["kind"], 0) + 1
        if i["kind"] == "match":
            d["by_mode"][i["mode"]] = d["by_mode"].get(i["mode"], 0) + 1
            d["max_patterns"] = max(d["max_patterns"], len(i["pats"]))
            if len(i["pats"]) > 99:
                d["lists_over_99"] += 1
            if _any_opaque(i):
                d["opaque_cases"] += 1
            elif not _all_wf(i):
                d["ill_formed_cases"] += 1
            if isinstance(o, list):
                d["names"] += len(o)
                d["matched"] += sum(1 for x in o if x is not None and not isinstance(x, Err))
    return d


def shrink(inp, fails):
    if inp.get("kind") != "match":
        return inp
    cur = dict(inp)
    changed = True
    while changed:
        changed = False
        for key in ("names", "pats"):
            xs = list(cur[key])
            i = 0
            while i < len(xs) and len(xs) > 1:
                cand = dict(cur, **{key: xs[:i] + xs[i + 1:]})
                if fails(cand):
                    xs = cand[key]
                    cur = cand
                    changed = True
                else:
                    i += 1
    return cur
