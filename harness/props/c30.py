"""C30 -- A smart server never waits for bytes beyond the current request (tie H + blocking-pipe oracle)."""
import smart_common as sc
from vlib import Err

PROP = "C30"
COQ = {
    "property_file": "Properties/C30.v",
    "imports": "From BV Require Import Lib.Bytes Model.Smart Model.SmartBig.",
}
META = {
    "level": "proof",
    "title": "A smart server never waits for bytes beyond the current request",
    "technique": ("Coq invariant 0 < next_read_size <= bytes remaining, proved for the decoder state machines of "
                  "breezy/bzr/smart/protocol.py under every short-read pattern + lock-step comparison of next_read_size() "
                  "after every read + blocking-pipe oracle through the real pipe media"),
    "level_text": ("Partial (P-core). Proved for LengthPrefixedBodyDecoder, ChunkedBodyDecoder and ProtocolThreeDecoder "
                   "(server and client side): after any prefix of a well-formed message, delivered in any segmentation, the "
                   "decoder is unfinished and 0 < next_read_size() <= remaining; it is finished exactly when the message "
                   "is consumed; a hint-driven read loop with arbitrary short reads never asks a pipe for more than remains "
                   "and stops at the message end. The v1/v2 request line (read one byte at a time) and the composition with "
                   "request handlers and media are covered by the blocking-pipe oracle only."),
    "level_note": ("Trusted: Coq kernel, vm_compute; the hand model's correspondence (bounded sampling); the model of a pipe: "
                   "read(n) returns exactly n bytes or blocks."),
    "design_ref": "DESIGN.md §5 C30",
    "trusted_base": ["hand model coq/Model/Smart.v of breezy/bzr/smart/protocol.py",
                     "correspondence harness harness/props/c30.py + harness/smart_common.py"],
    "assumptions": ["a pipe read(n) blocks until n bytes arrived (io.BufferedReader semantics); a socket-like medium may return 1..n bytes",
                    "fastbencode is a correct bencode codec (v3 structures are opaque to the model)",
                    "struct.pack('!L') is 4-byte big endian (lengths < 2^32)"],
    "rule": ("well-formed bulk bodies, chunked streams (with/without error) and v3 messages x read patterns (always 1 byte, "
             "always the full hint, random 1..hint) driven by the real next_read_size(); the same messages under explicit "
             "segmentations; whole v1/v2/v3 requests+responses over os.pipe() with a reader that reports over-sized reads; "
             "non-trivial = at least two reads"),
}
SHARD = 200


def corpus():
    return [
        {"kind": "rl", "dec": "lp", "body": b"", "pol": [0] * 8},
        {"kind": "rl", "dec": "lp", "body": b"x" * 10, "pol": [1] * 20},
        {"kind": "rl", "dec": "ck", "chunks": [], "err": None, "pol": [0] * 14},
        {"kind": "rl", "dec": "ck", "chunks": [b""], "err": [b""], "pol": [0] * 30},
        {"kind": "rl", "dec": "p3", "client": False, "headers": [], "parts": [], "pol": [0] * 8},
        {"kind": "rl", "dec": "p3", "client": True, "headers": [], "parts": [["b", b""]], "pol": [0] * 40},
    ]


def cases(rng, tier):
    small = list(_small_cases(rng, tier))
    big = list(sc.gen_big(rng, tier, hints=True)) + list(sc.gen_e2e_big(rng, tier))
    step = max(1, len(small) // (len(big) + 1))        # spread the large cases over the shards
    for i, c in enumerate(small):
        yield c
        if i % step == step - 1 and big:
            yield big.pop(0)
    yield from big


def _small_cases(rng, tier):
    for inp in sc.gen_level_a(rng, tier, hints=True):
        if inp["kind"] in ("lp", "ck", "p3", "rl"):
            yield inp
    yield from sc.gen_e2e(rng, tier)


def impl(inp):
    if inp["kind"] == "e2e":
        return sc.impl_e2e(inp)
    return sc.impl_A(inp)


def model_term(inp):
    return sc.model_term_A(inp)


def _trace_check(msg_len, lens, trace, hint_of, fin_of):
    """0 < hint <= remaining while the message is incomplete; finished iff consumed."""
    delivered = 0
    segs = list(lens)
    for i, o in enumerate(trace):
        if i > 0:
            if i - 1 < len(segs):
                delivered += segs[i - 1]
            else:
                delivered = None            # the last segment = everything left
        if isinstance(o, Err):
            return "decoder failed on a well-formed message: " + str(o)
        remaining = 0 if delivered is None else max(0, msg_len - delivered)
        h, fin = hint_of(o), fin_of(o)
        if remaining > 0:
            if fin:
                return f"reported completion with {remaining} bytes of the message outstanding"
            if not (0 < h <= remaining):
                return f"next_read_size()={h} with {remaining} bytes of the message remaining (after {delivered} bytes)"
        elif not fin:
            return "message completely delivered but the decoder does not report completion"
    return None


def oracle(inp, obs):
    if isinstance(obs, Err):
        return "driver error " + str(obs)
    k = inp["kind"]
    if k in ("lp", "ck", "p3"):
        P = sc._P()
        enc = obs[0]
        n = len(enc)
        if k == "p3" and not inp["client"]:
            n -= len(P.MESSAGE_VERSION_THREE)
        if k == "p3":
            return _trace_check(n, inp["lens"], obs[1], lambda o: o[0], lambda o: o[0] == 0)
        return _trace_check(n, inp["lens"], obs[1], lambda o: o[0], lambda o: o[1])
    if k in ("rl", "big_rl"):
        res = obs[1]
        if "would-block" in [x for x in res if isinstance(x, str)]:
            i = res.index("would-block")
            return f"read of {res[i + 1]} bytes requested with only {res[i + 2]} bytes of the message remaining"
        if "finished" not in [x for x in res if isinstance(x, str)]:
            return "read loop did not finish: " + repr(res[-3:])
        if res[-1] != 0:
            return f"completion reported with {res[-1]} bytes of the message unread"
        for step in res[:-2]:
            if step[0] <= 0:
                return f"next_read_size()={step[0]} before the end of the message"
        return None
    if k == "e2e":
        return sc.oracle_e2e(inp, obs)
    return None


def finding_matches(fid, inp, obs, why):
    return False


def nontrivial(inp, obs):
    if inp["kind"] in ("rl", "big_rl") and not isinstance(obs, Err):
        return len(obs[1]) >= 4
    return inp["kind"] == "e2e" or len(inp.get("lens", [])) >= 1


def distribution(inputs, observations):
    d = {}
    for i in inputs:
        k = i["kind"] + ("/" + i["dec"] if i["kind"] in ("rl", "big_rl") else "") + ("/v%d" % i["version"] if i["kind"] == "e2e" else "")
        d[k] = d.get(k, 0) + 1
    d["always_one_byte"] = sum(1 for i in inputs if i["kind"] == "rl" and set(i["pol"]) == {1})
    d["always_full_hint"] = sum(1 for i in inputs if i["kind"] == "rl" and set(i["pol"]) == {0})
    d["e2e_short_reads"] = sum(1 for i in inputs if i["kind"] == "e2e" and i.get("short"))
    return d
