"""C02 -- Per-file history and last-changed revisions are recorded correctly (tie H).

A case is a whole history: a Lib/Dag revision graph (harness/daglib.py) plus, for
every revision, the full tree that is committed there (file id -> name variant,
parent directory, kind, executable bit, content), and a repository format.  The
history is materialised commit by commit through MemoryTree.commit -> Commit ->
CommitBuilder.record_iter_changes on a real repository of that format:

    2a         PackCommitBuilder._heads (per-file graph), rich root
    pack-0.92  PackCommitBuilder._heads (per-file graph), root not versioned
    knit       VersionedFileCommitBuilder._heads (per-file graph on repository.texts since 2c4765b;
               the same builder RemoteRepository uses), root not versioned

Observation: for every file of every revision the last-changed revision
(RevisionTree.get_file_revision), the stored per-file parents
(repository.texts.get_parent_map), the parents the checker expects
(Repository._generate_text_key_index, the function behind check and reconcile),
then len(check().inconsistent_parents), len(check().unreferenced_versions) and the
number of text keys whose parents reconcile(thorough=True) rewrites.  The Coq model
(Model/FileGraph.v) predicts all of it from the same history value.
"""
import daglib
from daglib import rid, idx
from vlib import coq_bool, coq_list, coq_nat, coq_option

PROP = "C02"
COQ = {
    "property_file": "Properties/C02.v",
    "imports": "From BV Require Import Lib.Dag Model.FileGraph.",
}
META = {
    "level": "proof",
    "title": "Per-file history and last-changed revisions are recorded correctly",
    "technique": ("Coq theorems (invariant over arbitrary commit/merge operation lists, unbounded) about a hand model of "
                  "VersionedFileCommitBuilder.record_iter_changes, PackCommitBuilder._heads / VersionedFileCommitBuilder._heads "
                  "and _do_generate_text_key_index on the shared revision-graph library Lib/Dag; exhaustive decision table; "
                  "correspondence on real 2a / pack-0.92 / knit repositories built from the same history value"),
    "level_text": ("partial (P-core): for every history built by commit and merge operations (any DAG, ghosts, any trees) the model "
                   "records for each file the unique per-file head among the parents' versions when its attributes equal that "
                   "version's, and otherwise a new version whose parents are exactly the ordered heads; every last-changed "
                   "revision is an ancestor holding the identical entry and a stored text key; with per-file heads "
                   "(every builder since fix 2c4765b: 2a, pack-0.92, knit) the checker's expected parents equal the stored ones "
                   "for every key. The pre-repair revision-graph heads of VersionedFileCommitBuilder._heads (finding "
                   "C02-global-heads-readd, fixed) survive only as C02_old_* statements about the old behaviour. The literal 'last changed = a revision where the file changed' reading is refuted for "
                   "per-file merge nodes (identical parallel changes), by design of bzr."),
    "level_note": ("Trusted: Coq kernel, vm_compute, the hand model's correspondence (bounded sampling of histories), vcsgraph "
                   "Graph.heads as modelled by Lib/Dag, iter_changes and the text stores (knit/groupcompress) as exercised by "
                   "the driver. Tree references, stacked repositories, lossy/foreign builders and specific_files commits are not modelled."),
    "design_ref": "DESIGN.md §5 C02",
    "trusted_base": ["hand model coq/Model/FileGraph.v of breezy/bzr/vf_repository.py record_iter_changes/_heads/"
                     "_do_generate_text_key_index/_VersionedFileChecker and breezy/bzr/pack_repo.py PackCommitBuilder._heads",
                     "coq/Lib/Dag.v as a model of vcsgraph Graph.heads",
                     "correspondence harness harness/props/c02.py, harness/daglib.py"],
    "assumptions": ["vcsgraph Graph.heads on the per-file text index / repository.texts = Lib/Dag heads (keys absent from the index are heads)",
                    "Tree.iter_changes(basis) reports exactly the entries whose kind, name, parent, executable bit or content differ from the basis",
                    "texts.add_content(nostore_sha=s) raises ExistingContent exactly when the new text has sha1 s",
                    "non-rich-root formats: the stored root entry reads back with revision = the revision id and has no text key",
                    "tsort.topo_sort yields a topological order (the checker's result does not depend on which)",
                    "a parent that is not present (ghost) contributes the NULL tree"],
    "rule": ("random DAGs of 2-12 revisions (merges, criss-cross, ghosts, extra roots) x trees over <= 2 directories and <= 4 "
             "files with take-other merges, reverts, identical parallel changes, cherry-picks, renames, moves, kind and exec "
             "changes, delete/re-add; every 5th history is a directed octopus history (one-file commits on 3-4 branches, "
             "merge of the tips in random order taking each file wholesale from one parent); each history in 3 formats; non-trivial = the history has a merge that records a per-file "
             "merge or carries an entry over from a non-left parent"),
}
SHARD = 60

# fmt -> (per_file_heads, rich_root); per_file_heads is True for every builder of the current code (False was the
# revision-graph _heads of VersionedFileCommitBuilder before fix 2c4765b, kept in the Coq model for C02_old_* only)
FORMATS = {"2a": (True, True), "pack-0.92": (True, False), "knit": (True, False)}
DIRS = (1, 2)
FILES = (3, 4, 5, 6)
FIXED_FINDINGS = ("C02-global-heads-readd",)   # repaired by 2c4765b: nothing is excused any more


def fidb(f):
    return b"root-id" if f == 0 else b"f%d" % f


def name_of(f, v):
    return "" if f == 0 else "n%d_%d" % (f, v)


# ---- generator -------------------------------------------------------------------
# an entry is [fid, name_variant, parent_fid | None, kind, executable, content]

def _fresh(rng, f, present):
    if f in DIRS:
        par = 0 if f == 1 or 1 not in present or rng.random() < 0.5 else 1
        return [f, rng.randrange(2), par, "directory", False, 0]
    par = rng.choice([0] + [d for d in DIRS if d in present])
    kind = "file" if rng.random() < 0.75 else "symlink"
    return [f, rng.randrange(2), par, kind, (rng.random() < 0.3) if kind == "file" else False, rng.randrange(3)]


def _fix(tree):
    """Make the tree well formed: one root, parents exist and are directories, no cycles."""
    ents = {e[0]: list(e) for e in tree}
    if 0 not in ents:
        ents[0] = [0, 0, None, "directory", False, 0]
    for f in sorted(ents):
        e = ents[f]
        if f == 0:
            continue
        if (e[2] not in ents or ents[e[2]][3] != "directory" or e[2] == f
                or (f == 1 and e[2] != 0) or (f == 2 and e[2] not in (0, 1))):
            e[2] = 0
    return [ents[f] for f in sorted(ents)]


def gen_trees(rng, g, nfiles=4):
    n = len(g)
    trees = []
    ids = list(DIRS) + list(FILES[:nfiles])
    for i, ps in enumerate(g):
        left = {e[0]: e for e in trees[ps[0]]} if ps and ps[0] < n else {}
        oth = [{e[0]: e for e in trees[p]} for p in ps[1:] if p < n]
        cur = {}
        for f in ids:
            x = rng.random()
            cand = None
            if f in left:
                if oth and x < 0.30:                      # merge: take the other side (maybe a deletion)
                    cand = rng.choice(oth).get(f)
                elif x < 0.72:                            # keep the left parent's version (incl. revert after merge)
                    cand = left[f]
                elif x < 0.92:                            # change one attribute (small pools: identical parallel changes)
                    cand = list(left[f])
                    w = rng.randrange(5)
                    if w == 0:
                        cand[1] = 1 - cand[1]
                    elif w == 1:
                        cand[2] = rng.choice([0, 1, 2])
                    elif w == 2 and f in FILES:
                        cand[3] = "symlink" if cand[3] == "file" else "file"
                        cand[4] = False
                    elif w == 3 and cand[3] == "file":
                        cand[4] = not cand[4]
                    elif f in FILES:
                        cand[5] = rng.randrange(3)
                elif x < 0.96 and i > 0:                  # cherry-pick the state of any earlier revision
                    cand = {e[0]: e for e in trees[rng.randrange(i)]}.get(f)
                else:
                    cand = None                           # delete
            else:
                if oth and x < 0.5:
                    cand = rng.choice(oth).get(f)
                elif x < 0.75:
                    cand = _fresh(rng, f, cur)
                elif x < 0.85 and i > 0:                  # re-add with an old state
                    cand = {e[0]: e for e in trees[rng.randrange(i)]}.get(f)
            if cand is not None:
                cur[f] = list(cand)
        trees.append(_fix(list(cur.values())))
    return trees


def _R(*extra):
    return [[0, 0, None, "directory", False, 0]] + [list(e) for e in extra]


def _F(f, content, name=0, parent=0, kind="file", ex=False):
    return [f, name, parent, kind, ex, content]


FIXED = [
    # identical parallel change (1 and 2 make the same change, 3 merges them, 4 = the other merge order)
    ("parallel", [[], [0], [0], [1, 2], [2, 1]],
     [_R(_F(3, 0)), _R(_F(3, 1)), _R(_F(3, 1)), _R(_F(3, 1)), _R(_F(3, 1))]),
    # criss-cross with different resolutions, then merged again
    ("crisscross", [[], [0], [0], [1, 2], [2, 1], [3, 4], [4, 3]],
     [_R(_F(3, 0)), _R(_F(3, 1)), _R(_F(3, 2)), _R(_F(3, 1)), _R(_F(3, 2)), _R(_F(3, 1)), _R(_F(3, 0))]),
    # revert after merge: 3 merges 2 but keeps the left content; 4 takes the other side; 5 merges those
    ("revert-after-merge", [[], [0], [0], [1, 2], [1, 2], [3, 4]],
     [_R(_F(3, 0), _F(4, 0)), _R(_F(3, 0), _F(4, 1)), _R(_F(3, 2), _F(4, 0)), _R(_F(3, 0), _F(4, 1)),
      _R(_F(3, 2), _F(4, 1)), _R(_F(3, 2), _F(4, 1))]),
    # kind change, rename, move, exec change on side branches, merged both ways
    ("kind-rename", [[], [0], [0], [1, 2], [2, 1]],
     [_R([1, 0, 0, "directory", False, 0], _F(3, 0), _F(4, 0), _F(5, 0)),
      _R([1, 0, 0, "directory", False, 0], _F(3, 0, kind="symlink"), _F(4, 0, name=1), _F(5, 0)),
      _R([1, 1, 0, "directory", False, 0], _F(3, 0), _F(4, 0, parent=1), _F(5, 0, ex=True)),
      _R([1, 1, 0, "directory", False, 0], _F(3, 0, kind="symlink"), _F(4, 0, name=1, parent=1), _F(5, 0, ex=True)),
      _R([1, 0, 0, "directory", False, 0], _F(3, 0), _F(4, 0, parent=1), _F(5, 0))]),
    # delete and re-add with the same file id, then merge with a branch that kept the old version:
    # per-file heads {3, 1}, revision-graph heads {3}  (witness of C02-global-heads-readd, fixed by 2c4765b:
    # must pass in every format now)
    ("readd", [[], [0], [1], [2], [1], [3, 4], [4, 3]],
     [_R(_F(3, 0)), _R(_F(3, 1)), _R(), _R(_F(3, 2)), _R(_F(3, 1), _F(4, 0)), _R(_F(3, 2), _F(4, 0)), _R(_F(3, 1), _F(4, 0))]),
    # ghosts: left-hand ghost (NULL basis), ghost as merged parent, second root re-using file ids
    ("ghosts", [[], [47], [0, 1], [2, 48], [], [3, 4]],
     [_R(_F(3, 0)), _R(_F(3, 1)), _R(_F(3, 1)), _R(_F(3, 1), _F(4, 0)), _R(_F(3, 0), _F(4, 0)), _R(_F(3, 1), _F(4, 0))]),
    # merge + move to another directory: 2 changes file 3, 3 = merge(1, 2) takes 2's content and moves the file
    # from directory 1 to directory 2 keeping its name (new version, parent [2]); 4 = merge(2, 1) moves it back
    ("merge-move", [[], [0], [0], [1, 2], [2, 1], [3, 4]],
     [_R([1, 0, 0, "directory", False, 0], [2, 0, 0, "directory", False, 0], _F(3, 0, parent=1)),
      _R([1, 0, 0, "directory", False, 0], [2, 0, 0, "directory", False, 0], _F(3, 0, parent=1), _F(4, 0)),
      _R([1, 0, 0, "directory", False, 0], [2, 0, 0, "directory", False, 0], _F(3, 1, parent=1)),
      _R([1, 0, 0, "directory", False, 0], [2, 0, 0, "directory", False, 0], _F(3, 1, parent=2), _F(4, 0)),
      _R([1, 0, 0, "directory", False, 0], [2, 0, 0, "directory", False, 0], _F(3, 1, parent=2), _F(4, 0)),
      _R([1, 0, 0, "directory", False, 0], [2, 0, 0, "directory", False, 0], _F(3, 1, parent=2), _F(4, 0))]),
    # 3-parent merge with duplicate head candidates: 2 and 3 both hold version 1 of file 3, the basis 4 holds
    # version 0; candidates [0, 1, 1] -> one head, carried over (no new text); 6: same with a content change
    ("octopus-dup", [[], [0], [1], [1], [0], [4, 2, 3], [4, 3, 2]],
     [_R(_F(3, 0)), _R(_F(3, 1)), _R(_F(3, 1), _F(4, 0)), _R(_F(3, 1), _F(5, 0)), _R(_F(3, 0), _F(6, 0)),
      _R(_F(3, 1), _F(4, 0), _F(5, 0), _F(6, 0)), _R(_F(3, 2), _F(4, 0), _F(5, 0), _F(6, 0))]),
    # octopus merge whose unique per-file head sits in the THIRD parent, whose tip (3) is not the revision
    # that last changed the file (2): candidates [0, 1, 2] -> head 2, entry found under its own revision,
    # carried over; 6: four parents, head in the last one; 7: head in the second of three
    ("octopus-third", [[], [0], [1], [2], [0], [4, 1, 3], [4, 1, 0, 3], [4, 3, 1]],
     [_R(_F(3, 0), _F(4, 0)), _R(_F(3, 1), _F(4, 0)), _R(_F(3, 2), _F(4, 0)), _R(_F(3, 2), _F(4, 1)),
      _R(_F(3, 0), _F(4, 0), _F(5, 0)), _R(_F(3, 2), _F(4, 1), _F(5, 0)), _R(_F(3, 2), _F(4, 1), _F(5, 0)),
      _R(_F(3, 2), _F(4, 1), _F(5, 0))]),
    # three parents, one equal to the basis
    ("octopus", [[], [0], [0], [0], [1, 2, 3]],
     [_R(_F(3, 0), _F(4, 0)), _R(_F(3, 1), _F(4, 0)), _R(_F(3, 0), _F(4, 1)), _R(_F(3, 0), _F(4, 0)),
      _R(_F(3, 1), _F(4, 1))]),
]


def _case(g, trees, fmt, tag="random"):
    return {"tag": tag, "fmt": fmt, "g": [list(ps) for ps in g], "trees": [[list(e) for e in t] for t in trees]}


def corpus():
    return [_case(g, trees, fmt, tag) for tag, g, trees in FIXED for fmt in FORMATS]


def gen_octopus(rng):
    """A directed history: several branches whose commits each touch ONE file (so branch tips are
    usually not the revision that last changed the other files), branches may fork from inside an
    earlier branch (per-file ancestry between the parents' versions), then an octopus merge of 3-4
    tips in random order whose tree takes every file wholesale from one of the parents (often the
    last one): the unique per-file head may sit in any parent position and is then carried over."""
    files = list(FILES[:rng.choice([2, 3, 4])])
    g = [[]]
    trees = [_fix([_F(f, 0) for f in files])]
    nb = rng.choice([3, 3, 4])
    tips, prev_branch = [], [0]
    for b in range(nb):
        at = 0 if (b == 0 or rng.random() < 0.5) else rng.choice(prev_branch)
        branch = []
        for _ in range(rng.choice([1, 2, 2, 3])):
            if len(g) >= 10:
                break
            cur = [list(e) for e in trees[at]]
            e = rng.choice([x for x in cur if x[0] in files] or cur[1:] or cur)
            w = rng.randrange(4)
            if e[0] == 0:
                pass
            elif w == 0:
                e[1] = 1 - e[1]
            elif w == 1 and e[3] == "file":
                e[4] = not e[4]
            else:
                e[5] = (e[5] + 1 + rng.randrange(2)) % 3
            g.append([at])
            trees.append(_fix(cur))
            at = len(g) - 1
            branch.append(at)
        if branch:
            tips.append(at)
            prev_branch = branch
    tips = list(dict.fromkeys(tips))
    if len(tips) >= 2:
        for _ in range(rng.choice([1, 1, 2])):
            ps = list(tips)
            rng.shuffle(ps)
            ptrees = [{e[0]: e for e in trees[p]} for p in ps]
            cur = {}
            for f in [0] + files:
                src = ptrees[-1] if rng.random() < 0.5 else rng.choice(ptrees)
                if f in src:
                    cur[f] = list(src[f])
            g.append(ps)
            trees.append(_fix(list(cur.values())))
    return g, trees


def cases(rng, tier):
    n_hist = 200 if tier == "quick" else 1500
    for k in range(n_hist):
        if k % 5 == 4:
            g, trees = gen_octopus(rng)
        else:
            g = daglib.gen_dag(rng, rng.randrange(2, 13), p_merge=0.45)
            trees = gen_trees(rng, g, nfiles=rng.choice([1, 2, 4, 4]))
        for fmt in FORMATS:
            yield _case(g, trees, fmt)


# ---- implementation driver ----------------------------------------------------------

def _materialise(g, trees, fmt):
    import breezy.bzr  # noqa: F401
    from breezy import branchbuilder, commit as _commit
    from bzrformats.inventory import Inventory, InventoryDirectory, InventoryFile, InventoryLink
    from dromedary.memory import MemoryTransport
    n = len(g)
    bb = branchbuilder.BranchBuilder(MemoryTransport(), format=fmt)
    br = bb.get_branch()
    for i, ps in enumerate(g):
        pids = [rid(p) for p in ps]
        br.lock_write()
        try:
            # the branch sits on the left-hand parent (daglib.build_history explains why this is done by hand)
            if not ps or ps[0] >= n:
                br.set_last_revision_info(0, b"null:")
            else:
                br.set_last_revision_info(len([x for x in daglib.lefthand(g, ps[0]) if x < n]), rid(ps[0]))
        finally:
            br.unlock()
        tree = br.create_memorytree()
        tree.lock_write()
        try:
            tree.set_parent_ids(pids, allow_leftmost_as_ghost=True)
            # replace the working state wholesale by the wanted tree (what MemoryTree._populate_from_branch does
            # from the basis): a fresh working inventory + file store
            inv = Inventory(root_id=None)
            store = MemoryTransport()
            ents = {e[0]: e for e in trees[i]}

            def path(f):
                e = ents[f]
                if e[2] is None:
                    return ""
                pp = path(e[2])
                return (pp + "/" if pp else "") + name_of(f, e[1])

            for e in sorted(trees[i], key=lambda e: (-1 if e[2] is None else path(e[0]).count("/"), e[0])):
                f, v, par, kind, ex, content = e
                p = path(f)
                pid = None if par is None else fidb(par)
                if kind == "directory":
                    ie = InventoryDirectory(fidb(f), name_of(f, v), pid)
                    if p:
                        store.mkdir(p)
                elif kind == "file":
                    ie = InventoryFile(fidb(f), name_of(f, v), pid, executable=bool(ex))
                    store.put_bytes(p, b"content %d\n" % content)
                else:
                    ie = InventoryLink(fidb(f), name_of(f, v), pid, symlink_target="target%d" % content)
                    store.symlink("target%d" % content, p)
                inv.add(ie)
            tree._inventory = inv
            tree._file_transport = store
            tree.commit("r%d" % i, rev_id=rid(i), reporter=_commit.NullCommitReporter(), allow_pointless=True,
                        timestamp=1000000000.0 + i, timezone=0, committer="t <t@example.com>")
        finally:
            tree.unlock()
    return bb.get_branch()


def impl(inp):
    g, trees, fmt = inp["g"], inp["trees"], inp["fmt"]
    br = _materialise(g, trees, fmt)
    repo = br.repository
    rows = []
    with repo.lock_read():
        pm0 = dict(repo.texts.get_parent_map(repo.texts.keys()))
        index = repo._generate_text_key_index()
        for i in range(len(g)):
            rt = repo.revision_tree(rid(i))
            if len(list(rt.all_file_ids())) != len(trees[i]):
                raise AssertionError("tree of r%d not materialised as given" % i)
            row = []
            for e in trees[i]:
                f = e[0]
                ie = rt.root_inventory.get_entry(fidb(f))
                want_parent = None if e[2] is None else fidb(e[2])
                if (ie.kind, ie.name, ie.parent_id) != (e[3], name_of(f, e[1]), want_parent) or \
                        (e[3] == "file" and (bool(ie.executable) != bool(e[4])
                                             or rt.get_file_text(rt.id2path(fidb(f))) != b"content %d\n" % e[5])) or \
                        (e[3] == "symlink" and ie.symlink_target != "target%d" % e[5]):
                    raise AssertionError("entry %r of r%d not materialised as given" % (e, i))
                lc = idx(rt.get_file_revision(rt.id2path(fidb(f))))
                k = (fidb(f), rid(i))
                rec = [idx(x[1]) for x in pm0[k]] if k in pm0 else None
                exp = None
                if k in index:
                    exp = [] if list(index[k]) == [b"null:"] else [idx(x[1]) for x in index[k]]
                row.append([f, lc, rec, exp])
            rows.append(row)
    res = repo.check()
    n_bad, n_unref = len(res.inconsistent_parents), len(res.unreferenced_versions)
    repo.reconcile(thorough=True)
    repo = br.controldir.open_repository()
    with repo.lock_read():
        pm1 = dict(repo.texts.get_parent_map(repo.texts.keys()))
    rewritten = sum(1 for k in pm0 if tuple(pm0[k]) != tuple(pm1.get(k, ("missing",))))
    return [rows, n_bad, n_unref, rewritten]


# ---- model term ------------------------------------------------------------------------

def _coq_attrs(e):
    f, v, par, kind, ex, content = e
    if kind == "directory":
        pay = "PDir"
    elif kind == "file":
        pay = "(PFile %s %d)" % (coq_bool(bool(ex)), content)
    else:
        pay = "(PLink %d)" % content
    return "(%d, mkA %d %s %s)" % (f, v, "None" if par is None else "(Some %d)" % par, pay)


def model_term(inp):
    pf, rich = FORMATS[inp["fmt"]]
    ops = "[" + "; ".join("([%s], [%s])" % ("; ".join(str(p) for p in ps), "; ".join(_coq_attrs(e) for e in t))
                          for ps, t in zip(inp["g"], inp["trees"])) + "]"
    assert pf, "every builder of the current code takes per-file heads"
    return "run_case (now %s) %s" % (coq_bool(rich), ops)


# ---- reference evaluation of the property's vocabulary (oracle side) ----------------------

def oheads(G, cands):
    seen = []
    for c in cands:
        if c not in seen:
            seen.append(c)
    return [k for k in seen if not any(k2 != k and daglib.is_ancestor(G, k, k2) for k2 in seen)]


def _attrs(e):
    return tuple(e[1:])


def heads_differ(inp):
    """True iff somewhere in the history the revision-graph heads of the parents' versions of a
    file differ from their per-file-graph heads (computed with per-file semantics throughout)."""
    g, trees = inp["g"], inp["trees"]
    n = len(g)
    last = []     # per revision: fid -> (attrs, last_changed)
    texts = []    # per revision: fid -> parents
    for i, ps in enumerate(g):
        row, trow = {}, {}
        for e in trees[i]:
            f, a = e[0], _attrs(e)
            pents = [last[p][f] for p in ps if p < n and f in last[p]]
            cands = [x[1] for x in pents]
            G = [texts[r].get(f, []) for r in range(i)]
            hs = oheads(G, cands)
            if e[2] is not None and set(hs) != set(oheads(g[:i], cands)):
                return True
            same = [x for x in pents if len(hs) == 1 and x[1] == hs[0] and x[0] == a]
            if same:
                row[f] = same[0]
            else:
                row[f] = (a, i)
                trow[f] = hs
        last.append(row)
        texts.append(trow)
    return False


def oracle(inp, obs):
    if not isinstance(obs, list):
        return "no observation: %r" % (obs,)
    g, trees, fmt = inp["g"], inp["trees"], inp["fmt"]
    n = len(g)
    rich = FORMATS[fmt][1]
    rows, n_bad, n_unref, rewritten = obs
    lc = [{r[0]: r[1] for r in row} for row in rows]
    rec = [{r[0]: r[2] for r in row} for row in rows]
    exp = [{r[0]: r[3] for r in row} for row in rows]
    tr = [{e[0]: e for e in t} for t in trees]
    for i in range(n):
        for e in trees[i]:
            f = e[0]
            c = lc[i][f]
            where = "file %d of r%d" % (f, i)
            if not (0 <= c < n) or not daglib.is_ancestor(g, c, i):
                return where + ": last-changed r%d is not an ancestor" % c
            if f not in tr[c] or _attrs(tr[c][f]) != _attrs(e):
                return where + ": last-changed r%d holds different attributes" % c
            if lc[c].get(f) != c:
                return where + ": last-changed r%d did not itself record a version" % c
            versioned = rich or e[2] is not None
            if not versioned:
                if c != i or rec[i][f] is not None:
                    return where + ": unversioned root should read back with its own revision and no text"
                continue
            if (rec[i][f] is not None) != (c == i):
                return where + ": text key present=%r but last-changed r%d" % (rec[i][f] is not None, c)
            pv = [lc[p][f] for p in g[i] if p < n and f in lc[p]]
            G = [[x for x in (rec[r].get(f) or [])] for r in range(n)]
            hs = oheads(G, pv)
            if c == i:
                if rec[i][f] != hs:
                    return where + ": stored per-file parents %r are not the heads %r of the parents' versions %r" % (rec[i][f], hs, pv)
                if len(hs) == 1 and _attrs(tr[hs[0]][f]) == _attrs(e):
                    return where + ": new version although identical to the only head r%d" % hs[0]
                if rec[i][f] != exp[i][f]:
                    return where + ": checker expects parents %r, stored %r" % (exp[i][f], rec[i][f])
            elif hs != [c]:
                return where + ": carried over r%d but the heads of the parents' versions are %r" % (c, hs)
    if n_bad or n_unref or rewritten:
        return "check: %d inconsistent parents, %d unreferenced versions; reconcile rewrote %d text parents" % (n_bad, n_unref, rewritten)
    return None


def finding_matches(fid, inp, obs, why):
    # no known finding left for C02 (C02-global-heads-readd is fixed: its class must be reported again if it returns)
    return False


def nontrivial(inp, obs):
    if not isinstance(obs, list):
        return False
    g, n = inp["g"], len(inp["g"])
    for i, row in enumerate(obs[0]):
        present = [p for p in g[i] if p < n]
        if len(present) < 2:
            continue
        for f, c, rec, _exp in row:
            if (rec is not None and len(rec) >= 2) or (c != i and c != dict((r[0], r[1]) for r in obs[0][present[0]]).get(f)):
                return True
    return False


def distribution(inputs, observations):
    d = {"histories": len(inputs), "fmt": {}, "revisions": {}, "merges": 0, "per_file_merge_nodes": 0,
         "carried_from_other_parent": 0, "new_versions": 0, "carried_or_unchanged": 0, "inconsistent_histories": 0,
         "ghost_histories": 0, "heads_differ": 0}
    for inp, obs in zip(inputs, observations):
        d["fmt"][inp["fmt"]] = d["fmt"].get(inp["fmt"], 0) + 1
        n = len(inp["g"])
        d["revisions"][str(n)] = d["revisions"].get(str(n), 0) + 1
        d["merges"] += sum(1 for ps in inp["g"] if len(ps) > 1)
        d["ghost_histories"] += any(p >= n for ps in inp["g"] for p in ps)
        d["heads_differ"] += heads_differ(inp)
        if not isinstance(obs, list):
            continue
        d["inconsistent_histories"] += bool(obs[1])
        for i, row in enumerate(obs[0]):
            for f, c, rec, _e in row:
                if rec is not None:
                    d["new_versions"] += 1
                    d["per_file_merge_nodes"] += len(rec) >= 2
                else:
                    d["carried_or_unchanged"] += 1
                    ps = [p for p in inp["g"][i] if p < n]
                    if ps and c != i:
                        left = dict((r[0], r[1]) for r in obs[0][ps[0]]).get(f)
                        d["carried_from_other_parent"] += left != c
    return d


def shrink(inp, fails):
    """Drop trailing revisions, then files, while the failure persists."""
    cur = inp
    changed = True
    while changed:
        changed = False
        n = len(cur["g"])
        if n > 1:
            cand = dict(cur, g=cur["g"][:-1], trees=cur["trees"][:-1])
            if all(p < n - 1 or p >= n for ps in cand["g"] for p in ps) and fails(cand):
                cur, changed = cand, True
                continue
        for f in list(DIRS) + list(FILES):
            if not any(e[0] == f for t in cur["trees"] for e in t):
                continue
            if any(e[2] == f for t in cur["trees"] for e in t):
                continue
            cand = dict(cur, trees=[[e for e in t if e[0] != f] for t in cur["trees"]])
            if fails(cand):
                cur, changed = cand, True
                break
    return cur


def search(hints, rng):
    """Look for a history on which the implementation violates the property."""
    for k in range(400):
        g = daglib.gen_dag(rng, rng.randrange(2, 10), p_merge=0.5)
        trees = gen_trees(rng, g, nfiles=rng.choice([1, 2, 4]))
        for fmt in FORMATS:
            inp = _case(g, trees, fmt, "search")
            try:
                obs = impl(inp)
            except Exception as e:       # noqa: BLE001
                return inp, "exception %r" % (e,), "driver raised"
            why = oracle(inp, obs)
            if why:
                return inp, obs, why
    return None
