"""C19 -- Text conflicts are reported exactly when conflict markers are written (tie H).

Case kinds
  merge   BASE/THIS/OTHER line lists x reprocess/show_base/cherrypick x resolve action:
          a real Merge3Merger run on a 2a working tree (BASE and OTHER are committed revisions, THIS is
          the working file), then breezy.conflicts.resolve(take_this|take_other); observation = file,
          .BASE/.THIS/.OTHER helpers and the TextConflict record, before and after resolving.
  render  merge3.Merge3.merge_lines with the sentinel start marker (environment model validation).
The merge3 region list (environment) is computed by the generator and is part of the input.
"""
import os
import shutil

from vlib import Err, coq_bytes, coq_list, coq_bool, coq_nat, coq_option

PROP = "C19"
COQ = {
    "property_file": "Properties/C19.v",
    "imports": "From BV Require Import Lib.Bytes Model.TextMerge.",
}
SHARD = 120
META = {
    "level": "proof",
    "title": "Text conflicts are reported exactly when conflict markers are written",
    "technique": ("Coq theorems over a hand model of Merge3Merger._merge_contents/text_merge/_dump_conflicts and "
                  "TextConflict resolution, parameterised by the merge3 region list + correspondence on real "
                  "tree merges (committed BASE/OTHER, working THIS) and on merge3.merge_lines itself"),
    "level_text": ("Partial (P-core). For every BASE/THIS/OTHER, every merge3 region list and every option "
                   "combination: a conflict region is always reported (unguarded); under the executable guard "
                   "'no line of BASE/THIS/OTHER starts with the sentinel start marker' the conflict flag is set "
                   "exactly when a conflict region exists, the file holds exactly merge3's rendering with "
                   "ordinary <<<<<<< markers (the clean merged text when there is no conflict region), helpers "
                   "hold exactly BASE/THIS/OTHER, and take-this/take-other leave exactly THIS/OTHER with no helper "
                   "and no conflict record. The unguarded statement is refuted by a machine-checked witness that "
                   "reproduces on the real code (a clean merge of a file containing a line that starts with the "
                   "sentinel is reported as a text conflict and that line is rewritten)."),
    "level_note": ("Trusted: Coq kernel, vm_compute, the hand model's correspondence (bounded sampling), merge3's "
                   "rendering of its region list as modelled by merge_lines (validated on every case); the "
                   "tree-transform/dirstate I/O is covered by the correspondence run only."),
    "design_ref": "DESIGN.md §5 C19",
    "trusted_base": ["hand model coq/Model/TextMerge.v of breezy/merge.py (Merge3Merger._merge_contents, text_merge, "
                     "_dump_conflicts) and breezy/bzr/conflicts.py (TextConflict._resolve) + breezy/conflicts.py:resolve",
                     "correspondence harness harness/props/c19.py"],
    "assumptions": ["merge3.Merge3.merge_regions()/reprocess_merge_regions() yield the region list given to the model "
                    "(recomputed and compared on every case)",
                    "merge3.Merge3.merge_lines renders a region list as Model.TextMerge.merge_lines (clean regions "
                    "verbatim, a conflict region starting with start_marker + ' TREE' + newline); validated by the "
                    "render cases and by every merge case",
                    "texts contain no NUL byte (binary files take the contents-conflict path, not modelled)",
                    "equal sha1 <=> equal text (the three-way shortcut compares (kind, sha1) pairs)",
                    "the file is present, as a file, in BASE, THIS and OTHER; no merge_file_content hooks"],
    "rule": ("BASE random over a line alphabet incl. marker look-alikes, CRLF lines and the sentinel; THIS/OTHER by "
             "random line edits of BASE (so clean merges, conflicts and the 3-way shortcuts all occur) x 2x2x2 options "
             "x 3 resolve actions; non-trivial = text_merge reached (three pairwise different texts)"),
}

S = b"!START OF MERGE CONFLICT!" + b"I HOPE THIS IS UNIQUE"
PLAIN = [b"a\n", b"b\n", b"c\n", b"d\n", b"e\n", b"f\n", b"g\n", b"\n"]
ODD = [b"x\r\n", b"y\r\n", b"<<<<<<< TREE\n", b"=======\n", b">>>>>>> MERGE-SOURCE\n", b"||||||| BASE-REVISION\n",
       b"<<<<<<<\n", b"pre " + S + b"\n", b" " + S + b"\n", S[:-1] + b"\n", b"a\rb\n", b"\xc3\xa9\n"]
SENT = [S + b"\n", S + b" TREE\n", S + b" x " + S + b"\n", S + b"\r\n"]
TAILS = [b"z", b"a", b"x\r", S, b"<<<<<<<"]           # last lines without a newline
ACTIONS = ["none", "done", "take_this", "take_other"]
HELPERS = ["BASE", "THIS", "OTHER"]
ALIKE = "f.BASE.orig"          # an unrelated file that merely looks like a helper: must survive resolve
FORMATS = ["2a", "git"]
# where OTHER / THIS have the file (BASE: src/f): (in_dst, renamed) per side
MOVES = {"stay": ((0, 0), (0, 0)), "other_dir": ((1, 0), (0, 0)), "this_dir": ((0, 0), (1, 0)),
         "other_name": ((0, 1), (0, 0)), "this_name": ((0, 0), (0, 1)), "other_both": ((1, 1), (0, 0)),
         "cross": ((1, 0), (0, 1)), "both_dir": ((1, 0), (1, 0))}
# how the merge is driven: Merge3Merger directly (cherrypick given), or through Merger.from_revision_ids with a
# history in which BASE is a common ancestor ("merge"), is not in THIS's ancestry ("cherrypick") or is in THIS's
# ancestry but not in OTHER's ("reverse": undoing a revision); the cherrypick flag then follows from the graph
VIAS = {"direct": None, "merge": False, "cherrypick": True, "reverse": True}


def _path(place):
    return ("dst/" if place[0] else "src/") + ("g" if place[1] else "f")


def _final_path(move):
    """the documented outcome: directory and name each come from the side that changed them"""
    po, pt = MOVES[move]
    return _path(tuple(pt[i] if po[i] == 0 else po[i] for i in (0, 1)))

_state = {}


# ---------------------------------------------------------------- merge3 (environment)

def _m3(inp):
    from merge3 import Merge3
    import patiencediff
    return Merge3([bytes(x) for x in inp["base"]], [bytes(x) for x in inp["this"]], [bytes(x) for x in inp["other"]],
                  is_cherrypick=inp["cherrypick"], sequence_matcher=patiencediff.PatienceSequenceMatcher)


def _regions(inp):
    m3 = _m3(inp)
    rs = m3.merge_regions()
    if inp["reprocess"]:
        rs = m3.reprocess_merge_regions(rs)
    out = []
    for r in rs:
        out.append([r[0]] + [0 if x is None else int(x) for x in r[1:]])
    return out


def _case(kind, base, this, other, reprocess=False, show_base=False, cherrypick=False, action="none",
          delete=(), alike=False, fmt="2a", move="stay", via="direct"):
    """delete: helper files the user removes by hand between merge and resolve; alike: create ALIKE then too"""
    inp = {"kind": kind, "base": list(base), "this": list(this), "other": list(other), "reprocess": reprocess,
           "show_base": show_base, "cherrypick": cherrypick, "action": action,
           "delete": [h for h in HELPERS if h in delete], "alike": bool(alike), "fmt": fmt,
           "move": move, "via": via}
    if via != "direct":
        inp["cherrypick"] = VIAS[via]
    if (move != "stay" or via != "direct") and fmt != "2a":
        raise ValueError("moves / Merger-driven histories are generated for 2a trees only")
    inp["regions"] = _regions(inp)
    return inp


# ---------------------------------------------------------------- generator

def _lines(rng, n, psent):
    out = []
    for _ in range(n):
        r = rng.random()
        if r < psent:
            out.append(rng.choice(SENT))
        elif r < psent + 0.15:
            out.append(rng.choice(ODD))
        else:
            out.append(rng.choice(PLAIN))
    return out


def _edit(rng, lines, psent, nedits):
    ls = list(lines)
    for _ in range(nedits):
        op = rng.choice(["rep", "ins", "del", "rep"])
        if op == "ins" or not ls:
            ls.insert(rng.randint(0, len(ls)), _lines(rng, 1, psent)[0])
        elif op == "del":
            del ls[rng.randrange(len(ls))]
        else:
            ls[rng.randrange(len(ls))] = _lines(rng, 1, psent)[0]
    return ls


def _tail(rng, ls, p=0.15):
    if rng.random() < p:
        return ls + [rng.choice(TAILS)]
    return ls


def _gen(rng, kind, psent):
    base = _lines(rng, rng.randint(0, 7), psent)
    this = _edit(rng, base, psent, rng.choice([0, 1, 1, 2, 3]))
    other = _edit(rng, base, psent, rng.choice([0, 1, 1, 2, 3]))
    if rng.random() < 0.1:
        other = list(this)
    base, this, other = _tail(rng, base), _tail(rng, this), _tail(rng, other)
    if not (base or this or other):
        this = [b"t\n"]         # merge3 cannot tell bytes from str when every input is empty
    fmt, move, via = "2a", "stay", "direct"
    if kind == "merge":
        r = rng.random()
        if r < 0.25:
            fmt = "git"
        elif r < 0.5:
            move = rng.choice([m for m in MOVES if m != "stay"])
        elif r < 0.75:
            via = rng.choice(["merge", "cherrypick", "reverse", "reverse"])
            if via != "merge" and rng.random() < 0.7:
                base, this, other = _cherry_sensitive(rng, base, this, other)
    return _case(kind, base, this, other, reprocess=rng.random() < 0.4, show_base=rng.random() < 0.35,
                 cherrypick=rng.random() < 0.3, action=rng.choice(ACTIONS),
                 delete=[h for h in HELPERS if rng.random() < 0.3] if rng.random() < 0.6 else [],
                 alike=rng.random() < 0.4, fmt=fmt, move=move, via=via)


def _render_plain(base, this, other, cherrypick):
    m3 = _m3({"base": base, "this": this, "other": other, "cherrypick": cherrypick})
    return list(m3.merge_lines(name_a=b"TREE", name_b=b"MERGE-SOURCE"))


def _cherry_sensitive(rng, base, this, other):
    """texts whose cherrypick three-way merge differs from the plain one (inside a conflicting region OTHER
    shares lines with BASE); falls back to the given texts"""
    pool = [b"a\n", b"b\n", b"c\n", b"d\n", b"e\n"]
    for _ in range(60):
        head, foot = [b"head\n"], [b"foot\n"]
        b_ = [rng.choice(pool) for _ in range(rng.randint(1, 3))]
        t_ = [rng.choice(pool) for _ in range(rng.randint(1, 3))]
        o_ = [rng.choice(pool) for _ in range(rng.randint(1, 3))]
        cb, ct, co = head + b_ + foot, head + t_ + foot, head + o_ + foot
        if len({tuple(cb), tuple(ct), tuple(co)}) == 3 and \
                _render_plain(cb, ct, co, True) != _render_plain(cb, ct, co, False):
            return cb, ct, co
    return base, this, other


def corpus():
    out = []
    # the sentinel-collision finding: a clean merge of a text with a sentinel line
    b = [S + b" x\n", b"a\n", b"b\n", b"c\n", b"d\n", b"e\n"]
    t = [S + b" x\n", b"A\n", b"b\n", b"c\n", b"d\n", b"e\n"]
    o = [S + b" x\n", b"a\n", b"b\n", b"c\n", b"d\n", b"E\n"]
    out.append(_case("merge", b, t, o))
    # exactly the witness of Theory/TextMerge.v:sentinel_refuted (W_base, W_this, W_other, W_regions)
    w = _case("merge", [S + b"\n", b"a\n", b"b\n", b"c\n"], [S + b"\n", b"A\n", b"b\n", b"c\n"],
              [S + b"\n", b"a\n", b"b\n", b"C\n"])
    if w["regions"] != [["unchanged", 0, 1], ["a", 1, 2], ["unchanged", 2, 3], ["b", 3, 4]]:
        raise AssertionError("merge3 no longer yields W_regions for the Coq witness: %r" % (w["regions"],))
    out.append(w)
    # a genuine conflict, every option and action
    b = [b"a\n", b"b\n", b"c\n"]
    t = [b"a\n", b"T\n", b"c\n"]
    o = [b"a\n", b"O\n", b"c\n"]
    for rp, sb in ((False, False), (True, False), (False, True), (True, True)):
        for act in ACTIONS:
            out.append(_case("merge", b, t, o, reprocess=rp, show_base=sb, action=act))
    # every subset of hand-removed helpers x every action x both tree formats, with a look-alike file
    import itertools
    for fmt in FORMATS:
        for act in ("done", "take_this", "take_other"):
            for k in range(4):
                for dele in itertools.combinations(HELPERS, k):
                    out.append(_case("merge", b, t, o, action=act, delete=dele, alike=True, fmt=fmt))
    # moves / renames of the file in OTHER and/or THIS, with a conflict (helpers must follow the file) and without
    for mv in MOVES:
        if mv == "stay":
            continue
        for act in ("take_this", "take_other", "done"):
            out.append(_case("merge", b, t, o, action=act, alike=True, move=mv))
        out.append(_case("merge", [b"a\n", b"b\n", b"c\n", b"d\n"], [b"A\n", b"b\n", b"c\n", b"d\n"],
                         [b"a\n", b"b\n", b"c\n", b"D\n"], move=mv))
    # merges driven through Merger: the cherrypick flag follows from the revision graph.  The texts are such
    # that the cherrypick merge differs from the plain one (OTHER shares a line with BASE inside the conflict)
    rb = [b"header\n", b"beta\n", b"delta\n", b"footer\n"]
    rt = [b"header\n", b"xray\n", b"foxtrot\n", b"footer\n"]
    ro = [b"header\n", b"foxtrot\n", b"beta\n", b"footer\n"]
    if _render_plain(rb, rt, ro, True) == _render_plain(rb, rt, ro, False):
        raise AssertionError("corpus texts no longer distinguish cherrypick from plain merges")
    for via in ("merge", "cherrypick", "reverse"):
        for act in ("none", "take_other"):
            out.append(_case("merge", rb, rt, ro, action=act, via=via))
        out.append(_case("merge", b, t, o, action="take_this", via=via))
    # the three shortcuts and a clean two-sided merge; CRLF newline detection; no trailing newline
    out.append(_case("merge", b, t, b))
    out.append(_case("merge", b, t, t))
    out.append(_case("merge", b, b, o))
    out.append(_case("merge", [b"a\n", b"b\n", b"c\n", b"d\n"], [b"A\n", b"b\n", b"c\n", b"d\n"], [b"a\n", b"b\n", b"c\n", b"D\n"]))
    out.append(_case("merge", [b"a\r\n", b"b\r\n"], [b"a\r\n", b"T\r\n"], [b"a\r\n", b"O\r\n"], action="take_other"))
    out.append(_case("merge", [b"a\n", b"b"], [b"a\n", b"T"], [b"a\n", b"O"], show_base=True, action="take_this"))
    out.append(_case("merge", [], [b"t\n"], [b"o\n"]))
    # marker look-alikes that are NOT the sentinel must stay untouched in a clean merge
    out.append(_case("merge", [b"<<<<<<< TREE\n", b"a\n", b"b\n", b"c\n"], [b"<<<<<<< TREE\n", b"A\n", b"b\n", b"c\n"],
                     [b"<<<<<<< TREE\n", b"a\n", b"b\n", b"C\n"]))
    return out


def cases(rng, tier):
    quick = tier == "quick"
    for i in range(260 if quick else 1000):
        yield _gen(rng, "merge", 0.0 if i % 12 else 0.12)
    for i in range(700 if quick else 5000):
        yield _gen(rng, "render", 0.0 if i % 6 else 0.15)


# ---------------------------------------------------------------- implementation driver

def setup(scratch):
    import breezy
    import breezy.bzr  # noqa
    from breezy import controldir
    os.environ.setdefault("BRZ_EMAIL", "verif <verif@example.com>")
    import logging
    logging.getLogger("brz").setLevel(logging.CRITICAL)      # "Text conflict in f" warnings
    _state["dir"] = scratch
    _state["n"] = 0
    _state["wt"] = {}
    _state["uses"] = {}


def teardown():
    _state.clear()


def _put(wt, rel, data):
    with open(wt.abspath(rel), "wb") as f:
        f.write(data)


def _mv(wt, src, dst):
    if src != dst:
        wt.rename_one(src, dst)


def _reset(wt):
    """bring the tree back to: file at src/f, nothing else in src/ and dst/, no conflicts"""
    if not os.path.lexists(wt.abspath("src/f")):
        for cand in ("dst/f", "src/g", "dst/g"):
            if os.path.lexists(wt.abspath(cand)):
                wt.rename_one(cand, "src/f")
                break
        else:
            raise AssertionError("the file disappeared from the tree")
    for d in ("src", "dst"):
        for n in os.listdir(wt.abspath(d)):
            if (d, n) != ("src", "f"):
                os.unlink(wt.abspath(d + "/" + n))
    wt.set_conflicts([])


def _fresh_tree(fmt):
    from breezy import controldir
    if fmt == "git":
        import breezy.git  # noqa
    _state["n"] += 1
    d = os.path.join(_state["dir"], "wt%d" % _state["n"])
    wt = controldir.ControlDir.create_standalone_workingtree(
        d, format=controldir.format_registry.make_controldir(fmt))
    os.mkdir(os.path.join(d, "src"))
    os.mkdir(os.path.join(d, "dst"))
    _put(wt, "src/f", b"initial\n")
    _put(wt, "dst/keep", b"keeps dst/ alive in git\n")
    if fmt == "git":
        wt.add(["src", "dst", "src/f", "dst/keep"])
    else:
        wt.add(["src", "dst", "src/f", "dst/keep"], ids=[b"src-id", b"dst-id", b"f-id", b"keep-id"])
    wt.commit("initial")
    _state["wt"][fmt] = wt
    _state["uses"][fmt] = 0
    return wt


def _snapshot(wt, fmt):
    """[path of the file, [file, .BASE, .THIS, .OTHER, .BASE.orig, conflict recorded], path of the recorded
    conflict, every other file found in src/ and dst/]"""
    wt = wt.controldir.open_workingtree()
    if fmt == "git":
        path = "src/f"
    else:
        with wt.lock_read():
            path = wt.id2path(b"f-id")

    def rd(rel):
        p = wt.abspath(rel)
        if not os.path.lexists(p):
            return None
        with open(p, "rb") as f:
            return f.read()
    known = [path, path + ".BASE", path + ".THIS", path + ".OTHER", path + ".BASE.orig"]
    stray = []
    for d in ("src", "dst"):
        for n in sorted(os.listdir(wt.abspath(d))):
            rel = d + "/" + n
            if rel not in known and rel != "dst/keep":
                stray.append(rel)
    top = sorted(n for n in os.listdir(wt.basedir) if n not in (".bzr", ".git", "src", "dst"))
    stray = top + stray
    cs = list(wt.conflicts())
    for c in cs:
        if c.typestring != "text conflict" or getattr(c, "file_id", b"f-id") != b"f-id":
            raise AssertionError(f"unexpected conflict {c!r}")
    if len(cs) > 1:
        raise AssertionError(f"duplicate conflicts {cs!r}")
    cpath = cs[0].path if cs else None
    return [path, [rd(k) for k in known] + [len(cs) == 1], cpath, stray]


def impl(inp):
    base = [bytes(x) for x in inp["base"]]
    this = [bytes(x) for x in inp["this"]]
    other = [bytes(x) for x in inp["other"]]
    if _regions(inp) != [list(r) for r in inp["regions"]]:
        raise AssertionError("merge3 no longer yields the region list stored in the input")
    if inp["kind"] == "render":
        m3 = _m3(inp)
        if inp["show_base"] and inp["reprocess"]:
            return Err("CantReprocessAndShowBase")
        return list(m3.merge_lines(name_a=b"TREE", name_b=b"MERGE-SOURCE", name_base=b"BASE-REVISION",
                                   start_marker=S, base_marker=b"|" * 7 if inp["show_base"] else None,
                                   reprocess=inp["reprocess"]))
    from breezy import merge as _merge, osutils
    from breezy import conflicts as _conflicts
    for ls in (base, this, other):
        if osutils.split_lines(b"".join(ls)) != ls:
            raise AssertionError("generated lines are not what get_file_lines would return")
    fmt, via = inp["fmt"], inp["via"]
    po, pt = (_path(p) for p in MOVES[inp["move"]])
    wt = _state["wt"].get(fmt)
    if wt is None or _state["uses"][fmt] >= 40:
        wt = _fresh_tree(fmt)
    _state["uses"][fmt] += 1
    _reset(wt)
    r_prev = wt.last_revision()
    restore_parents = False
    if via == "reverse":
        # history: ... OTHER, BASE (tip), THIS = working file: undoing the BASE revision
        _put(wt, "src/f", b"".join(other))
        r_other = wt.commit("other")
        _put(wt, "src/f", b"".join(base))
        r_base = wt.commit("base")
        _put(wt, "src/f", b"".join(this))
    else:
        _put(wt, "src/f", b"".join(base))
        r_base = wt.commit("base")
        _mv(wt, "src/f", po)
        _put(wt, po, b"".join(other))
        r_other = wt.commit("other")
        _mv(wt, po, pt)
        _put(wt, pt, b"".join(this))
    repo = wt.branch.repository
    try:
        if via == "direct":
            bt, ot = repo.revision_tree(r_base), repo.revision_tree(r_other)
            _merge.Merge3Merger(working_tree=wt, this_tree=wt, base_tree=bt, other_tree=ot,
                                reprocess=inp["reprocess"], show_base=inp["show_base"],
                                cherrypick=inp["cherrypick"], do_merge=True)
        else:
            if via == "cherrypick":
                # THIS descends from the revision before BASE only: BASE is not in its ancestry
                wt.branch.generate_revision_history(r_prev)
                wt.set_parent_ids([r_prev])
                restore_parents = True
            with wt.lock_write():
                merger = _merge.Merger.from_revision_ids(wt, r_other, base=r_base, other_branch=wt.branch)
                merger.merge_type = _merge.Merge3Merger
                merger.reprocess = inp["reprocess"]
                merger.show_base = inp["show_base"]
                merger.do_merge()
    except _merge.CantReprocessAndShowBase:
        if restore_parents:
            (wt.branch.generate_revision_history(r_other), wt.set_parent_ids([r_other]))
        return [Err("CantReprocessAndShowBase"), _snapshot(wt, fmt)]
    if restore_parents:
        (wt.branch.generate_revision_history(r_other), wt.set_parent_ids([r_other]))
    after_merge = _snapshot(wt, fmt)
    path = after_merge[0]
    # the user removes some helper files by hand / creates an unrelated look-alike
    for h in inp["delete"]:
        try:
            os.unlink(wt.abspath(path + "." + h))
        except FileNotFoundError:
            pass
    if inp["alike"]:
        _put(wt, path + ".BASE.orig", b"keep me\n")
    if inp["action"] != "none":
        from breezy.transform import MalformedTransform
        wt = wt.controldir.open_workingtree()
        _state["wt"][fmt] = wt
        try:
            _conflicts.resolve(wt, [path], ignore_misses=True, action=inp["action"])
        except MalformedTransform:
            return [after_merge, [Err("MalformedTransform"), _snapshot(wt, fmt)]]
    return [after_merge, _snapshot(wt, fmt)]


# ---------------------------------------------------------------- model term

def _coq_lines(ls):
    return coq_list([coq_bytes(bytes(x)) for x in ls])


def _coq_region(r):
    k = r[0]
    n = [coq_nat(x) for x in r[1:]]
    name = {"unchanged": "IUnchanged", "same": "ISame", "a": "IA", "b": "IB", "conflict": "IConflict"}[k]
    return "(" + name + " " + " ".join(n) + ")"


def model_term(inp):
    rs = coq_list([_coq_region(r) for r in inp["regions"]])
    b, t, o = _coq_lines(inp["base"]), _coq_lines(inp["this"]), _coq_lines(inp["other"])
    if inp["kind"] == "render":
        if inp["show_base"] and inp["reprocess"]:
            return '(OE "CantReprocessAndShowBase"%string)'
        return f"run_render START {coq_bool(inp['show_base'])} {b} {t} {o} {rs}"
    act = {"none": "ANone", "done": "ADone", "take_this": "TakeThis", "take_other": "TakeOther"}[inp["action"]]
    rm = " ".join(coq_bool(h in inp["delete"]) for h in HELPERS)
    alike = coq_option(b"keep me\n" if inp["alike"] else None, coq_bytes)
    def place(pl):
        return f"{{| in_dst := {coq_bool(pl[0])}; renamed := {coq_bool(pl[1])} |}}"
    po, pt = MOVES[inp["move"]]
    return (f"run_case {{| o_reprocess := {coq_bool(inp['reprocess'])}; o_show_base := {coq_bool(inp['show_base'])} |}} "
            f"{place((0, 0))} {place(po)} {place(pt)} {b} {t} {o} {rs} {rm} {alike} {act}")


# ---------------------------------------------------------------- the property itself

def _expect(inp):
    """(has_conflict, expected file text) from merge3 with ORDINARY markers -- independent of the sentinel"""
    m3 = _m3(inp)
    has = any(r[0] == "conflict" for r in inp["regions"])
    text = b"".join(m3.merge_lines(name_a=b"TREE", name_b=b"MERGE-SOURCE", name_base=b"BASE-REVISION",
                                   base_marker=b"|" * 7 if inp["show_base"] else None,
                                   reprocess=inp["reprocess"]))
    return has, text


def oracle(inp, obs):
    if isinstance(obs, Err) and str(obs).startswith("DRIVER:"):
        return "driver error " + str(obs)
    if inp["kind"] == "render":
        return None    # environment validation only (correspondence)
    if isinstance(obs, Err):
        return "driver error " + str(obs)
    b = b"".join(bytes(x) for x in inp["base"])
    t = b"".join(bytes(x) for x in inp["this"])
    o = b"".join(bytes(x) for x in inp["other"])
    reached = b != o and t != o and b != t
    first, second = obs
    alike = b"keep me\n" if inp["alike"] else None
    p_this = _path(MOVES[inp["move"]][1])
    p_final = _final_path(inp["move"])

    def state(path, files, cpath):
        return [path, files, cpath, []]
    if isinstance(first, Err):
        if inp["reprocess"] and inp["show_base"] and reached:
            want = state(p_this, [t, None, None, None, None, False], None)
            return None if second == want else f"failed merge changed the tree: {second!r}"
        return f"merge raised {first}"
    path, files, cpath, stray = first
    if path != p_final:
        return f"the merged file is at {path!r}, expected {p_final!r} (move {inp['move']})"
    if stray:
        return (f"after the merge of {path!r} these files lie around, not beside the merged file: {stray!r} "
                f"(beside it: BASE/THIS/OTHER present = {[v is not None for v in files[1:4]]!r})")
    if inp["reprocess"] and inp["show_base"]:
        if reached:
            return "reprocess + show_base did not raise CantReprocessAndShowBase"
        # merge3 is never consulted: THIS or OTHER wins as a whole
        want = o if (b == t and b != o) else t
        if first != state(p_final, [want, None, None, None, None, False], None):
            return f"shortcut merge produced {first!r}, expected text {want!r}"
        ok = second == state(p_final, [want, None, None, None, alike, False], None)
        return None if ok else f"resolve changed an unconflicted tree: {second!r}"
    has, text = _expect(inp)
    main, hb, ht, ho, al0, conflicted = files
    if conflicted != has:
        return (f"text conflict recorded = {conflicted} but the three-way merge "
                f"{'has' if has else 'has no'} conflicting regions")
    if cpath != (path if has else None):
        return f"the conflict is recorded for {cpath!r} but the conflicted file is {path!r}"
    if main != text:
        return (f"file holds {main!r}, expected {'the regions between markers' if has else 'the cleanly merged text'} "
                f"{text!r} (three-way merge with cherrypick={inp['cherrypick']}, driven via {inp['via']})")
    if has and (hb, ht, ho) != (b, t, o):
        return f"helper files beside {path!r} hold {(hb, ht, ho)!r}, expected BASE/THIS/OTHER {(b, t, o)!r}"
    if not has and (hb, ht, ho) != (None, None, None):
        return f"helper files exist after a clean merge: {(hb, ht, ho)!r}"
    # the tree as the user left it before resolving
    edited_files = ([main] + [None if (h in inp["delete"]) else v for h, v in zip(HELPERS, (hb, ht, ho))]
                    + [alike, conflicted])
    edited = state(path, edited_files, cpath)
    if inp["action"] == "none" or not has:
        return None if second == edited else f"tree changed although nothing was resolved: {second!r}"
    winner = {"take_this": "THIS", "take_other": "OTHER"}.get(inp["action"])
    if winner in inp["delete"]:
        # the text to take was removed by hand: resolving must fail and leave everything alone
        if isinstance(second, list) and len(second) == 2 and isinstance(second[0], Err):
            return None if second[1] == edited else f"failed resolve changed the tree: {second[1]!r}"
        return f"resolve --{inp['action']} without {path}.{winner}: {second!r}"
    if isinstance(second[0], Err):
        return f"resolve --{inp['action']} of the conflict on {path!r} raised {second[0]} (tree: {second[1]!r})"
    want = {"take_this": t, "take_other": o, "done": main}[inp["action"]]
    left = [n for n, v in zip(HELPERS, second[1][1:4]) if v is not None] + list(second[3])
    if left:
        return (f"after resolve --{inp['action']} (helpers removed by hand before: {inp['delete']!r}) the helper files "
                f"{left!r} still exist")
    if second != state(path, [want, None, None, None, alike, False], None):
        return (f"after resolve --{inp['action']}: {second!r}, expected exactly {want!r} at {path!r}, no helpers, "
                f"look-alike {alike!r} untouched, no conflict")
    return None


def _sentinel_line(inp):
    return any(bytes(l).startswith(S) for k in ("base", "this", "other") for l in inp[k])


def finding_matches(fid, inp, obs, why):
    if fid == "C19-sentinel-collision":
        return inp["kind"] == "merge" and _sentinel_line(inp)
    return False


def nontrivial(inp, obs):
    b = b"".join(bytes(x) for x in inp["base"])
    t = b"".join(bytes(x) for x in inp["this"])
    o = b"".join(bytes(x) for x in inp["other"])
    return b != o and t != o and b != t


def distribution(inputs, observations):
    d = {"merge": 0, "render": 0, "text_merge_reached": 0, "with_conflict_region": 0, "clean_two_sided": 0,
         "sentinel_line": 0, "reprocess": 0, "show_base": 0, "cherrypick": 0, "cant_reprocess_and_show_base": 0,
         "no_trailing_newline": 0, "crlf_newline": 0, "resolved": 0}
    for i, o in zip(inputs, observations):
        d[i["kind"]] += 1
        reached = nontrivial(i, o)
        has = any(r[0] == "conflict" for r in i["regions"])
        d["text_merge_reached"] += reached
        d["with_conflict_region"] += has
        d["clean_two_sided"] += reached and not has
        d["sentinel_line"] += _sentinel_line(i)
        for k in ("reprocess", "show_base", "cherrypick"):
            d[k] += bool(i[k])
        if i["kind"] == "merge" and not isinstance(o, Err) and isinstance(o[0], Err):
            d["cant_reprocess_and_show_base"] += 1
        d["no_trailing_newline"] += any(ls and not bytes(ls[-1]).endswith(b"\n") for ls in (i["base"], i["this"], i["other"]))
        d["crlf_newline"] += bool(i["this"]) and bytes(i["this"][0]).endswith(b"\r\n")
        d["resolved"] += i["kind"] == "merge" and has and i["action"] != "none"
        if i["kind"] == "merge":
            d.setdefault("move:" + i["move"], 0)
            d["move:" + i["move"]] += 1
            d.setdefault("via:" + i["via"], 0)
            d["via:" + i["via"]] += 1
            d.setdefault("moved_with_conflict", 0)
            d["moved_with_conflict"] += i["move"] != "stay" and has and reached
            d.setdefault("graph_cherrypick_sensitive", 0)
            if i["via"] != "direct" and has and reached:
                d["graph_cherrypick_sensitive"] += (_render_plain(i["base"], i["this"], i["other"], True)
                                                    != _render_plain(i["base"], i["this"], i["other"], False))
    return d


# no shrink(): the framework calls it after teardown(), when the scratch trees are gone, so every
# candidate would "fail" with a driver error and the replay input would be shrunk to nonsense.
