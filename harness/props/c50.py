"""C50 -- Command-line splitting inverts shell-style quoting (tie H, exhaustive small domain).

Items (strings are lists of code points so that any str, incl. lone surrogates, is JSON-like):
  raw: {"kind": "raw", "sq": bool, "s": [cp, ...]}
       impl -> [list(Splitter(s, sq)) as [[quoted, str], ...], split(s, sq) == [t for q, t in that list]]
  rt : {"kind": "rt", "sq": bool, "args": [[cp, ...], ...]}
       impl -> [line, split(line, sq)]  with line = " ".join(quote(a) for a in args)
A framework case is a BATCH of items of one kind and flag:
  {"kind": k, "sq": b, "items": [s, ...] or [args, ...]}  ->  the list of the item observations
(batching keeps the case indices small: the framework writes them as nat literals).
A str is observed as bytes(code points) when all are < 256, else as the list of code points
(Model.CmdLine.ostr does the same).
"""
import itertools

from vlib import Err

PROP = "C50"
COQ = {
    "property_file": "Properties/C50.v",
    "imports": "From BV Require Import Lib.Bytes Model.CmdLine.",
}
META = {
    "level": "proof",
    "title": "Command-line splitting inverts shell-style quoting",
    "technique": ("Coq theorems (induction over strings and the splitter state machine) on a hand model of "
                  "breezy/cmdline.py with explicit pushback buffer + exhaustive small-domain correspondence (vm_compute)"),
    "level_text": ("split(join(' ', map quote args)) = args proved in Coq for every list of every Unicode string, for both "
                   "values of single_quotes_allowed; totality (the pushback loop terminates), no-invention (output is a "
                   "subsequence of the input), no-loss (every non-syntax character survives, in order; quote-free input is "
                   "split exactly like str.split()). Hand model tied to cmdline.py by exhaustive comparison of Splitter and "
                   "split on all strings over {a, space, \", ', \\} up to a length bound, all Unicode whitespace, and random "
                   "longer strings; quote() is tied to its Python transcription the same way."),
    "level_note": ("Trusted: Coq kernel, vm_compute, the hand model's correspondence (bounded: exhaustive to length 6/7), "
                   "the whitespace table is_ws = Py_UNICODE_ISSPACE (checked on every code point < 0x3100 / < 0x30000 and a sample above)."),
    "design_ref": "DESIGN.md §5 C50",
    "trusted_base": ["hand model coq/Model/CmdLine.v of breezy/cmdline.py",
                     "correspondence harness harness/props/c50.py (incl. the Python transcription of quote)"],
    "assumptions": ["re \\s (re.UNICODE) on a single character = the 29 code points of Model.CmdLine.is_ws (CPython 3.12)",
                    "the quoting rule is the one of configuring_breezy.txt/_Backslash comments, transcribed as Model.CmdLine.quote"],
    "rule": ("all strings over {a,space,\",',\\} up to the tier's length bound x both single_quotes_allowed values (raw), "
             "all single arguments / pairs / triples over the same alphabet up to a bound (round trip), every whitespace "
             "code point, random longer Unicode strings; non-trivial = contains a quote or a backslash"),
}
SHARD = 1000

ALPHA = [97, 32, 34, 39, 92]
BS, DQ, SQ = 92, 34, 39
WS = [9, 10, 11, 12, 13, 28, 29, 30, 31, 32, 133, 160, 5760] + list(range(8192, 8203)) + [8232, 8233, 8239, 8287, 12288]


def _s(cps):
    return "".join(chr(c) for c in cps)


def _cps(s):
    return [ord(c) for c in s]


def _enc(s):
    cps = _cps(s)
    return bytes(cps) if all(c < 256 for c in cps) else cps


def quote(a, sq):
    """The documented rule; the same function as Model.CmdLine.quote."""
    out = ['"']
    n = 0
    for c in a:
        if c == "\\":
            n += 1
        elif c == '"':
            out.append("\\" * (2 * n + 1) + c)
            n = 0
        elif sq and c == "'":
            out.append("\\" * (2 * n) + c)
            n = 0
        else:
            out.append("\\" * n + c)
            n = 0
    out.append("\\" * (2 * n) + '"')
    return "".join(out)


def _raw(s, sq):
    return {"kind": "raw", "sq": bool(sq), "s": _cps(s) if isinstance(s, str) else list(s)}


def _rt(args, sq):
    return {"kind": "rt", "sq": bool(sq), "args": [_cps(a) if isinstance(a, str) else list(a) for a in args]}


def _corpus_items():
    out = []
    lines = ['foo bar', '"foo bar"', "'foo bar'", "'fo''o b''ar'", '"fo""o b""ar"', '"fo"\'o b\'"ar"',
             "\"foo'' bar\"", "'foo\"\" bar'", '""', "''", 'a "" c', "a '' c", 'foo\\bar', '"foo\\"bar"',
             '"foo\\\\\\"bar"', '"foo\\\\"bar"', '"foo\\\\bar"', 'foo\\\\bar', '"x x" "y y"', "\"x x\" 'y y'",
             r'"\\host\path"', r'\\host\path', r'"\\\\" *.py', r'"\\\\\" *.py"', r'\\\\" *.py"', r'\\\\\" *.py',
             '"\\\\', "'foo\nbar\nbaz\n'", "\\", "\\\\", "\\ ", " \\", "\\\"", "\\'", "a\\'b", "\"a\\'b\"", "\\\\'",
             "a\u00a0b\u3000c\td", "\"", "'", "a\"", "\"\" ", " \"\"", "\"\"\"\"", "\\\"\"", "a\\", "a\\ b", "\"\\ \""]
    for sq in (True, False):
        for ln in lines:
            out.append(_raw(ln, sq))
        for args in ([], [""], ["", ""], ["\\"], ["\\\\", "\""], ["a b", "c\\\"d", "\\'"], ["'", "\\'", "\\\\'"],
                     ["a\\", "\\b"], [" "], ["\t\n", "\u3000"], ["\"\"", "''"]):
            out.append(_rt(args, sq))
    return out


def _strings(maxlen):
    for n in range(maxlen + 1):
        for t in itertools.product(ALPHA, repeat=n):
            yield list(t)


def _items(rng, tier):
    quick = tier == "quick"
    # 1. exhaustive raw strings
    for sq in (True, False):
        for s in _strings(6 if quick or not sq else 7):
            yield {"kind": "raw", "sq": sq, "s": s}
    if not quick:   # flag off: "'" is an ordinary character like "a"; length 7 without it
        for t in itertools.product([97, 32, 34, 92], repeat=7):
            yield {"kind": "raw", "sq": False, "s": list(t)}
    # 2. exhaustive round trips: single args, pairs, triples
    for sq in (True, False):
        for a in _strings(5 if quick else 6):
            yield {"kind": "rt", "sq": sq, "args": [a]}
        short = list(_strings(2))
        for a in (short if quick else list(_strings(3))):
            for b in short:
                yield {"kind": "rt", "sq": sq, "args": [a, b]}
        one = list(_strings(1))
        for t in itertools.product(one, repeat=3):
            yield {"kind": "rt", "sq": sq, "args": list(t)}
    # 3. the whitespace table: 64 consecutive code points per item, as  a<c0><c1>...<c63>a
    #    (every misclassified code point moves a token boundary)
    def ws_case(cs, sq):
        return {"kind": "raw", "sq": sq, "s": [97] + [c for c in cs if c not in (DQ, SQ, BS)] + [97]}
    top = 0x3100 if quick else 0x30000
    for lo in range(0, top, 64):
        yield ws_case(range(lo, lo + 64), (lo // 64) % 2 == 0)
    if quick:
        for _ in range(100):
            lo = rng.randrange(0x3100, 0x110000 - 64)
            yield ws_case(range(lo, lo + 64), rng.random() < 0.5)
    else:                              # above plane 2: one code point in 16, random phase per block
        for lo in range(0x30000, 0x110000, 1024):
            ph = rng.randrange(16)
            yield ws_case(range(lo + ph, lo + 1024, 16), (lo // 1024) % 2 == 0)
    for c in WS:                       # whitespace inside quotes / after backslashes / as an argument
        for sq in (True, False):
            yield {"kind": "raw", "sq": sq, "s": [34, 97, c, 97, 34, c, 92, c, 97, 92, 92, c, 39, c, 39]}
            yield {"kind": "rt", "sq": sq, "args": [[c], [97, c, 92], [92, c]]}
    # 4. random longer strings over a wider alphabet
    wide = ALPHA * 4 + [98, 9, 10, 160, 0x3000, 0xe9, 0x1f600, 0xd800, 0, 0x2028, 47, 42]
    for _ in range(1500 if quick else 10000):
        n = rng.randint(7, 40)
        yield {"kind": "raw", "sq": rng.random() < 0.5, "s": [rng.choice(wide) for _ in range(n)]}
    for _ in range(1000 if quick else 8000):
        k = rng.randint(0, 5)
        args = [[rng.choice(wide) for _ in range(rng.randint(0, 10))] for _ in range(k)]
        yield {"kind": "rt", "sq": rng.random() < 0.5, "args": args}
    # backslash-heavy
    for _ in range(500 if quick else 2500):
        n = rng.randint(4, 30)
        yield {"kind": "raw", "sq": rng.random() < 0.5, "s": [rng.choice([92, 92, 92, 34, 39, 32, 97]) for _ in range(n)]}


def _impl1(inp):
    from breezy import cmdline
    sq = bool(inp["sq"])
    if inp["kind"] == "raw":
        s = _s(inp["s"])
        toks = list(cmdline.Splitter(s, single_quotes_allowed=sq))
        sp = cmdline.split(s, single_quotes_allowed=sq)
        return [[[bool(q), _enc(t)] for q, t in toks], sp == [t for _q, t in toks]]
    args = [_s(a) for a in inp["args"]]
    line = " ".join(quote(a, sq) for a in args)
    sp = cmdline.split(line, single_quotes_allowed=sq)
    return [_enc(line), [_enc(t) for t in sp]]


KEY = {"raw": "s", "rt": "args"}


def _unbatch(inp):
    return [{"kind": inp["kind"], "sq": inp["sq"], KEY[inp["kind"]]: x} for x in inp["items"]]


def _batches(items, size):
    """Group items by (kind, flag) into batches of at most [size] items."""
    open_ = {}
    for it in items:
        k = (it["kind"], it["sq"])
        b = open_.setdefault(k, {"kind": it["kind"], "sq": it["sq"], "items": []})
        b["items"].append(it[KEY[it["kind"]]])
        if len(b["items"]) >= size:
            yield b
            del open_[k]
    for k in sorted(open_):
        yield open_[k]


def corpus():
    return list(_batches(_corpus_items(), 8))


def cases(rng, tier):
    global SHARD
    size = 32 if tier == "quick" else 128
    SHARD = 48 if tier == "quick" else 12
    return _batches(_items(rng, tier), size)


def impl(inp):
    return [_impl1(it) for it in _unbatch(inp)]


def oracle(inp, obs):
    """The property itself, on the implementation's observation."""
    if isinstance(obs, Err):
        return "driver error " + str(obs)
    for it, o in zip(_unbatch(inp), obs):
        why = _oracle1(it, o)
        if why:
            return why
    return None


def _coq_str(cps):
    return "[" + ";".join(str(int(c)) for c in cps) + "]%N" if cps else "(@nil N)"


def _coq_args(args):
    return "[" + "; ".join(_coq_str(a) for a in args) + "]" if args else "(@nil (list N))"


def model_term(inp):
    sq = "true" if inp["sq"] else "false"
    if inp["kind"] == "raw":
        return f"run_cases {sq} [" + "; ".join(_coq_str(x) for x in inp["items"]) + "]"
    return f"run_rts {sq} [" + "; ".join(_coq_args(a) for a in inp["items"]) + "]"


def _is_subseq(a, b):
    it = iter(b)
    return all(any(x == y for y in it) for x in a)


def _ordinary(c, sq):
    return not (chr(c).isspace() or c == DQ or c == BS or (sq and c == SQ))


def _check_split(s, sq, result):
    """The property clauses for result = split(s) (lists of code points); None if all hold."""
    from breezy import cmdline
    flat = [c for t in result for c in t]
    if not _is_subseq(flat, s):
        return f"split invents characters: output {result!r} is not a subsequence of the input {s!r}"
    if [c for c in s if _ordinary(c, sq)] != [c for c in flat if _ordinary(c, sq)]:
        return f"split loses characters outside the quoting syntax: input {s!r} output {result!r}"
    if DQ not in s and not (sq and SQ in s):
        if [_cps(w) for w in _s(s).split()] != result:
            return f"quote-free input {s!r} is not split at whitespace only: {result!r}"
    # the result, re-quoted by the documented rule, must split back into itself
    line = " ".join(quote(_s(t), sq) for t in result)
    back = [_cps(t) for t in cmdline.split(line, single_quotes_allowed=sq)]
    if back != result:
        return f"args {result!r} quoted as {line!r} split back into {back!r}"
    return None


def _oracle1(inp, obs):
    sq = bool(inp["sq"])
    if inp["kind"] == "raw":
        toks, same = obs
        if not same:
            return f"split() differs from the Splitter tokens {toks!r}"
        return _check_split(list(inp["s"]), sq, [list(t) for _q, t in toks])
    line, sp = list(obs[0]), [list(t) for t in obs[1]]
    args = [list(a) for a in inp["args"]]
    if sp != args:
        return f"args {args!r} quoted+joined as {_s(line)!r} split back into {sp!r} (single_quotes_allowed={sq})"
    return _check_split(list(line), sq, sp)


def finding_matches(fid, inp, obs, why):
    return False


def _single(it):
    return {"kind": it["kind"], "sq": it["sq"], "items": [it[KEY[it["kind"]]]]}


def search(hint_inputs, rng):
    """Wider search for a property violation on the implementation (returns a one-item batch)."""
    def cands():
        for b in hint_inputs:
            yield from _unbatch(b)
        for sq in (True, False):
            for a in _strings(6):
                yield {"kind": "rt", "sq": sq, "args": [a]}
                yield {"kind": "raw", "sq": sq, "s": a}
    for it in cands():
        try:
            o = _impl1(it)
            why = _oracle1(it, o)
        except Exception:
            continue
        if why:
            return (_single(it), [o], why)
    return None


def shrink(inp, fails):
    # 1. a single failing item of the batch
    for it in _unbatch(inp):
        if fails(_single(it)):
            inp = _single(it)
            break
    else:
        return inp
    # 2. drop characters / arguments
    changed = True
    while changed:
        changed = False
        x = inp["items"][0]
        cands = [x[:i] + x[i + 1:] for i in range(len(x))]
        if inp["kind"] == "rt":
            cands += [x[:i] + [x[i][:j] + x[i][j + 1:]] + x[i + 1:] for i in range(len(x)) for j in range(len(x[i]))]
        for y in cands:
            cand = dict(inp, items=[y])
            if fails(cand):
                inp, changed = cand, True
                break
    return inp


def _chars(it):
    return it["s"] if it["kind"] == "raw" else [c for a in it["args"] for c in a]


def nontrivial(inp, obs):
    return any(DQ in cs or SQ in cs or BS in cs for cs in map(_chars, _unbatch(inp)))


def distribution(inputs, observations):
    d = {"batches": 0, "raw": 0, "rt": 0, "sq_true": 0, "sq_false": 0, "with_backslash": 0, "with_quote": 0,
         "non_ascii": 0, "tokens_total": 0, "quoted_tokens": 0, "by_len": {}}
    for b, ob in zip(inputs, observations):
        d["batches"] += 1
        if isinstance(ob, Err):
            continue
        for i, o in zip(_unbatch(b), ob):
            d[i["kind"]] += 1
            d["sq_true" if i["sq"] else "sq_false"] += 1
            cs = _chars(i)
            if BS in cs:
                d["with_backslash"] += 1
            if DQ in cs or SQ in cs:
                d["with_quote"] += 1
            if any(c > 127 for c in cs):
                d["non_ascii"] += 1
            d["tokens_total"] += len(o[0] if i["kind"] == "raw" else o[1])
            if i["kind"] == "raw":
                d["quoted_tokens"] += sum(1 for q, _t in o[0] if q)
            k = str(min(len(cs), 9))
            d["by_len"][k] = d["by_len"].get(k, 0) + 1
    return d
