"""C41 -- Testaments are deterministic and sensitive to every attested field.

Tie H, byte-exact: the Coq model's text (Model/Testament.v, run_case) must equal the real
``as_text()`` of Testament / StrictTestament / StrictTestament3, or name the same exception.

Every case carries two data sets ``a`` and ``b``:
  mode "same"    b presents the same attested data differently (parents / property / file
                 insertion order permuted, other repository format) -> texts must be EQUAL
  mode "perturb" b differs from a in exactly one attested field (``what``) -> texts must DIFFER
Two backends:
  "synth"  Testament(rev, tree) on a synthetic revision object and a Tree subclass whose
           list_files yields arbitrary entries (reaches every branch incl. the error branches)
  "repo"   real working trees committed into real 2a / pack-0.92 repositories,
           Testament.from_revision(repository, revision_id)
"""
import hashlib
import os
import shutil
import types
import unicodedata

from vlib import Err

PROP = "C41"
COQ = {
    "property_file": "Properties/C41.v",
    "imports": "From BV Require Import Lib.Bytes Model.Testament.",
}
META = {
    "level": "proof",
    "title": "Testaments are deterministic and sensitive to every attested field",
    "technique": ("Coq theorems over a hand model of bzr/testament.py (text as UTF-8 of code-point lines): determinism, "
                  "guarded injectivity by a parsing/uniqueness argument, machine-checked refutations; byte-exact "
                  "correspondence with as_text() on synthetic revisions and on revisions committed to real 2a and "
                  "pack-0.92 repositories"),
    "level_text": ("Proved for all revisions/entry lists (unbounded): attested-equal data (parents and properties as "
                   "multisets) give the same testament outcome for each of the three variants; equal testaments imply "
                   "attested-equal data under an executable guard (canonical message / property values, integral "
                   "timestamp, no backslash in paths, token-shaped sha1 / last-changed revision); UTF-8 encoding and "
                   "decimal printing proved injective. The unguarded statement is refuted by five machine-checked "
                   "witnesses (message and revprop trailing newline, sub-second timestamp, backslash path, plain "
                   "Testament vs executable bit), all reproduced on real 2a revisions."),
    "level_note": ("Trusted: Coq kernel, vm_compute, the hand model's correspondence (sampled, byte-exact, both backends), "
                   "the modelled Python primitives str.splitlines / sorted / %d / utf-8 and osutils.contains_whitespace / "
                   "contains_linebreaks (validated by the same run), tree.list_files order taken as input. SHA-1 "
                   "collision freedom is not claimed: as_short_text is shown to be a function of as_text only."),
    "design_ref": "DESIGN.md §5 C41",
    "trusted_base": ["hand model coq/Model/Testament.v of breezy/bzr/testament.py",
                     "correspondence harness harness/props/c41.py (entry order of list_files recomputed as sorted by path components)"],
    "assumptions": ["strings contain no lone surrogates; text_sha1 is ASCII (else UnicodeError, not modelled)",
                    "timestamp is a finite float (model: m / 2^e); timezone is an int or None",
                    "rev.committer is a str; ie.executable is a bool",
                    "tree.list_files yields the root first (when asked) and then the entries in inventory order",
                    "osutils.contains_whitespace = any of ' \\t\\n\\r\\v\\f', contains_linebreaks = any of '\\n\\r\\f' (Rust, validated by the run)"],
    "rule": ("seeded random revisions (0-4 entries, 0-3 parents, 0-3 properties, messages over an alphabet containing every "
             "splitlines boundary and 1-4 byte UTF-8 characters) x 3 variants x {same, perturb one field}; real commits in 2a and "
             "pack-0.92; non-trivial = base text produced (no exception) and at least one entry, parent or property"),
}
SHARD = 60

VARIANTS = {"plain": "Plain", "strict": "Strict", "strict3": "Strict3"}
KINDS = {"file": "KFile", "directory": "KDir", "symlink": "KSymlink", "tree-reference": "KTreeRef"}
_state = {"n": 0}


# ------------------------------------------------------------------ data helpers

def _rev(id="rev-1", committer="Joe <joe@example.com>", ts=(10, 0), tz=0, message="x", parents=(), props=None):
    return {"id": id, "committer": committer, "ts": list(ts), "tz": tz, "message": message,
            "parents": list(parents), "props": [list(p) for p in (props or [])]}


def _ent(kind, path, fid, sha1="", target="", revision="rev-1", exec=False, content=None):
    e = {"kind": kind, "path": path, "fid": fid, "sha1": sha1, "target": target, "revision": revision, "exec": exec}
    if content is not None:
        e["content"] = content
        e["sha1"] = hashlib.sha1(content).hexdigest()
    return e


def _root(fid="root-id", revision="rev-1"):
    return _ent("directory", "", fid, revision=revision)


def _data(rev, rest, root=None):
    return {"rev": rev, "root": root or _root(revision=rev["id"]), "rest": rest}


def _ts_float(ts):
    return ts[0] / float(2 ** ts[1])


def _order_key(e):
    return tuple(e["path"].split("/"))


def _copy(d):
    import copy
    return copy.deepcopy(d)


# ------------------------------------------------------------------ corpus (finding witnesses first)

def _witnesses(backend, fmt="2a"):
    out = []
    base_rest = [_ent("directory", "d", "d-id"),
                 _ent("file", "d/f", "f-id", content=b"hello\n", exec=True),
                 _ent("symlink", "l", "l-id", target="d/f")]
    base = _data(_rev(message="x", props=[("branch-nick", "trunk"), ("k", "v")],
                      parents=["p-b", "p-a"]), base_rest)

    def case(variant, what, b):
        return {"backend": backend, "fmt": fmt, "fmt_b": fmt, "variant": variant, "mode": "perturb",
                "what": what, "a": _copy(base), "b": b}
    b = _copy(base); b["rev"]["message"] = "x\n"
    out.append(case("strict3", "message", b))
    b = _copy(base); b["rev"]["ts"] = [43, 2]          # 10.75
    out.append(case("strict3", "timestamp", b))
    b = _copy(base); b["rest"][1]["path"] = "d\\f"     # a root-level file named d\f instead of f inside d
    out.append(case("strict", "path", b))
    b = _copy(base); b["rest"][2]["target"] = "d\\f"
    out.append(case("strict3", "target", b))
    b = _copy(base); b["rev"]["props"] = [["branch-nick", "trunk"], ["k", "v\n"]]
    out.append(case("strict3", "revprop", b))
    b = _copy(base); b["rest"][1]["exec"] = False
    out.append(case("plain", "exec", b))
    return out


def _renorm_witnesses():
    """pairs that differ ONLY in Unicode normalisation of one attested string: the texts must differ"""
    out = []
    nfd, nfc = "cafe\u0301", "caf\u00e9"
    for backend in ("repo", "synth"):
        for variant in ("plain", "strict", "strict3"):
            base = _data(_rev(message="m", committer="Zo\u00eb <z@example.com>", props=[("branch-nick", "trunk"), ("k", nfc)]),
                         [_ent("symlink", "l", "l-id", target=nfd)])
            b = _copy(base); b["rest"][0]["target"] = nfc
            out.append({"backend": backend, "fmt": "2a", "fmt_b": "2a", "variant": variant, "mode": "perturb",
                        "what": "target", "renorm": True, "a": base, "b": b})
        for what in ("message", "committer", "revprop"):
            base = _data(_rev(message=nfc, committer=nfc + " <z@example.com>", props=[("branch-nick", "trunk"), ("k", nfc)]), [])
            b = _copy(base)
            if what == "message":
                b["rev"]["message"] = nfd
            elif what == "committer":
                b["rev"]["committer"] = nfd + " <z@example.com>"
            else:
                b["rev"]["props"][1][1] = nfd
            out.append({"backend": backend, "fmt": "pack-0.92", "fmt_b": "pack-0.92", "variant": "strict3", "mode": "perturb",
                        "what": what, "renorm": True, "a": base, "b": b})
    for what in ("parents", "file_id", "path", "revision_id"):
        base = _data(_rev(id="r-" + nfc, parents=["p-" + nfc]), [_ent("file", "d-" + nfc, "f-" + nfc, sha1="0" * 40, revision="x")])
        b = _copy(base)
        if what == "parents":
            b["rev"]["parents"] = ["p-" + nfd]
        elif what == "file_id":
            b["rest"][0]["fid"] = "f-" + nfd
        elif what == "path":
            b["rest"][0]["path"] = "d-" + nfd
        else:
            b["rev"]["id"] = "r-" + nfd
        out.append({"backend": "synth", "fmt": "2a", "fmt_b": "2a", "variant": "strict", "mode": "perturb",
                    "what": what, "renorm": True, "a": base, "b": b})
    return out


def corpus():
    out = _witnesses("repo") + _witnesses("synth") + _renorm_witnesses()
    # past modelling pitfalls / boundary inputs (synthetic backend)
    for msg in ["", "\n", "\r\n", "a\r\nb", "a\n\rb", "a\x0bb\x0cc\x1cd\x1de\x1ef\x85g h i", "é€\U0001f600", "a\n\n"]:
        d = _data(_rev(message=msg), [])
        out.append({"backend": "synth", "fmt": "2a", "fmt_b": "2a", "variant": "plain", "mode": "same", "what": "none",
                    "a": d, "b": _copy(d)})
    for ts in ([-3, 1], [-1, 1], [1, 1], [-43, 2], [2 ** 40 + 1, 3], [0, 0]):
        d = _data(_rev(ts=ts, tz=None), [])
        out.append({"backend": "synth", "fmt": "2a", "fmt_b": "2a", "variant": "strict", "mode": "same", "what": "none",
                    "a": d, "b": _copy(d)})
    return out


# ------------------------------------------------------------------ generators

ASCII = "abcxyz019-_.@<>:"
WIDE = ["é", "€", "\U0001f600", "߿", "ࠀ", "￿", "\U00010000", "\x7f", "\x80",
        # not NFC / decomposed / combining / compatibility forms (an attested string must be attested verbatim)
        "e\u0301", "A\u030a", "\u212b", "\ufb01", "\u0301", "\u1e9b\u0323", "\u2126", "o\u0308\u0304"]
BREAKS = ["\n", "\r", "\r\n", "\x0b", "\x0c", "\x1c", "\x1d", "\x1e", "\x85", " ", " "]
WS = [" ", "\t", "\n", "\r", "\x0b", "\x0c"]


SAFE = "abcxyz019-_."            # what XML serialisation, file systems and revision-id rules all accept
SAFEWIDE = ["é", "€", "\U0001f600", "ß", "e\u0301", "A\u030a", "\u212b", "\ufb01", "\u2126"]
_safe = [False]


def _word(rng, lo=1, hi=5, wide=0.1):
    alpha, pool = (SAFE, SAFEWIDE) if _safe[0] else (ASCII, WIDE)
    return "".join(rng.choice(pool) if rng.random() < wide else rng.choice(alpha) for _ in range(rng.randint(lo, hi)))


def _text(rng, wild):
    """a message / property value"""
    parts = []
    for _ in range(rng.randint(0, 4)):
        parts.append(_word(rng, 0, 4) + (" " if rng.random() < 0.2 else ""))
        if rng.random() < 0.8:
            parts.append(rng.choice(BREAKS) if wild and rng.random() < 0.5 else "\n")
    return "".join(parts)


def _name(rng, wild):
    s = _word(rng, 1, 4)
    if rng.random() < 0.25:
        s += " " + _word(rng, 1, 2)
    if wild and rng.random() < 0.12:
        s += rng.choice(["\\", "\\ ", "\t", " ", "  "]) + _word(rng, 0, 2)
    return s


def _gen_synth(rng, wild):
    """arbitrary, not necessarily consistent, revision + entries; `wild` adds error-provoking values"""
    rid = "rev-" + _word(rng, 1, 3)
    bad = (lambda p: wild and rng.random() < p)
    if bad(0.03):
        rid += rng.choice(WS)
    committer = _word(rng, 1, 4) + " <" + _word(rng, 1, 3) + ">"
    if bad(0.05):
        committer += rng.choice(["\n", "\r", "\x0c", "\x0b", "\x85", " "]) + "x"
    e = rng.choice([0, 0, 0, 1, 2, 3, 10])
    ts = [rng.randint(-5000, 5000) if e else rng.randint(-50, 2 * 10 ** 9), e]
    tz = rng.choice([0, None, 3600, -18000, 19800, rng.randint(-50000, 50000)])
    parents = [("p-" + _word(rng, 1, 3)) for _ in range(rng.choice([0, 1, 1, 2, 3]))]
    if parents and bad(0.04):
        parents[-1] += rng.choice(WS) + "q"
    props = {}
    for _ in range(rng.choice([0, 0, 1, 2, 3])):
        k = _word(rng, 0 if wild else 1, 3)
        if bad(0.04):
            k += rng.choice(WS)
        props[k] = _text(rng, wild)
    rev = _rev(rid, committer, ts, tz, _text(rng, wild), parents, sorted(props.items()))
    rest = []
    for i in range(rng.choice([0, 1, 1, 2, 3, 4])):
        kind = rng.choice(["file", "file", "directory", "symlink", "tree-reference"])
        path = "/".join(_name(rng, wild) for _ in range(rng.randint(1, 2)))
        if bad(0.03):
            path += rng.choice(["\n", "\r", "\x0c"]) + "z"
        fid = "f%d-" % i + _word(rng, 1, 3)
        if bad(0.03):
            fid += rng.choice(WS)
        ent = _ent(kind, path, fid, revision=rng.choice([rid, "rev-0", "r-" + _word(rng, 1, 2, 0.0)]),
                   exec=(kind == "file" and rng.random() < 0.4))
        if kind == "file":
            ent["sha1"] = "" if bad(0.04) else hashlib.sha1(_word(rng).encode()).hexdigest()
        if kind == "symlink":
            ent["target"] = "" if bad(0.04) else "/".join(_name(rng, wild) for _ in range(rng.randint(1, 2)))
            if bad(0.03):
                ent["target"] += "\n"
        if wild and rng.random() < 0.05:          # attributes of another kind present but irrelevant
            ent["sha1"] = ent["sha1"] or "0" * 40
            ent["target"] = ent["target"] or "t"
        rest.append(ent)
    root = _root("root-" + _word(rng, 1, 2, 0.0), rng.choice([rid, "rev-0"]))
    return {"rev": rev, "root": root, "rest": rest}


def _repo_value(v):
    """revision property values every format stores faithfully: the xml5 serializer of pack-0.92 (bzrformats,
    outside /repo) drops whitespace-only values and mangles non-BMP characters -- storage, not testament"""
    v = "".join(c for c in v if ord(c) < 0x10000)
    return v if v.strip() else "v" + v


def _gen_repo(rng):
    """a consistent tree that can be committed to a real repository"""
    _safe[0] = True
    try:
        return _gen_repo1(rng)
    finally:
        _safe[0] = False


def _gen_repo1(rng):
    rid = "rev-" + _word(rng, 1, 3, 0.0)
    committer = _word(rng, 1, 4) + " <" + _word(rng, 1, 3, 0.0) + "@example.com>"
    ts = [rng.randint(0, 8 * 10 ** 6), 3] if rng.random() < 0.5 else [rng.randint(0, 2 * 10 ** 9), 0]
    tz = rng.choice([0, 3600, -18000, 19800])
    parents = []
    for _ in range(rng.choice([0, 0, 1, 2, 3])):
        p = "p-" + _word(rng, 1, 3, 0.0)
        if p not in parents and p != rid:
            parents.append(p)
    props = {"branch-nick": _repo_value(_word(rng, 1, 3))}
    for _ in range(rng.choice([0, 1, 2])):
        props[_word(rng, 1, 3)] = _repo_value(_text(rng, False))
    msg = _text(rng, False)
    if not msg.strip():
        msg = "m" + msg               # xml5 (pack-0.92) stores a whitespace-only message as ""
    rest, used = [], set()
    dirs = [""]
    for i in range(rng.choice([0, 1, 2, 3, 4])):
        kind = rng.choice(["file", "file", "directory", "symlink"])
        parent = rng.choice(dirs)
        name = _word(rng, 1, 3, 0.15) + (" " + _word(rng, 1, 2, 0.0) if rng.random() < 0.25 else "")
        name = unicodedata.normalize("NFC", name)      # versioned file names are NFC; symlink targets are verbatim
        path = (parent + "/" if parent else "") + name
        if path in used or name in (".", "..") or name.lower().startswith(".bzr"):
            continue
        used.add(path)
        ent = _ent(kind, path, "f%d-" % i + _word(rng, 1, 3, 0.0), revision=rid)
        if kind == "file":
            ent = _ent(kind, path, ent["fid"], revision=rid, exec=rng.random() < 0.4,
                       content=_text(rng, False).encode("utf-8"))
        elif kind == "symlink":
            ent["target"] = _name(rng, False) + ("/" + _word(rng, 1, 2, 0.0) if rng.random() < 0.3 else "")
        else:
            dirs.append(path)
        rest.append(ent)
    rest.sort(key=_order_key)
    rev = _rev(rid, committer, ts, tz, msg, parents, sorted(props.items()))
    return {"rev": rev, "root": _root("root-" + _word(rng, 1, 2, 0.0), rid), "rest": rest}


def _same(rng, d, backend):
    """the same attested data, presented in another order"""
    b = _copy(d)
    rng.shuffle(b["rev"]["parents"])
    rng.shuffle(b["rev"]["props"])
    if backend == "repo":
        b["add_order"] = rng.random()
    elif d["rev"]["tz"] in (0, None) and rng.random() < 0.3:
        b["rev"]["tz"] = None if d["rev"]["tz"] == 0 else 0
    return b


FIELDS_REV = ["message", "committer", "timestamp", "parents", "revprop", "revision_id", "timezone"]
FIELDS_ENT = ["path", "content", "exec", "target", "file_id", "last_changed"]


def _perturb(rng, d, backend, variant):
    """returns (what, b) with exactly one attested field changed, or None"""
    _safe[0] = backend == "repo"
    try:
        return _perturb1(rng, d, backend, variant)
    finally:
        _safe[0] = False


def _renorm(rng, x):
    """a different but canonically / compatibility equivalent string, or None"""
    c = sorted({unicodedata.normalize(f, x) for f in ("NFC", "NFD", "NFKC", "NFKD")} - {x})
    return rng.choice(c) if c else None


def _perturb_renorm(rng, b, backend):
    """change only the Unicode normalisation of one attested string"""
    r, ents = b["rev"], b["rest"]
    slots = [("message", r, "message"), ("committer", r, "committer")]
    slots += [("revprop", p, 1) for p in r["props"]]
    slots += [("target", e, "target") for e in ents if e["kind"] == "symlink" and e["target"]]
    if backend == "synth":
        slots += [("parents", r["parents"], i) for i in range(len(r["parents"]))]
        slots += [("file_id", e, "fid") for e in ents] + [("path", e, "path") for e in ents]
        slots += [("revision_id", r, "id")]
    rng.shuffle(slots)
    for what, holder, key in slots:
        new = _renorm(rng, holder[key])
        if new is None:
            continue
        if backend == "repo" and what == "revprop" and _repo_value(new) != new:
            continue
        if what == "parents" and new in holder:
            continue
        holder[key] = new
        return what, b
    return None


def _perturb1(rng, d, backend, variant):
    if rng.random() < 0.3:
        p = _perturb_renorm(rng, _copy(d), backend)
        if p is not None:
            return p[0] + "~unicode-normalisation", p[1]
    b = _copy(d)
    r = b["rev"]
    cands = list(FIELDS_REV)
    ents = b["rest"]
    if ents:
        cands += FIELDS_ENT * 2
    what = rng.choice(cands)
    if what == "message" or what == "revprop":
        if what == "revprop":
            ps = [p for p in r["props"] if not (backend == "repo" and p[0] == "branch-nick" and False)]
            mode = rng.choice(["value", "value", "add", "drop"]) if ps else "add"
            if mode == "add":
                k = "new" + _word(rng, 1, 2, 0.0)
                if any(p[0] == k for p in r["props"]):
                    return None
                r["props"].append([k, _repo_value(_text(rng, False))])
                r["props"].sort()
                return what, b
            if mode == "drop":
                i = rng.randrange(len(ps))
                if backend == "repo" and r["props"][i][0] == "branch-nick":
                    return None
                del r["props"][i]
                return what, b
            i = rng.randrange(len(r["props"]))
            old = r["props"][i][1]
        else:
            old = r["message"]
        choice = rng.random()
        if choice < 0.25:
            new = old + "\n"
        elif choice < 0.4 and "\n" in old and backend == "synth":
            new = old.replace("\n", rng.choice(["\r", "\r\n", "\x0b", " "]), 1)
        elif choice < 0.6:
            new = old + "\n" + _word(rng, 1, 2, 0.0)
        elif choice < 0.8:
            new = _word(rng, 1, 2, 0.0) + old
        else:
            new = old.replace("\n", "", 1) if "\n" in old else old + " "
        if new == old:
            return None
        if what == "message":
            if backend == "repo" and not new.strip():
                return None
            r["message"] = new
        else:
            if backend == "repo" and _repo_value(new) != new:
                return None
            r["props"][i][1] = new
    elif what == "committer":
        r["committer"] = r["committer"] + rng.choice(["x", " ", ".", "é"])
    elif what == "timestamp":
        m, e = r["ts"]
        c = rng.random()
        if c < 0.35:
            m2, e2 = (m * 8 + rng.choice([1, 2, 4, 6, 7]), e + 3) if e <= 7 else (m + 1, e)   # sub-second change
        elif c < 0.7:
            m2, e2 = m + (1 << e) * rng.choice([1, -1, 60]), e
        else:
            m2, e2 = m + rng.choice([1, -1]), e
        if backend == "repo" and (m2 < 0 or e2 > 3):
            return None
        r["ts"] = [m2, e2]
    elif what == "parents":
        c = rng.random()
        if c < 0.4 or not r["parents"]:
            p = "p-new" + _word(rng, 1, 2, 0.0)
            if p in r["parents"]:
                return None
            r["parents"].append(p)
        elif c < 0.7:
            del r["parents"][rng.randrange(len(r["parents"]))]
        else:
            i = rng.randrange(len(r["parents"]))
            r["parents"][i] += "x"
            if len(set(r["parents"])) != len(r["parents"]):
                return None
    elif what == "revision_id":
        old = r["id"]
        r["id"] = old + "x"
        for e in [b["root"]] + ents:
            if e["revision"] == old and backend == "repo":
                e["revision"] = r["id"]
        if backend == "repo":
            what = "revision_id+last_changed"      # a real commit stamps the new id on every entry too
    elif what == "timezone":
        old = r["tz"] or 0
        r["tz"] = old + rng.choice([1, -1, 3600, 60])
    else:
        i = rng.randrange(len(ents))
        e = ents[i]
        if what == "path":
            if backend == "repo":
                # rename the leaf (only entries without children, keeps the tree consistent)
                if any(o["path"].startswith(e["path"] + "/") for o in ents):
                    return None
                head, _, leaf = e["path"].rpartition("/")
                c = rng.random()
                if head and c < 0.3:
                    new = head + "\\" + leaf      # root-level file whose name contains a backslash
                else:
                    new = (head + "/" if head else "") + leaf + rng.choice(["x", " y", "é"])
                if any(o["path"] == new for o in ents):
                    return None
            else:
                c = rng.random()
                if c < 0.3 and "/" in e["path"]:
                    new = e["path"].replace("/", "\\", 1)
                elif c < 0.4 and "\\" in e["path"]:
                    new = e["path"].replace("\\", "/", 1)
                else:
                    new = e["path"] + rng.choice(["x", " y", "/z", "é"])
            e["path"] = new
            if backend == "repo":
                ents.sort(key=_order_key)
        elif what == "content":
            if e["kind"] != "file" or not e["sha1"]:
                return None
            if backend == "repo":
                e["content"] = e["content"] + b"more\n"
                e["sha1"] = hashlib.sha1(e["content"]).hexdigest()
            else:
                e["sha1"] = hashlib.sha1(e["sha1"].encode()).hexdigest()
        elif what == "exec":
            if e["kind"] != "file":
                return None
            e["exec"] = not e["exec"]
        elif what == "target":
            if e["kind"] != "symlink" or not e["target"]:
                return None
            c = rng.random()
            if c < 0.3 and "/" in e["target"]:
                e["target"] = e["target"].replace("/", "\\", 1)
            else:
                e["target"] = e["target"] + rng.choice(["x", " y", "/z"])
        elif what == "file_id":
            e["fid"] = e["fid"] + "x"
        elif what == "last_changed":
            if backend == "repo" or variant == "plain":
                return None          # assigned by the repository; not attested by the plain Testament
            e["revision"] = e["revision"] + "x"
    return what, b


def cases(rng, tier):
    n_synth = 450 if tier == "quick" else 6000
    n_repo = 75 if tier == "quick" else 700
    variants = list(VARIANTS)
    for i in range(n_synth):
        wild = i % 3 == 0
        d = _gen_synth(rng, wild)
        variant = variants[i % 3] if i % 7 else rng.choice(variants)
        if i % 4 == 0:
            yield {"backend": "synth", "fmt": "2a", "fmt_b": "2a", "variant": variant, "mode": "same", "what": "order",
                   "a": d, "b": _same(rng, d, "synth")}
        else:
            p = _perturb(rng, d, "synth", variant)
            if p is None:
                yield {"backend": "synth", "fmt": "2a", "fmt_b": "2a", "variant": variant, "mode": "same", "what": "none",
                       "a": d, "b": _copy(d)}
            else:
                yield {"backend": "synth", "fmt": "2a", "fmt_b": "2a", "variant": variant, "mode": "perturb",
                       "what": p[0], "a": d, "b": p[1]}
    for i in range(n_repo):
        d = _gen_repo(rng)
        variant = variants[i % 3]
        fmt = "2a" if i % 2 == 0 else "pack-0.92"
        if i % 3 == 0:
            yield {"backend": "repo", "fmt": "2a", "fmt_b": "pack-0.92", "variant": variant, "mode": "same",
                   "what": "format+order", "a": d, "b": _same(rng, d, "repo")}
        else:
            p = _perturb(rng, d, "repo", variant)
            if p is None:
                yield {"backend": "repo", "fmt": fmt, "fmt_b": fmt, "variant": variant, "mode": "same",
                       "what": "order", "a": d, "b": _same(rng, d, "repo")}
            else:
                yield {"backend": "repo", "fmt": fmt, "fmt_b": fmt, "variant": variant, "mode": "perturb",
                       "what": p[0], "a": d, "b": p[1]}


# ------------------------------------------------------------------ implementation driver

def setup(scratch):
    import breezy
    import breezy.bzr  # noqa
    _state["dir"] = scratch
    _state["n"] = 0
    os.environ.setdefault("BRZ_EMAIL", "Verif <verif@example.com>")


def _classes():
    from breezy.bzr.testament import StrictTestament, StrictTestament3, Testament
    return {"plain": Testament, "strict": StrictTestament, "strict3": StrictTestament3}


SHORT_HEADERS = {"plain": b"bazaar-ng testament short form 1\n",
                 "strict": b"bazaar-ng testament short form 2.1\n",
                 "strict3": b"bazaar testament short form 3 strict\n"}


def _observe(variant, make):
    """-> (as_text bytes | Err, short_ok)"""
    try:
        t = make()
        text = t.as_text()
    except (ValueError, AssertionError) as e:
        if isinstance(e, UnicodeError):
            raise
        return Err(type(e).__name__), True
    sha = hashlib.sha1(text).hexdigest().encode("ascii")
    ok = (t.as_sha1() == sha and b"".join(t.as_text_lines()) == text and
          t.as_short_text() == SHORT_HEADERS[variant] + b"revision-id: " + t.revision_id + b"\nsha1: " + sha + b"\n")
    return text, ok


def _synth(variant, d):
    from breezy.tree import Tree
    r = d["rev"]
    rev = types.SimpleNamespace(
        revision_id=r["id"].encode("utf-8"), committer=r["committer"], timezone=r["tz"],
        timestamp=_ts_float(r["ts"]), message=r["message"],
        parent_ids=[p.encode("utf-8") for p in r["parents"]],
        properties={k: v for k, v in r["props"]})

    def ie(e):
        return types.SimpleNamespace(
            kind=e["kind"], file_id=e["fid"].encode("utf-8"),
            text_sha1=(e["sha1"].encode("ascii") if e["sha1"] else None),
            symlink_target=(e["target"] if e["target"] else None),
            revision=e["revision"].encode("utf-8"), executable=bool(e["exec"]))

    class FakeTree(Tree):
        def list_files(self, include_root=False, from_dir=None, recursive=True, recurse_nested=False):
            if include_root:
                yield d["root"]["path"], "V", "directory", ie(d["root"])
            for e in d["rest"]:
                yield e["path"], "V", e["kind"], ie(e)

    cls = _classes()[variant]
    return _observe(variant, lambda: cls(rev, FakeTree()))


def _repo(variant, fmt, d):
    from breezy import controldir
    import random
    _state["n"] += 1
    base = os.path.join(_state["dir"], "wt%d" % _state["n"])
    try:
        wt = controldir.ControlDir.create_standalone_workingtree(
            base, format=controldir.format_registry.make_controldir(fmt))
        wt.set_root_id(d["root"]["fid"].encode("utf-8"))
        rest = d["rest"]
        for e in rest:                                   # directories first (by depth)
            p = os.path.join(base, e["path"])
            if e["kind"] == "directory":
                os.makedirs(p, exist_ok=True)
        for e in rest:
            p = os.path.join(base, e["path"])
            if e["kind"] == "file":
                with open(p, "wb") as f:
                    f.write(e["content"])
                os.chmod(p, 0o755 if e["exec"] else 0o644)
            elif e["kind"] == "symlink":
                os.symlink(e["target"], p)
        order = list(rest)
        if "add_order" in d:
            random.Random(d["add_order"]).shuffle(order)
            order.sort(key=lambda e: e["path"].count("/"))      # a parent must be versioned before its children
        if order:
            wt.add([e["path"] for e in order], ids=[e["fid"].encode("utf-8") for e in order])
        r = d["rev"]
        if r["parents"]:
            wt.set_parent_ids([p.encode("utf-8") for p in r["parents"]], allow_leftmost_as_ghost=True)
        rid = wt.commit(r["message"], rev_id=r["id"].encode("utf-8"), timestamp=_ts_float(r["ts"]),
                        timezone=r["tz"], committer=r["committer"], revprops={k: v for k, v in r["props"]})
        repo = wt.branch.repository
        cls = _classes()[variant]
        with repo.lock_read():
            return _observe(variant, lambda: cls.from_revision(repo, rid))
    finally:
        shutil.rmtree(base, ignore_errors=True)


def impl(inp):
    obs = _impl(inp)
    _state.setdefault("obs", {})[_key(inp)] = obs      # model_term embeds the observed bytes (see cmp)
    return obs


def _impl(inp):
    if inp["backend"] == "synth":
        ta, oka = _synth(inp["variant"], inp["a"])
        tb, okb = _synth(inp["variant"], inp["b"])
    else:
        ta, oka = _repo(inp["variant"], inp["fmt"], inp["a"])
        tb, okb = _repo(inp["variant"], inp["fmt_b"], inp["b"])
    return {"texts": [ta, tb], "short_ok": bool(oka and okb)}


def impl_obs(inp, obs):
    # the byte-exact comparison happens inside the model term (cmp), see model_term
    if isinstance(obs, Err):
        return obs
    return True


# ------------------------------------------------------------------ model term

def cstr(s):
    """code-point list literal (hex string token decoded by Model.Testament.h2 / h6)"""
    if not s:
        return "(@nil N)"
    if _plain(s):
        return '(s2l "%s"%%string)' % s.replace('"', '""')
    if all(ord(c) < 256 for c in s):
        return '(h2 "%s")' % "".join("%02x" % ord(c) for c in s)
    return '(h6 "%s")' % "".join("%06x" % ord(c) for c in s)


def _plain(s):
    """printable ASCII and LF only: can be written as a raw Coq string token (cheapest literal)"""
    return all(32 <= ord(c) < 127 or c == "\n" for c in s)


def _cexp(t):
    if isinstance(t, Err):
        return '(OE "%s")' % str(t)
    if t and all(32 <= c < 127 or c == 10 for c in t):
        return '(OB (s2l "%s"%%string))' % t.decode("ascii").replace('"', '""')
    return '(OB (h2 "%s"))' % bytes(t).hex() if t else "(OB (@nil N))"


def _centry(e):
    return "(mk_entry %s %s %s %s %s %s %s)" % (
        KINDS[e["kind"]], cstr(e["path"]), cstr(e["fid"]), cstr(e["sha1"]), cstr(e["target"]),
        cstr(e["revision"]), "true" if e["exec"] else "false")


def _crun(variant, d):
    r = d["rev"]
    tz = "None" if r["tz"] is None else "(Some (%d)%%Z)" % r["tz"]
    props = "[" + "; ".join("(%s, %s)" % (cstr(k), cstr(v)) for k, v in r["props"]) + "]"
    parents = "[" + "; ".join(cstr(p) for p in r["parents"]) + "]"
    rest = "[" + "; ".join(_centry(e) for e in d["rest"]) + "]"
    return "run_case %s (mk_rev %s %s (%d)%%Z %d%%N %s %s %s %s) %s %s" % (
        VARIANTS[variant], cstr(r["id"]), cstr(r["committer"]), r["ts"][0], r["ts"][1], tz,
        cstr(r["message"]), parents, props, _centry(d["root"]), rest)


def model_term(inp):
    """cmp (model's two outcomes) (the implementation's two outcomes): OT "True" iff byte-identical"""
    obs = _state.get("obs", {}).get(_key(inp))
    if obs is None:
        obs = impl(inp)
    if isinstance(obs, Err):
        return None
    ta, tb = obs["texts"]
    return "cmp (OL [%s; %s]) (OL [%s; %s])" % (
        _crun(inp["variant"], inp["a"]), _crun(inp["variant"], inp["b"]), _cexp(ta), _cexp(tb))


def _key(inp):
    import json
    from vlib import jsonable
    return json.dumps(jsonable(inp), sort_keys=True)


# ------------------------------------------------------------------ the property on the implementation

def oracle(inp, obs):
    if isinstance(obs, Err):
        return "driver error " + str(obs)
    ta, tb = obs["texts"]
    if not obs["short_ok"]:
        return "as_short_text / as_sha1 / as_text_lines is not the SHA-1 summary of as_text()"
    if inp["mode"] == "same":
        if isinstance(ta, Err) or isinstance(tb, Err):
            if str(ta) != str(tb) or type(ta) is not type(tb):
                return f"same attested data ({inp['what']}): one side raised, the other did not ({ta!r:.60} vs {tb!r:.60})"
            return None
        if ta != tb:
            return f"same attested data presented differently ({inp['what']}, {inp['fmt']} vs {inp['fmt_b']}) gave different testaments"
        return None
    if isinstance(ta, Err) or isinstance(tb, Err):
        return None                      # no testament produced: nothing attested
    if ta == tb:
        return f"{inp['variant']} testament unchanged although the attested field '{inp['what']}' changed"
    return None


def _changed(inp):
    a, b = inp["a"], inp["b"]
    return a, b


def finding_matches(fid, inp, obs, why):
    if inp.get("mode") != "perturb":
        return False
    a, b = inp["a"], inp["b"]
    what = inp["what"]
    if fid == "C41-message-trailing-newline":
        return (what == "message" and a["rev"]["message"] != b["rev"]["message"]
                and a["rev"]["message"].splitlines() == b["rev"]["message"].splitlines())
    if fid == "C41-subsecond-timestamp":
        return (what == "timestamp" and _ts_float(a["rev"]["ts"]) != _ts_float(b["rev"]["ts"])
                and int(_ts_float(a["rev"]["ts"])) == int(_ts_float(b["rev"]["ts"])))
    if fid == "C41-backslash-path":
        if what not in ("path", "target"):
            return False
        key = "path" if what == "path" else "target"
        va = sorted(e[key] for e in a["rest"])
        vb = sorted(e[key] for e in b["rest"])
        return va != vb and sorted(x.replace("\\", "/") for x in va) == sorted(x.replace("\\", "/") for x in vb)
    if fid == "C41-revprop-trailing-newline":
        pa, pb = dict(map(tuple, a["rev"]["props"])), dict(map(tuple, b["rev"]["props"]))
        return (what == "revprop" and pa != pb and sorted(pa) == sorted(pb)
                and all(pa[k].splitlines() == pb[k].splitlines() for k in pa))
    if fid == "C41-plain-exec-bit":
        return what == "exec" and inp["variant"] == "plain"
    return False


def nontrivial(inp, obs):
    if isinstance(obs, Err) or isinstance(obs["texts"][0], Err):
        return False
    a = inp["a"]
    return bool(a["rest"] or a["rev"]["parents"] or a["rev"]["props"])


def distribution(inputs, observations):
    d = {"backend": {}, "variant": {}, "mode": {}, "what": {}, "fmt": {}, "outcome": {}, "entries": {}, "text_equal": 0}
    for i, o in zip(inputs, observations):
        for k in ("backend", "variant", "mode", "what"):
            d[k][i[k]] = d[k].get(i[k], 0) + 1
        if i["backend"] == "repo":
            f = i["fmt"] + "|" + i["fmt_b"]
            d["fmt"][f] = d["fmt"].get(f, 0) + 1
        n = str(len(i["a"]["rest"]))
        d["entries"][n] = d["entries"].get(n, 0) + 1
        if isinstance(o, Err):
            oc = "driver-error"
        else:
            ta, tb = o["texts"]
            oc = "/".join(str(t) if isinstance(t, Err) else "text" for t in (ta, tb))
            if not isinstance(ta, Err) and ta == tb:
                d["text_equal"] += 1
        d["outcome"][oc] = d["outcome"].get(oc, 0) + 1
    return d
