"""C44 helper: drives the REAL breezy fast-export / fast-import code.

build_src   materialises a generated history (graph + one full inventory per
            revision + metadata + tags) directly in a 2a repository (inventories,
            texts and Revision objects are written with the repository API, so
            file ids, kinds, executable bits and symlink targets are exactly the
            generated ones -- kind changes and swaps included);
export      runs BzrFastExporter into a BytesIO;
parse_cmds  reads the stream back with the `fastimport` parser (environment) into
            per-commit file command lists;
do_import   runs GenericProcessor on the stream in an empty standalone 2a branch;
read_dst    reads the imported repository back (by mark).
Nothing here is a model: it is the implementation side of the correspondence.
"""
import io
import os

ROOT_ID = b"root-id"


def fid(i):
    return ROOT_ID if i == 0 else b"id%d" % i


def rid(i):
    return b"r%d" % i


def _init():
    import breezy
    import breezy.bzr  # noqa: F401
    from breezy import trace
    from breezy.plugins.fastimport import load_fastimport
    load_fastimport()
    trace.be_quiet(True)
    import logging
    logging.getLogger("brz").setLevel(logging.CRITICAL)


def entry_key(e):
    """Fields of a generated entry that make it 'the same entry' (revision inheritance)."""
    return tuple(e[1:])


def inv_paths(case, inv):
    """{id: path string} of a generated inventory (list of [id,parent,name,kind,data,exec])."""
    by = {e[0]: e for e in inv}
    out = {}

    def p(i):
        if i == 0:
            return ""
        if i not in out:
            e = by[i]
            pp = p(e[1])
            nm = case["names"][e[2]]
            out[i] = nm if pp == "" else pp + "/" + nm
        return out[i]
    for e in inv:
        p(e[0])
    return out


def build_src(path, case):
    _init()
    from breezy import controldir, osutils
    from breezy import revision as _mod_revision
    from bzrformats import inventory
    fmt = controldir.format_registry.make_controldir("2a")
    br = controldir.ControlDir.create_branch_convenience(path, format=fmt, force_new_tree=False)
    repo = br.repository
    S = case["strings"]
    entry_rev = []      # per revision: {id: (key, revision-id)}
    root_rev = []
    with repo.lock_write():
        repo.start_write_group()
        try:
            for i, rev in enumerate(case["revs"]):
                revid = rid(i)
                left = rev["parents"][0] if rev["parents"] else None
                prev = entry_rev[left] if left is not None else {}
                inv = inventory.Inventory(root_id=None, revision_id=revid)
                rr = root_rev[left] if left is not None else revid
                inv.add(inventory.InventoryDirectory(ROOT_ID, "", None, revision=rr))
                if rr == revid:
                    repo.texts.add_lines((ROOT_ID, revid), (), [])
                root_rev.append(rr)
                paths = inv_paths(case, rev["inv"])
                cur = {}
                for e in sorted(rev["inv"], key=lambda e: paths[e[0]].count("/")):
                    i_, par, nm, kind, data, ex = e
                    old = prev.get(i_)
                    erev = old[1] if (old is not None and old[0] == entry_key(e)) else revid
                    cur[i_] = (entry_key(e), erev)
                    name = case["names"][nm]
                    if kind == "f":
                        text = S[data].encode("utf-8") if isinstance(S[data], str) else S[data]
                        ie = inventory.make_entry("file", name, fid(par), fid(i_), revision=erev,
                                                  executable=bool(ex), text_sha1=osutils.sha_string(text),
                                                  text_size=len(text))
                        if erev == revid:
                            repo.texts.add_lines((fid(i_), revid), (), osutils.split_lines(text))
                    elif kind == "l":
                        ie = inventory.make_entry("symlink", name, fid(par), fid(i_), revision=erev,
                                                  symlink_target=S[data])
                    else:
                        ie = inventory.make_entry("directory", name, fid(par), fid(i_), revision=erev)
                    if kind != "f" and erev == revid:
                        repo.texts.add_lines((fid(i_), revid), (), [])
                    inv.add(ie)
                entry_rev.append(cur)
                pids = [rid(p) for p in rev["parents"]]
                sha = repo.add_inventory(revid, inv, pids)
                props = {"branch-nick": "src"} if case.get("props", 1) else {}
                if rev.get("authors"):
                    props["authors"] = "\n".join(S[a] for a in rev["authors"])
                r = _mod_revision.Revision(
                    timestamp=rev["ts4"] / 4.0, timezone=rev["tz"], committer=S[rev["committer"]],
                    message=S[rev["msg"]], revision_id=revid, properties=props,
                    inventory_sha1=sha, parent_ids=pids)
                repo.add_revision(revid, r, inv)
            repo.commit_write_group()
        except BaseException:
            repo.abort_write_group()
            raise
    tip = case["tip"]
    with br.lock_write():
        revno = 0
        t = tip
        while t is not None:
            revno += 1
            ps = case["revs"][t]["parents"]
            t = ps[0] if ps else None
        br.set_last_revision_info(revno, rid(tip))
        for name, r in case["tags"]:
            br.tags.set_tag(S[name], rid(r) if r >= 0 else b"ghost-rev")
    return br


def export(br, case):
    from breezy.plugins.fastimport import exporter as E
    out = io.BytesIO()
    old = E.REVISIONS_CHUNK_SIZE
    if case.get("chunk"):
        E.REVISIONS_CHUNK_SIZE = case["chunk"]
    try:
        ex = E.BzrFastExporter(br, outf=out, ref=b"refs/heads/master", checkpoint=case.get("checkpoint") or -1,
                               plain_format=bool(case["plain"]), rewrite_tags=bool(case["rewrite"]),
                               no_tags=bool(case["no_tags"]))
        ex.run()
    finally:
        E.REVISIONS_CHUNK_SIZE = old
    order = sorted(((int(m), r) for r, m in ex.revid_to_mark.items() if m is not None))
    return out.getvalue(), [r for _, r in order]


def _mode_tag(mode):
    return {0o100644: "file", 0o100755: "exec", 0o120000: "link", 0o040000: "dir"}.get(mode, "mode%o" % mode)


def parse_cmds(stream):
    """[(kind, payload...)] top-level commands; commits carry their file commands."""
    from fastimport import parser, commands
    out = []
    for cmd in parser.ImportParser(io.BytesIO(stream)).iter_commands():
        if isinstance(cmd, commands.CommitCommand):
            ordered, mods = [], []
            for fc in cmd.iter_files():
                if isinstance(fc, commands.FileModifyCommand):
                    mods.append(["M", fc.path, _mode_tag(fc.mode), fc.data if fc.data is not None else b""])
                elif isinstance(fc, commands.FileDeleteCommand):
                    ordered.append(["D", fc.path])
                elif isinstance(fc, commands.FileRenameCommand):
                    ordered.append(["R", fc.old_path, fc.new_path])
                else:
                    ordered.append(["?", repr(fc).encode()])
            out.append(("commit", cmd.mark, cmd.from_, list(cmd.merges or []), ordered, mods))
        elif isinstance(cmd, commands.ResetCommand):
            out.append(("reset", cmd.ref, cmd.from_))
        elif isinstance(cmd, commands.FeatureCommand):
            out.append(("feature", cmd.feature_name))
        else:
            out.append(("other", cmd.name))
    return out


def do_import(path, stream, case):
    from breezy import controldir
    from breezy.plugins.fastimport.processors import generic_processor as G
    from fastimport import parser
    fmt = controldir.format_registry.make_controldir("2a")
    br = controldir.ControlDir.create_branch_convenience(path, format=fmt, force_new_tree=False)
    # cmd_fast_import passes a dict with bytes keys (which GenericProcessor then never finds: it looks
    # the options up with str keys, so --checkpoint/--inv-cache/--count are ignored); do the same here.
    params = {b"mode": "default"}
    proc = G.GenericProcessor(br.controldir, params=params, verbose=False)
    # fast-import prints "ABORT: ..." on stdout when a commit fails: keep the check's output clean
    import contextlib
    p = parser.ImportParser(io.BytesIO(stream))
    if case.get("strip"):
        # harness-made variant of a rich stream: the commit properties are dropped (every rich stream of a
        # normally committed branch carries `property branch-nick`, which the importer rejects -- finding
        # C44-rich-properties); lets the importer's directory commands be exercised all the same.
        from fastimport import commands

        def it():
            for cmd in p.iter_commands():
                if isinstance(cmd, commands.CommitCommand):
                    cmd.properties = None
                yield cmd
        source = it
    else:
        source = p.iter_commands
    with contextlib.redirect_stdout(io.StringIO()):
        proc.process(source)
    return proc


def tree_of(repo, revid):
    t = repo.revision_tree(revid)
    out = []
    with t.lock_read():
        for p, e in t.iter_entries_by_dir():
            if p == "":
                continue
            pb = p.encode("utf-8")
            if e.kind == "file":
                out.append([pb, "exec" if e.executable else "file", t.get_file_text(p)])
            elif e.kind == "symlink":
                out.append([pb, "link", e.symlink_target.encode("utf-8")])
            else:
                out.append([pb, "dir", b""])
    return sorted(out)


def read_dst(path, proc):
    """Imported repository by mark: [(parents as marks, committer, authors, ts4, tz, msg, tree)], tags, tip, revno."""
    from breezy.branch import Branch
    br = Branch.open(path)
    marks = {m: r for m, r in proc.cache_mgr.marks.items() if m != b"0"}
    by_rev = {r: int(m) for m, r in marks.items()}
    revs = []
    with br.lock_read():
        repo = br.repository
        for m in sorted(int(x) for x in marks):
            r = repo.get_revision(marks[b"%d" % m])
            ts4 = r.timestamp * 4
            revs.append([[by_rev.get(p, -1) for p in r.parent_ids], r.committer.encode("utf-8"),
                         (r.properties["authors"].encode("utf-8") if "authors" in r.properties else None),
                         int(ts4) if ts4 == int(ts4) else repr(r.timestamp).encode(), r.timezone,
                         r.message.encode("utf-8"), tree_of(repo, marks[b"%d" % m])])
        tags = sorted([k.encode("utf-8"), by_rev.get(v, -1)] for k, v in br.tags.get_tag_dict().items())
        revno, tip = br.last_revision_info()
        nrev = len(repo.all_revision_ids())
    return revs, tags, by_rev.get(tip, -1), revno, nrev


def src_tree(case, i):
    """The generated tree of revision i in the same shape as tree_of (oracle vocabulary)."""
    S = case["strings"]
    inv = case["revs"][i]["inv"]
    paths = inv_paths(case, inv)
    out = []
    for e in inv:
        pb = paths[e[0]].encode("utf-8")
        if e[3] == "f":
            t = S[e[4]]
            out.append([pb, "exec" if e[5] else "file", t.encode("utf-8") if isinstance(t, str) else t])
        elif e[3] == "l":
            out.append([pb, "link", S[e[4]].encode("utf-8")])
        else:
            out.append([pb, "dir", b""])
    return sorted(out)
