"""Shared driver for C26 / C27: replay of model schedules on real breezy LockDir objects.

Every locker is a real `breezy.lockdir.LockDir` running its program in its own
thread over a *proxy transport* (plain Python object, `__getattr__` delegation)
that stops before every transport operation and waits for the scheduler's
grant.  One grant = one transport operation + the local code up to the next
operation -- exactly one `step` of coq/Model/LockDir.v.  After every step the
lock directory is read through the raw transport and compared with the model.
"""
import os
import re
import subprocess
import sys
import threading

from vlib import Err, Tag

GATED = {"mkdir", "put_bytes_non_atomic", "put_bytes", "put_file", "put_file_non_atomic", "rename", "move",
         "get_bytes", "get", "delete", "rmdir", "delete_tree", "has", "list_dir", "stat", "copy", "append_bytes",
         "append_file", "readv", "delete_multi", "copy_tree", "iter_files_recursive", "open_write_stream",
         "lock_read", "lock_write", "ensure_base", "create_prefix"}
PASS = {"abspath", "external_url", "local_abspath", "relpath", "clone", "is_readonly", "listable"}

CMDS = {"attempt": "Attempt", "unlock": "Unlock", "confirm": "Confirm", "peek": "Peek",
        "forcebreak": "ForceBreak", "breakcorrupt": "BreakCorrupt", "crash": "Crash"}
KIND_ORDER = {"pending": 0, "releasing": 1, "broken": 2}
CORRUPT = b"\xff\x00{{{: bad"

_state = {}


class _Abort(BaseException):
    pass


def _fault_class():
    if "fault" not in _state:
        from dromedary.errors import TransportError

        class InjectedFault(TransportError):
            def __init__(self):
                TransportError.__init__(self, "injected fault")
        _state["fault"] = InjectedFault
    return _state["fault"]


def setup(scratch):
    import breezy
    import breezy.bzr  # noqa
    _state["dir"] = scratch
    _state["n"] = 0
    p = subprocess.Popen([sys.executable, "-c", "pass"])
    p.wait()
    _state["deadpid"] = p.pid
    _state["alivepid"] = os.getpid()
    from breezy import osutils
    _state["host"] = osutils.get_host_name()
    _state["user"] = osutils.get_user_name() if hasattr(osutils, "get_user_name") else None
    from breezy._cmd_rs import LockHeldInfo
    me = LockHeldInfo.for_this_process(None)
    _state["host"], _state["user"] = me.hostname, me.user
    _state["steal"] = None


def teardown():
    pass


# ------------------------------------------------------------------ identities

def host_str(code):
    return {"ours": _state["host"], "localhost": "localhost", "other": "verif-other-host", None: None}[code]


def user_str(code):
    return {"ours": _state["user"], "other": "verif-other-user", None: None}[code]


def pid_num(code):
    return {"alive": _state["alivepid"], "dead": _state["deadpid"], None: None}[code]


def info_bytes(nonce, wid):
    lines = []
    if wid.get("pid") is not None:
        lines.append("pid: %d" % pid_num(wid["pid"]))
    if wid.get("user") is not None:
        lines.append("user: %s" % user_str(wid["user"]))
    lines.append("nonce: %s" % nonce)
    if wid.get("host") is not None:
        lines.append("hostname: %s" % host_str(wid["host"]))
    lines.append("start_time:\n  secs_since_epoch: 1700000000\n  nanos_since_epoch: 0")
    return ("\n".join(lines) + "\n").encode()


def rewrite_info(data, wid):
    """What this locker writes: its real LockHeldInfo with the identity fields of `wid`."""
    out = []
    for line in data.decode().split("\n"):
        if line.startswith("pid:"):
            if wid.get("pid") is None:
                continue
            line = "pid: %d" % pid_num(wid["pid"])
        elif line.startswith("user:"):
            if wid.get("user") is None:
                continue
            line = "user: %s" % user_str(wid["user"])
        elif line.startswith("hostname:"):
            if wid.get("host") is None:
                continue
            line = "hostname: %s" % host_str(wid["host"])
        out.append(line)
    return "\n".join(out).encode()


def parse_nonce(data):
    m = re.search(rb"^nonce: (\S+)$", data, re.M)
    return m.group(1).decode() if m else None


# -------------------------------------------------------------------- the sim

class Locker:
    def __init__(self, pid, conf):
        self.pid = pid
        self.prog = list(conf["prog"])
        self.fault = conf.get("fault")
        self.wid = conf["wid"]
        self.opcount = 0
        self.names = {}
        self.ncount = 0
        self.putcount = 0
        self.log = []
        self.state = "running"
        self.dead = False
        self.cmd = None
        self.cmd_broke = False
        self.ld = None
        self.last_renamed_in = False
        self.last_seen = None
        self.saved_bytes = None
        self.exam_acq = None
        self.failed_rename_in = False
        self.in_attempt = False
        self.err = None


class LockerTransport:
    """The proxy handed to LockDir: every transport operation goes through the scheduler."""

    def __init__(self, raw, sim, pid):
        self.__dict__["_raw"] = raw
        self.__dict__["_sim"] = sim
        self.__dict__["_pid"] = pid

    def __getattr__(self, name):
        attr = getattr(self._raw, name)
        if not callable(attr) or name in PASS or name.startswith("_"):
            return attr
        sim, pid = self._sim, self._pid

        def call(*a, **kw):
            return sim.do_op(pid, name, attr, a, kw)
        return call


class Sim:
    def __init__(self, raw, inp):
        self.raw = raw
        self.inp = inp
        self.cv = threading.Condition()
        self.grant = None
        self.aborting = False
        self.lockers = [Locker(i, c) for i, c in enumerate(inp["procs"])]
        self.nonces = {}      # real nonce -> (owner, k)
        self.tnames = {}      # real tmp dir name -> (kind, owner, idx)
        self.events = []      # one per granted step
        self.live = False
        self.wrong = False
        self.chkfault = False
        self.steal_bad = None
        self.nonce_reuse = None
        self.later_bad = None
        self.cur_acq = None     # id of the acquisition (successful rename into place) that produced the current held
        self.acq_n = 0
        self.cur_event = None

    # -- scheduling
    def gate(self, pid):
        L = self.lockers[pid]
        with self.cv:
            L.state = "ready"
            self.cv.notify_all()
            while self.grant != pid and not self.aborting:
                self.cv.wait()
            if self.aborting:
                raise _Abort()
            self.grant = None
            L.state = "running"

    def step(self, pid):
        """Grant one step to locker pid; returns False if it has nothing to do."""
        if pid >= len(self.lockers):
            self.events.append(None)
            return False
        L = self.lockers[pid]
        with self.cv:
            while L.state == "running":
                self.cv.wait()
            if L.state == "done":
                self.events.append(None)
                return False
            self.cur_event = None
            self.grant = pid
            self.cv.notify_all()
            while self.grant == pid or L.state == "running":
                self.cv.wait()
        self.events.append(self.cur_event)
        return True

    # -- naming
    def _tname(self, L, name):
        if name not in L.names:
            base = name
            kind = "releasing" if base.startswith("releasing.") else "broken" if base.startswith("broken.") else "pending"
            L.names[name] = (kind, L.pid, L.ncount)
            L.ncount += 1
            self.tnames[name] = L.names[name]
        return L.names[name]

    def canon_bytes(self, data):
        if data == b"":
            return Tag("empty")
        n = parse_nonce(data)
        if n is None or n not in self.nonces:
            return Tag("corrupt")
        return list(self.nonces[n])

    def canon_info(self, info):
        if info.nonce is None:
            return Tag("empty")
        return list(self.nonces[info.nonce.decode()])

    # -- one transport operation of locker pid
    def do_op(self, pid, name, fn, a, kw):
        self.gate(pid)
        L = self.lockers[pid]
        idx = L.opcount
        L.opcount += 1
        ev = {"pid": pid, "op": name, "cmd": L.cmd, "res": "ok"}
        self.cur_event = ev
        rel = [x.split("/", 1)[1] if isinstance(x, str) and x.startswith("lock/") else x for x in a[:2]]
        kindtag = name
        if name == "rename" and len(rel) == 2:
            if rel[1] == "held":
                kindtag = "rename_in"
                self._tname(L, rel[0])
            elif rel[0] == "held":
                kindtag = "rename_out"
                tn = self._tname(L, rel[1])
                ev["to"] = tn[0]
        elif rel and isinstance(rel[0], str) and rel[0].split("/")[0].endswith(".tmp"):
            self._tname(L, rel[0].split("/")[0])
        ev["k"] = kindtag
        if name == "get_bytes" and rel and rel[0] == "held/info":
            ev["k"] = "get_held"
        a = list(a)
        if name == "put_bytes_non_atomic":
            n = parse_nonce(a[1])
            if n is not None and n not in self.nonces:
                self.nonces[n] = (pid, L.putcount)
            elif n is not None and self.nonce_reuse is None:
                # the model's "nonces are unique by construction" checked on the implementation
                self.nonce_reuse = ("locker %d writes an info file with nonce %r which was already used by acquisition %r"
                                    % (pid, n, self.nonces[n]))
            L.putcount += 1
            a[1] = rewrite_info(a[1], L.wid)
        was_renamed_in = L.last_renamed_in
        L.last_renamed_in = False
        after_failed_rename_in = L.failed_rename_in
        L.failed_rename_in = False
        if L.fault is not None and idx == L.fault:
            ev["res"] = "InjectedFault"
            if kindtag == "rename_in":
                L.failed_rename_in = True
            if ev["k"] == "get_held" and was_renamed_in and L.cmd == "attempt":
                self.chkfault = True
            raise _fault_class()()
        if kindtag == "rename_out" and ev.get("to") == "broken":
            self._before_break(L, ev)
        try:
            r = fn(*a, **kw)
        except Exception as e:
            ev["res"] = type(e).__name__
            if kindtag == "rename_in":
                L.failed_rename_in = True
            if ev["k"] == "get_held" and (L.cmd == "peek" or (L.cmd == "attempt" and after_failed_rename_in)):
                L.exam_acq = None
            raise
        if kindtag == "rename_in":
            L.last_renamed_in = True
            self.acq_n += 1
            self.cur_acq = self.acq_n
        if kindtag == "rename_out":
            self.cur_acq = None
        if ev["k"] == "get_held":
            L.last_seen = r
            if L.cmd == "peek":
                L.saved_bytes = r
            # which ACQUISITION the user (driver's peek) / the steal policy (contention peek) examined
            if L.cmd == "peek" or (L.cmd == "attempt" and after_failed_rename_in):
                L.exam_acq = self.cur_acq
        if kindtag == "rename_out" and ev.get("to") == "broken":
            L.cmd_broke = True
        return r

    def _before_break(self, L, ev):
        """Ghost bookkeeping of the oracle: whose lock is this break about to move?"""
        try:
            data = self.raw.get_bytes("lock/held/info")
        except Exception:
            return
        n = parse_nonce(data)
        ev["victim"] = self.canon_bytes(data)
        # the lock this break is about = what the breaker examined last (force_break re-reads held/info just
        # before the rename; force_break_corrupt relies on the driver's earlier peek)
        examined = L.saved_bytes if L.cmd == "breakcorrupt" else L.last_seen
        if examined is not None and examined != data:
            self.wrong = True
            ev["wrong"] = True
        elif L.exam_acq != self.cur_acq and self.later_bad is None:
            # same bytes as examined, yet a different acquisition: the lock of a LATER holder is being removed
            self.later_bad = ("locker %d breaks acquisition #%r (victim %r) but the holder it examined was acquisition #%r"
                              % (L.pid, self.cur_acq, ev["victim"], L.exam_acq))
        if n in self.nonces:
            o = self.nonces[n][0]
            if o < len(self.lockers):
                V = self.lockers[o]
                if V.ld is not None and V.ld.is_held and not V.dead and getattr(V.ld, "nonce", None) == n.encode():
                    self.live = True
                    ev["live"] = True
        if L.cmd == "attempt":
            # a steal: the policy may only break a holder known to be dead
            from breezy._cmd_rs import LockHeldInfo
            # the holder the policy examined = what this locker last read from held/info
            info = LockHeldInfo.from_info_file_bytes(L.last_seen if L.last_seen is not None else data)
            ev["examined"] = self.canon_bytes(L.last_seen) if L.last_seen is not None else None
            ok = (self.inp["steal"] and info.hostname == _state["host"] and info.hostname != "localhost"
                  and info.user == _state["user"] and info.pid == _state["deadpid"])
            ev["steal"] = True
            if not ok and self.steal_bad is None:
                self.steal_bad = "steal of a lock whose examined holder is not known dead: %r%s" % (
                    ev["examined"], " (the victim is a live locker that still is_held: two live holders can follow)" if ev.get("live") else "")

    # -- the driver of one locker
    def drive(self, L):
        from breezy import errors
        from breezy.lockdir import LockDir
        ld = L.ld
        saved = None
        try:
            for c in L.prog:
                L.cmd = c
                L.cmd_broke = False
                try:
                    if c == "attempt":
                        if ld.is_held:
                            res = Err("Misuse")
                        else:
                            L.in_attempt = True
                            try:
                                ld.attempt_lock()
                            finally:
                                if not self.aborting:
                                    L.in_attempt = False
                            res = Tag("ok")
                    elif c == "unlock":
                        ld.unlock()
                        res = Tag("ok")
                    elif c == "confirm":
                        ld.confirm()
                        res = Tag("ok")
                    elif c == "peek":
                        saved = None
                        try:
                            info = ld.peek()
                        except errors.LockCorrupt as e:
                            saved = ("corrupt", e.file_data)
                            raise
                        saved = ("info", info) if info is not None else ("none", None)
                        res = [Tag("saw"), None if info is None else self.canon_info(info)]
                    elif c == "forcebreak":
                        if saved is not None and saved[0] == "info":
                            ld.force_break(saved[1])
                            res = Tag("ok")
                        else:
                            res = Tag("skip")
                    elif c == "breakcorrupt":
                        if saved is not None and saved[0] == "corrupt":
                            ld.force_break_corrupt(saved[1])
                            res = Tag("ok")
                        else:
                            res = Tag("skip")
                    elif c == "crash":
                        L.dead = True
                        return
                    else:
                        raise ValueError(c)
                except Exception as e:
                    res = Err(type(e).__name__)
                if self.aborting:      # the run is over: an unfinished command has no result
                    return
                L.log.append(res)
        except _Abort:
            pass
        except BaseException as e:  # pragma: no cover
            L.err = repr(e)
        finally:
            with self.cv:
                L.state = "done"
                self.cv.notify_all()

    # -- observation through the raw transport
    def snapshot(self):
        raw = self.raw
        held = None
        tmps = []
        for name in raw.list_dir("lock"):
            try:
                data = raw.get_bytes("lock/%s/info" % name)
                c = self.canon_bytes(data)
            except Exception:
                c = Tag("noinfo")
            if name == "held":
                held = c
            else:
                k = self.tnames.get(name, ("unknown:" + name, 99, 99))
                tmps.append((k[1], k[2], KIND_ORDER.get(k[0], 9), [Tag(k[0]), k[1], k[2], c]))
        tmps.sort(key=lambda t: t[:3])
        flags = [bool(L.ld.is_held) for L in self.lockers]
        return [held, [t[3] for t in tmps], flags]

    def observable(self):
        try:
            n = parse_nonce(self.raw.get_bytes("lock/held/info"))
        except Exception:
            return []
        return [L.pid for L in self.lockers
                if L.ld.is_held and n is not None and getattr(L.ld, "nonce", None) == n.encode()]


def set_steal(flag):
    if _state.get("steal") == flag:
        return
    from breezy import config
    config.GlobalStack().set("locks.steal_dead", bool(flag))
    _state["steal"] = flag


def run_sched(inp):
    """Run one schedule case on real LockDir objects. Returns the full observation dict."""
    import dromedary
    from breezy.lockdir import LockDir
    from dromedary.memory import MemoryTransport
    _state["n"] += 1
    base = None
    if inp["transport"] == "memory":
        raw = MemoryTransport()
    else:
        base = os.path.join(_state["dir"], "ld%d" % _state["n"])
        os.mkdir(base)
        raw = dromedary.get_transport_from_path(base)
    set_steal(inp["steal"])
    raw.mkdir("lock")
    sim = Sim(raw, inp)
    n = len(sim.lockers)
    h0 = inp.get("h0")
    if h0 is not None:
        sim.cur_acq = "initial"
        raw.mkdir("lock/held")
        if h0["c"] == "info":
            sim.nonces["extnonce0extnonce0ab"] = (n, 0)
            raw.put_bytes("lock/held/info", info_bytes("extnonce0extnonce0ab", h0))
        elif h0["c"] == "empty":
            raw.put_bytes("lock/held/info", b"")
        else:
            raw.put_bytes("lock/held/info", CORRUPT)
    threads = []
    for L in sim.lockers:
        L.ld = LockDir(LockerTransport(raw, sim, L.pid), "lock")
        t = threading.Thread(target=sim.drive, args=(L,), daemon=True)
        threads.append(t)
    for t in threads:
        t.start()
    with sim.cv:
        for L in sim.lockers:
            while L.state == "running":
                sim.cv.wait()
    snaps, obsv, lives = [], [], []
    mutex_bad = None
    failed_held = None
    two_holders = None
    try:
        for i, p in enumerate(inp["sched"]):
            sim.step(p)
            s = sim.snapshot()
            snaps.append(s)
            ob = sim.observable()
            obsv.append(ob)
            lives.append(sim.live)
            if mutex_bad is None:
                mutex_bad = check_mutex(sim, i, s)
            if failed_held is None:
                failed_held = check_failed_held(sim, i, s)
            if two_holders is None:
                hs = [L.pid for L in sim.lockers if L.ld.is_held and not L.dead]
                if len(hs) > 1:
                    two_holders = "after step %d lockers %r all believe they hold the lock" % (i, hs)
    finally:
        with sim.cv:
            sim.aborting = True
            sim.cv.notify_all()
        for t in threads:
            t.join(20)
        if base is not None:
            import shutil
            shutil.rmtree(base, ignore_errors=True)
    errs = [L.err for L in sim.lockers if L.err]
    if errs or any(t.is_alive() for t in threads):
        raise RuntimeError("locker thread problem: %r" % errs)
    return {
        "trace": snaps,
        "logs": [list(L.log) for L in sim.lockers],
        "observable": obsv[-1] if obsv else [],
        "flags": [sim.live, sim.wrong, sim.chkfault],
        "events": sim.events,
        "max_observable": max([len(o) for o in obsv] or [0]),
        "mutex_bad": mutex_bad,
        "failed_held": failed_held,
        "final_is_held": [bool(L.ld.is_held) for L in sim.lockers],
        "steal_bad": sim.steal_bad,
        "nonce_reuse": sim.nonce_reuse,
        "two_holders": two_holders,
        "later_bad": sim.later_bad,
        "final_held_nonce_owner": snaps[-1][0] if snaps else None,
    }


def check_mutex(sim, i, snap):
    """C26 on the implementation: unless a live holder's lock was broken, every live locker that
    believes it holds the lock really is the one recorded in held/info (hence at most one)."""
    if sim.live:
        return None
    try:
        n = parse_nonce(sim.raw.get_bytes("lock/held/info"))
    except Exception:
        n = None
    holders = [L for L in sim.lockers if L.ld.is_held and not L.dead]
    for L in holders:
        if n is None or getattr(L.ld, "nonce", None) != n.encode():
            return ("after step %d locker %d believes it holds the lock but held/info is %r "
                    "and no live holder's lock was broken" % (i, L.pid, snap[0]))
    if len(holders) > 1:
        return "after step %d lockers %r all hold the lock" % (i, [L.pid for L in holders])
    return None


FAILED_HELD_MSG = "a failed acquisition left the lock held by the failing process"


def check_failed_held(sim, i, snap):
    """C27 on the implementation: held/info never names a locker whose attempt_lock is over and
    that does not believe it holds the lock."""
    try:
        n = parse_nonce(sim.raw.get_bytes("lock/held/info"))
    except Exception:
        return None
    if n not in sim.nonces:
        return None
    o = sim.nonces[n][0]
    if o >= len(sim.lockers):
        return None
    V = sim.lockers[o]
    if V.ld.is_held or V.in_attempt:
        return None
    return "%s: after step %d held/info carries the nonce of locker %d whose attempt_lock is over and whose is_held is False" % (
        FAILED_HELD_MSG, i, o)


def model_obs(full):
    """The projection the model predicts (run_case)."""
    return [full["trace"], full["logs"], full["observable"], full["flags"]]


# ------------------------------------------------------------- Coq literals

HOSTC = {"localhost": 0, "ours": 1, "other": 2}
USERC = {"ours": 1, "other": 2}
PIDC = {"alive": 10, "dead": 11}


def our_host_code():
    return 0 if _state.get("host") == "localhost" else 1


def coq_optN(v, table):
    return "None" if v is None else "(Some %d%%N)" % table[v]


def coq_hinfo(w):
    host = w.get("host")
    hc = "None" if host is None else "(Some %d%%N)" % (our_host_code() if host == "ours" else HOSTC[host])
    return "{| h_host := %s; h_user := %s; h_pid := %s |}" % (hc, coq_optN(w.get("user"), USERC), coq_optN(w.get("pid"), PIDC))


def coq_env(steal):
    return "{| e_host := %d%%N; e_user := 1%%N; e_dead := [11%%N]; e_steal := %s |}" % (
        our_host_code(), "true" if steal else "false")


def coq_conf(c, steal):
    prog = "[" + "; ".join(CMDS[x] for x in c["prog"]) + "]"
    f = "None" if c.get("fault") is None else "(Some %d%%nat)" % c["fault"]
    return "{| c_prog := %s; c_fault := %s; c_wid := %s; c_env := %s |}" % (prog, f, coq_hinfo(c["wid"]), coq_env(steal))


def coq_h0(h0, n):
    if h0 is None:
        return "None"
    if h0["c"] == "info":
        return "(Some (CInfo (%d%%nat, 0%%nat) %s))" % (n, coq_hinfo(h0))
    if h0["c"] == "empty":
        return "(Some CEmpty)"
    return "(Some (CCorrupt 0%N))"


def sched_term(inp):
    n = len(inp["procs"])
    confs = "[" + "; ".join(coq_conf(c, inp["steal"]) for c in inp["procs"]) + "]"
    sched = "[" + "; ".join("%d%%nat" % p for p in inp["sched"]) + "]"
    return "run_case %s %s %s %s" % ("true" if inp["transport"] == "memory" else "false", coq_h0(inp.get("h0"), n), confs, sched)


def dead_term(inp):
    return "run_dead %s %s" % (coq_env(True), coq_hinfo(inp))


def run_dead(inp):
    from breezy._cmd_rs import LockHeldInfo
    info = LockHeldInfo.from_info_file_bytes(info_bytes("n0", inp))
    return bool(info.is_lock_holder_known_dead())


OURS = {"host": "ours", "user": "ours", "pid": "alive"}
DEADW = {"host": "ours", "user": "ours", "pid": "dead"}


def P(prog, fault=None, wid=None):
    return {"prog": list(prog), "fault": fault, "wid": dict(wid or OURS)}


def case(procs, sched, transport="memory", steal=False, h0=None):
    return {"kind": "sched", "transport": transport, "steal": steal, "h0": h0, "procs": procs, "sched": list(sched)}


def ops_of(cmd):
    """upper bound of the number of steps of one command"""
    return {"attempt": 12, "unlock": 5, "confirm": 1, "peek": 1, "forcebreak": 5, "breakcorrupt": 4, "crash": 0}[cmd]
