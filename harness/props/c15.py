"""C15 -- Shelving and unshelving restore exactly the shelved changes (tie H, three layers).

kinds of cases
  ids    : file names in a real shelf directory -> ShelfManager.get_shelf_ids / last_shelf / new_shelf
  idops  : a sequence of new_shelf / delete_shelf / read_shelf on a real ShelfManager
  hunks  : one text file with target text a and work text b in a real 2a tree; a real
           shelf_ui.Shelver with scripted prompt_bool answers runs _select_hunks (real DiffText,
           parse_patch, iter_patched_from_hunks), shelve_lines, ShelfManager.shelve_changes and the
           Unshelver merge; observed: hunk positions, lines, change_count, adjusted mod_pos, shelf text
           (the _inverse_lines result as stored in the shelf) and the text after unshelving
  tree   : abstract basis tree + work tree (entries id/parent/name/kind/content/exec) built as a real
           2a working tree with pending changes; a subset of the changes iter_shelvable offers is
           shelved through ShelfCreator (no UI), stored with ShelfManager.shelve_changes and
           unshelved with Unshelver.make_merger().do_merge(); observed: offered changes, tree
           after shelve (or the error), tree after unshelve
The oracle checks the property itself on the observations (independent of the Coq model).
"""
import atexit
import io
import itertools
import os
import shutil
import tempfile

from vlib import Err, Tag, coq_bool, coq_bytes, coq_list, coq_N, coq_nat

PROP = "C15"
COQ = {
    "property_file": "Properties/C15.v",
    "imports": ("From BV Require Import Lib.Bytes Model.Patch Model.ShelfIds Model.ShelfLines Model.ShelfTree."),
}
META = {
    "level": "proof",
    "title": "Shelving and unshelving restore exactly the shelved changes",
    "technique": ("Coq theorems over three hand models (shelf id state machine; hunk selection on the C39 patch model; "
                  "per-id field algebra of shelve/unshelve on abstract trees) + correspondence on real 2a working "
                  "trees, a real ShelfManager and a real Shelver with scripted answers"),
    "level_text": ("Proved (unbounded): shelf ids -- new id = 1 + max live (1 if none) at any point of any operation "
                   "sequence, live ids stay unique, delete removes exactly one id and renumbers nothing, shelves "
                   "survive until deleted, the file-name/regex level refines the id machine, and only whole names "
                   "shelf-N are shelves (fullmatch, 56cc459). Hunk selection -- "
                   "for every pair of texts, accepted opcode list, context size and answer sequence _select_hunks "
                   "never conflicts and leaves exactly the not-shelved hunks (both diff directions). Tree level -- "
                   "frame, 'removes exactly' per id and field under an executable guard with a machine-checked "
                   "refutation of the unguarded statement (executable bit), unshelve o shelve = id on location/"
                   "kind/content. partial: the text round trip is conditional on merge3 merging disjoint segment "
                   "edits cleanly (correspondence fact); executable bits after unshelve and ill-formed shelf "
                   "previews are outside the model (checked by the oracle only)."),
    "level_note": ("Trusted: Coq kernel, vm_compute, the hand models' correspondence (bounded sampling), merge3/"
                   "patiencediff/re as exercised, the tree builder of the harness."),
    "design_ref": "DESIGN.md §5 C15",
    "trusted_base": ["hand models coq/Model/ShelfIds.v, ShelfLines.v (on Model/Patch.v of C39), ShelfTree.v",
                     "correspondence harness harness/props/c15.py (tree builder, snapshots, scripted Shelver)"],
    "assumptions": ["POSIX file system with symlinks and executable bits; bzr 2a working tree (dirstate format 6)",
                    "merge3 + patiencediff merge edits of disjoint diff segments cleanly (seg_correct; compared on every hunks case)",
                    "Python re.match / int / sorted / %d as modelled by match_shelf / parse_dec / list_max / print_dec",
                    "the sequence matcher's opcodes are an input of the hunk model (checked by valid_opcodes, C39)",
                    "no unversioned files in the tree (shelve_deletion's existing_path branch is never taken); per id, selected changes are applied in iter_shelvable order",
                    "shelf directory contains only what the test put there"],
    "rule": ("ids: all subsets (<=3) of a pool of well- and ill-formed names (incl. 9/10/11); idops: all operation "
             "sequences up to length 4 + random longer ones, also starting from 8-13 live shelves; tree cases also with "
             "an intermediate commit (shelve against the older revision rev-1, unshelve); hunks: texts of 9-18 lines with 1-4 separated edits x all answer "
             "subsets (<=4 hunks); tree: a fixed all-kinds tree x all subsets of its changes + random tree pairs x "
             "random subsets; non-trivial = at least one change shelved / one id allocated"),
}
SHARD = 100

_state = {"dir": None, "n": 0, "own": None}
TAGS = {"add": 0, "del": 1, "ren": 2, "kind": 3, "text": 4, "target": 5}
CTAG = ["CAdd", "CDel", "CRen", "CKind", "CText", "CTarget"]
REAL = {"add file": "add", "delete file": "del", "rename": "ren", "change kind": "kind",
        "modify text": "text", "modify target": "target"}


# ----------------------------------------------------------------------------- scratch handling
def setup(scratch):
    import breezy
    import breezy.bzr  # noqa
    from breezy import trace
    trace.be_quiet(True)
    _state.update(dir=scratch, n=0, own=None)


def teardown():
    if _state.get("own"):
        shutil.rmtree(_state["own"], ignore_errors=True)
    _state.update(dir=None, own=None)


def _fresh():
    if _state["dir"] is None or not os.path.isdir(_state["dir"]):
        import breezy
        import breezy.bzr  # noqa
        if _state.get("own"):
            shutil.rmtree(_state["own"], ignore_errors=True)
        _state["own"] = tempfile.mkdtemp(prefix="verif-c15-")
        _state["dir"] = _state["own"]
        atexit.register(shutil.rmtree, _state["own"], True)
    _state["n"] += 1
    return os.path.join(_state["dir"], "c%d" % _state["n"])


# ----------------------------------------------------------------------------- abstract trees (Python spec side)
def tmap(t):
    return {e[0]: list(e) for e in t}


def wf(m):
    seen = set()
    for i, e in m.items():
        if i == 0:
            return False
        if e[1] != 0 and (e[1] not in m or m[e[1]][3] != "d"):
            return False
        if (e[1], e[2]) in seen:
            return False
        seen.add((e[1], e[2]))
    for i in m:
        j, n = i, 0
        while j != 0:
            j = m[j][1]
            n += 1
            if n > len(m):
                return False
    return True


def path_of(m, i):
    parts, n = [], 0
    while i != 0:
        parts.append(m[i][2])
        i = m[i][1]
        n += 1
        if n > len(m) + 1:
            return None
    return "/".join(reversed(parts))


def spec_offered(basis, wt):
    b, w = tmap(basis), tmap(wt)
    out = []
    for i in sorted(set(b) | set(w)):
        if i not in b:
            out.append(("add", i))
        elif i not in w:
            out.append(("del", i))
        else:
            eb, ew = b[i], w[i]
            moved = (eb[1], eb[2]) != (ew[1], ew[2])
            if moved:
                out.append(("ren", i))
            if eb[3] != ew[3]:
                out.append(("kind", i))
            elif eb[3] == "l":
                if moved or eb[4] != ew[4]:
                    out.append(("target", i))
            elif eb[3] == "f" and eb[4] != ew[4]:
                out.append(("text", i))
    return out


def spec_shelve(basis, wt, sel):
    """expected (work tree, shelf preview tree) as dicts, exec of the work side = what a correct
    implementation would give (the selected fields exactly as in the basis)"""
    b, w0 = tmap(basis), tmap(wt)
    w = {i: list(e) for i, e in w0.items()}
    s = {i: list(e) for i, e in b.items()}
    for (t, i) in sel:
        if t == "ren":
            w[i][1], w[i][2] = b[i][1], b[i][2]
            s[i][1], s[i][2] = w0[i][1], w0[i][2]
        elif t in ("target", "text", "kind"):
            w[i][3], w[i][4] = b[i][3], b[i][4]
            s[i][3], s[i][4] = w0[i][3], w0[i][4]
        elif t == "add":
            del w[i]
            s[i] = list(w0[i])
        elif t == "del":
            w[i] = list(b[i])
            del s[i]
    return w, s


def delta(basis_m, t_m):
    """set of (id, field) on which the tree differs from the basis"""
    out = set()
    for i in set(basis_m) | set(t_m):
        eb, et = basis_m.get(i), t_m.get(i)
        if eb is None or et is None:
            out.add((i, "exist"))
            continue
        if (eb[1], eb[2]) != (et[1], et[2]):
            out.add((i, "loc"))
        if (eb[3], eb[4]) != (et[3], et[4]):
            out.add((i, "content"))
        if eb[3] == "f" and et[3] == "f" and bool(eb[5]) != bool(et[5]):
            out.add((i, "exec"))
    return out


FIELD = {"add": "exist", "del": "exist", "ren": "loc", "kind": "content", "text": "content", "target": "content"}


# ----------------------------------------------------------------------------- real trees
def _fid(i):
    return b"i%d" % i


def _unfid(b):
    return int(b[1:])


def _put(abspath, kind, content, ex):
    if kind == "d":
        os.mkdir(abspath)
    elif kind == "f":
        with open(abspath, "wb") as f:
            f.write(content)
        os.chmod(abspath, 0o755 if ex else 0o644)
    else:
        os.symlink(content.decode(), abspath)


def _rm(abspath):
    if os.path.islink(abspath) or os.path.isfile(abspath):
        os.unlink(abspath)
    else:
        shutil.rmtree(abspath)


def _depth(m, i):
    d = 0
    while i != 0:
        i = m[i][1]
        d += 1
    return d


def build(base, basis, wtree, mid=None):
    """a real 2a working tree whose first revision rev-1 is [basis] and whose working state is
    [wtree]; with [mid] a second revision rev-2 (= the tree's basis) holding [mid] is committed in
    between, so that rev-1 is an OLDER revision than the basis"""
    from breezy import controldir
    wt = controldir.ControlDir.create_standalone_workingtree(
        base, format=controldir.format_registry.make_controldir("2a"))
    wt.set_root_id(b"i0")
    bm = tmap(basis)
    for e in sorted(basis, key=lambda e: _depth(bm, e[0])):
        p = path_of(bm, e[0])
        _put(os.path.join(base, p), e[3], bytes(e[4]), e[5])
        wt.add([p], ids=[_fid(e[0])])
    wt.commit("basis", rev_id=b"rev-1")
    if mid is not None:
        _morph(wt, base, basis, mid)
        wt.commit("mid", rev_id=b"rev-2")
        _morph(wt, base, mid, wtree)
    else:
        _morph(wt, base, basis, wtree)
    return wt


def _morph(wt, base, basis, wtree):
    """turn the working state [basis] into [wtree] with versioned renames/removes/adds"""
    bm, wm = tmap(basis), tmap(wtree)
    for i in sorted(bm):
        if i in wm and (bm[i][1], bm[i][2]) != (wm[i][1], wm[i][2]):
            wt.rename_one(wt.id2path(_fid(i)), "tmp-%d" % i)
    for i in sorted((i for i in bm if i not in wm), key=lambda i: -_depth(bm, i)):
        p = wt.id2path(_fid(i))
        wt.remove([p], keep_files=False, force=True)
        if os.path.lexists(os.path.join(base, p)):
            _rm(os.path.join(base, p))
    for e in sorted(wtree, key=lambda e: _depth(wm, e[0])):
        i = e[0]
        final = path_of(wm, i)
        if i not in bm:
            _put(os.path.join(base, final), e[3], bytes(e[4]), e[5])
            wt.add([final], ids=[_fid(i)])
        else:
            cur = wt.id2path(_fid(i))
            if cur != final:
                wt.rename_one(cur, final)
            b = bm[i]
            ap = os.path.join(base, final)
            if (b[3], bytes(b[4])) != (e[3], bytes(e[4])):
                if b[3] == "f" and e[3] == "f":
                    with open(ap, "wb") as f:
                        f.write(bytes(e[4]))
                elif not (b[3] == "d" and e[3] == "d"):
                    _rm(ap)
                    _put(ap, e[3], bytes(e[4]), e[5])
            if e[3] == "f":
                os.chmod(ap, 0o755 if e[5] else 0o644)


def snap(wt):
    out = []
    with wt.lock_read():
        for path, ie in wt.iter_entries_by_dir():
            if path == "":
                continue
            k = wt.kind(path) if os.path.lexists(wt.abspath(path)) else None
            c, ex = b"", False
            if k == "file":
                c = wt.get_file_text(path)
                ex = bool(wt.is_executable(path))
            elif k == "symlink":
                c = wt.get_symlink_target(path).encode()
            kk = {"file": "f", "directory": "d", "symlink": "l", None: "-"}[k]
            out.append([_unfid(ie.file_id), _unfid(ie.parent_id), ie.name, kk, c, ex])
    return sorted(out)


class _FullDisk:
    """the shelf file object new_shelf() returns, failing with ENOSPC once [room] bytes are written"""

    def __init__(self, real, room):
        self._real, self._room = real, room

    def write(self, data):
        if len(data) > self._room:
            self._room = 0
            import errno
            raise OSError(errno.ENOSPC, "No space left on device")
        self._room -= len(data)
        return self._real.write(data)

    def close(self):
        self._real.close()

    def __getattr__(self, name):
        return getattr(self._real, name)


def _run_tree(inp):
    from breezy import shelf
    basis, wtree = inp["basis"], inp["wt"]
    sel = {(t, i) for t, i in inp["sel"]}
    base = _fresh()
    try:
        wt = build(base, basis, wtree, inp.get("mid"))
        before = snap(wt)
        if before != sorted([e[0], e[1], e[2], e[3], bytes(e[4]), bool(e[5])] for e in wtree):
            return Err("BuilderMismatch")
        bm = tmap(basis)
        sid, err, offered = None, None, []
        mgr = wt.get_shelf_manager()
        if inp.get("fault") is not None:
            real_new_shelf, room = mgr.new_shelf, int(inp["fault"])

            def faulty_new_shelf():
                n, f = real_new_shelf()
                return n, _FullDisk(f, room)
            mgr.new_shelf = faulty_new_shelf
        with wt.lock_tree_write():
            # shelve -r rev-1 when an intermediate revision exists, else against the basis
            target = (wt.branch.repository.revision_tree(b"rev-1") if inp.get("mid") is not None
                      else wt.basis_tree())
            creator = shelf.ShelfCreator(wt, target)
            try:
                try:
                    for c in creator.iter_shelvable():
                        t, i = REAL[c[0]], _unfid(c[1])
                        offered.append([i, TAGS[t]])
                        if (t, i) in sel:
                            if t == "text" and inp.get("textmode", "lines") == "lines":
                                # what Shelver does for --all: shelve_lines(target lines)
                                from breezy import osutils
                                creator.shelve_lines(c[1], osutils.split_lines(bytes(bm[i][4])))
                            else:
                                creator.shelve_change(c)
                    sid = mgr.shelve_changes(creator)
                except BaseException as e:  # noqa  (pyo3 panics are BaseException)
                    err = type(e).__name__
            finally:
                creator.finalize()
        try:
            after = snap(wt)
        except BaseException as e:  # noqa
            after = Err("TreeUnreadable:" + type(e).__name__)
        shelves = mgr.active_shelves()
        if sid is None:
            return [sorted(offered), Err(err), after, shelves, None, None]
        uerr = None
        with wt.lock_tree_write():
            try:
                u = mgr.get_unshelver(sid)
                try:
                    u.make_merger().do_merge()
                finally:
                    u.finalize()
            except BaseException as e:  # noqa
                uerr = type(e).__name__
        try:
            unsh = snap(wt)
        except BaseException as e:  # noqa
            unsh = Err("TreeUnreadable:" + type(e).__name__)
        nconf = len(wt.conflicts()) if not isinstance(unsh, Err) else -1
        return [sorted(offered), None, after, shelves, (Err(uerr) if uerr else nconf), unsh]
    finally:
        shutil.rmtree(base, ignore_errors=True)


# ----------------------------------------------------------------------------- hunks on a real Shelver
def _run_hunks(inp):
    from breezy import controldir, patches, shelf, shelf_ui
    a = [bytes(x) for x in inp["a"]]
    b = [bytes(x) for x in inp["b"]]
    answers = list(inp["answers"])
    invert = bool(inp["invert"])
    base = _fresh()
    try:
        wt = controldir.ControlDir.create_standalone_workingtree(
            base, format=controldir.format_registry.make_controldir("2a"))
        with open(base + "/f", "wb") as f:
            f.writelines(a)
        wt.add(["f"], ids=[b"f-id"])
        wt.commit("basis", rev_id=b"rev-1")
        with open(base + "/f", "wb") as f:
            f.writelines(b)
        script = list(answers)

        class Scripted(shelf_ui.Shelver):
            def prompt_bool(self, question, allow_editor=False):
                return script.pop(0) if script else False

        captured = {}
        real_ipfh = patches.iter_patched_from_hunks

        def spy(orig_lines, hunks):
            hunks = list(hunks)
            captured["mod_pos"] = [h.mod_pos for h in hunks]
            return real_ipfh(orig_lines, hunks)

        reporter = shelf_ui.ApplyReporter() if invert else shelf_ui.ShelfReporter()
        shelver = Scripted(wt, wt.basis_tree(), diff_writer=io.BytesIO(), reporter=reporter)
        try:
            creator = shelf.ShelfCreator(wt, shelver.target_tree, None)
            try:
                parsed = shelver.get_parsed_patch(b"f-id", invert)
                hpos = [[h.orig_pos, h.mod_pos] for h in parsed.hunks]
                patches.iter_patched_from_hunks = spy
                try:
                    try:
                        lines, count = shelver._select_hunks(creator, b"f-id", b)
                        lines = list(lines)
                    except patches.PatchConflict:
                        return [hpos, Err("PatchConflict"), None, None, None, None]
                finally:
                    patches.iter_patched_from_hunks = real_ipfh
                if invert or count == 0:
                    return [hpos, lines, count, captured.get("mod_pos", []), None, None]
                creator.shelve_lines(b"f-id", lines)
                mgr = wt.get_shelf_manager()
                sid = mgr.shelve_changes(creator)
            finally:
                creator.finalize()
        finally:
            shelver.finalize()
        with open(base + "/f", "rb") as f:
            tree_lines = f.readlines()
        if tree_lines != lines:
            return Err("TreeTextDiffersFromSelectHunks")
        with wt.lock_tree_write():
            u = mgr.get_unshelver(sid)
            try:
                pv = u.transform.get_preview_tree()
                shelf_lines = pv.get_file_lines("f")
                u.make_merger().do_merge()
            finally:
                u.finalize()
        with open(base + "/f", "rb") as f:
            unsh = f.readlines()
        if len(wt.conflicts()):
            unsh = Err("Conflicts")
        return [hpos, lines, count, captured.get("mod_pos", []), shelf_lines, unsh]
    finally:
        shutil.rmtree(base, ignore_errors=True)


# ----------------------------------------------------------------------------- ids on a real ShelfManager
def _manager(names):
    from breezy import shelf, transport
    base = _fresh()
    os.makedirs(base)
    mgr = shelf.ShelfManager(None, transport.get_transport(base))
    for n in names:
        with open(os.path.join(base, "shelf", n), "wb") as f:
            f.write(b"x")
    return base, mgr


def _run_ids(inp):
    names = list(inp["names"])
    base, mgr = _manager(names)
    try:
        ids = mgr.get_shelf_ids(names)
        last = mgr.last_shelf()
        nxt, f = mgr.new_shelf()
        f.close()
        return [ids, last, nxt]
    finally:
        shutil.rmtree(base, ignore_errors=True)


def _run_idops(inp):
    from breezy import shelf
    from dromedary import errors as derrors
    base, mgr = _manager(list(inp["names"]))
    try:
        out = []
        for op in inp["ops"]:
            if op[0] == "new":
                n, f = mgr.new_shelf()
                f.close()
                out.append(n)
            elif op[0] == "del":
                try:
                    mgr.delete_shelf(op[1])
                    out.append(Tag("ok"))
                except derrors.NoSuchFile:
                    out.append(Err("NoSuchFile"))
            else:
                try:
                    mgr.read_shelf(op[1]).close()
                    out.append(Tag("ok"))
                except shelf.NoSuchShelfId:
                    out.append(Err("NoSuchShelfId"))
        return [out, mgr.active_shelves()]
    finally:
        shutil.rmtree(base, ignore_errors=True)


def impl(inp):
    return {"ids": _run_ids, "idops": _run_idops, "hunks": _run_hunks, "tree": _run_tree}[inp["kind"]](inp)


# ----------------------------------------------------------------------------- model terms
def _coq_lines(ls):
    return coq_list([coq_bytes(bytes(x)) for x in ls])


def _opcodes(a, b):
    import patiencediff
    m = patiencediff.PatienceSequenceMatcher(None, a, b)
    tg = {"equal": "TEqual", "replace": "TReplace", "delete": "TDelete", "insert": "TInsert"}
    return coq_list(["(Op %s %d %d %d %d)" % (tg[t], i1, i2, j1, j2) for t, i1, i2, j1, j2 in m.get_opcodes()])


def _coq_entry(e):
    k = {"f": "(KFile %s)" % coq_bytes(bytes(e[4])), "d": "KDir", "l": "(KLink %s)" % coq_bytes(bytes(e[4]))}[e[3]]
    return "(%s, Entry %s %s %s %s)" % (coq_N(e[0]), coq_N(e[1]), coq_bytes(e[2]), k, coq_bool(e[5]))


def model_term(inp):
    k = inp["kind"]
    if k == "ids":
        return "run_ids %s" % coq_list([coq_bytes(n) for n in inp["names"]])
    if k == "idops":
        ops = coq_list([{"new": "ONew", "del": "(ODelete %s)", "read": "(ORead %s)"}[o[0]] % (() if o[0] == "new" else (coq_N(o[1]),))
                        for o in inp["ops"]])
        return "run_idops %s %s" % (coq_list([coq_bytes(n) for n in inp["names"]]), ops)
    if k == "hunks":
        a = [bytes(x) for x in inp["a"]]
        b = [bytes(x) for x in inp["b"]]
        ops = _opcodes(b, a) if inp["invert"] else _opcodes(a, b)
        return "run_hunks %s %s %s %s 3%%nat %s" % (coq_bool(inp["invert"]), _coq_lines(a), _coq_lines(b), ops,
                                                  coq_list([coq_bool(x) for x in inp["answers"]]))
    dom = sorted({e[0] for e in inp["basis"]} | {e[0] for e in inp["wt"]})
    sel = coq_list(["(%s, %s)" % (CTAG[TAGS[t]], coq_N(i)) for t, i in inp["sel"]])
    return "run_tree %s %s %s %s %s" % (coq_bool(inp.get("fault") is not None), coq_list([coq_N(i) for i in dom]),
                                     coq_list([_coq_entry(e) for e in inp["basis"]]),
                                     coq_list([_coq_entry(e) for e in inp["wt"]]), sel)


# ----------------------------------------------------------------------------- what the model predicts
def _shelf_wf(inp):
    _, s = spec_shelve(inp["basis"], inp["wt"], [tuple(x) for x in inp["sel"]])
    return wf(s)


def _mask(tree, touched):
    return [[e[0], e[1], e[2], e[3], e[4], bool(e[5]) and e[0] not in touched] for e in tree]


def impl_obs(inp, obs):
    if inp["kind"] != "tree" or isinstance(obs, Err):
        return obs
    offered, err, after, shelves, ures, unsh = obs
    if not _shelf_wf(inp):
        return [offered, Tag("shelf-not-wf"), None, None]
    if err is not None:
        return [offered, err, shelves, after]
    if isinstance(ures, Err) or isinstance(unsh, Err) or ures != 0:
        return [offered, after, shelves, Tag("conflict")]
    touched = {i for _, i in inp["sel"]}
    return [offered, after, shelves, _mask(unsh, touched)]


# ----------------------------------------------------------------------------- oracle: the property itself
def _canon_name(n):
    import re
    return re.fullmatch(r"shelf-([1-9][0-9]*)", n) is not None


def oracle(inp, obs):
    if isinstance(obs, Err):
        return "driver error " + str(obs)
    k = inp["kind"]
    if k == "ids":
        ids, last, nxt = obs
        want = [int(n[6:]) for n in inp["names"] if _canon_name(n)]
        if ids != want:
            return "ids: get_shelf_ids(%r) = %r, the shelves present are %r" % (inp["names"], ids, want)
        if last != (max(want) if want else None) or nxt != (max(want) + 1 if want else 1):
            return "ids: last_shelf/new_shelf %r/%r for shelves %r" % (last, nxt, want)
        return None
    if k == "idops":
        live = {int(n[6:]) for n in inp["names"] if _canon_name(n)}
        if any(not _canon_name(n) for n in inp["names"]):
            return None      # ill-formed names are judged by the ids kind
        res, final = obs
        for op, r in zip(inp["ops"], res):
            if op[0] == "new":
                if r in live or any(r <= m for m in live) or r != (max(live) + 1 if live else 1):
                    return "idops: new_shelf returned %r while %r are live" % (r, sorted(live))
                live.add(r)
            elif op[0] == "del":
                if (op[1] in live) != (r == Tag("ok")):
                    return "idops: delete_shelf(%d) -> %r while %r are live" % (op[1], r, sorted(live))
                live.discard(op[1])
            else:
                if (op[1] in live) != (r == Tag("ok")):
                    return "idops: read_shelf(%d) -> %r while %r are live" % (op[1], r, sorted(live))
        if final != sorted(live):
            return "idops: shelves present %r, expected %r" % (final, sorted(live))
        return None
    if k == "hunks":
        hpos, lines, count, modpos, shelf_lines, unsh = obs
        if isinstance(lines, Err):
            return "hunks: _select_hunks raised %s on the tree's own diff" % lines
        a = [bytes(x) for x in inp["a"]]
        b = [bytes(x) for x in inp["b"]]
        ans = (list(inp["answers"]) + [False] * len(hpos))[:len(hpos)]
        if count != sum(ans):
            return "hunks: change_count %r for answers %r" % (count, ans)
        if inp["invert"]:
            if all(ans) and lines != a:
                return "hunks: applying every hunk of the inverted diff does not give the target text"
            if not any(ans) and lines != b:
                return "hunks: applying no hunk changes the work text"
            return None
        if all(ans) and lines != a:
            return "hunks: shelving every hunk does not leave the target text"
        if not any(ans) and lines != b:
            return "hunks: shelving nothing changes the work text"
        if count == 0:
            return None
        if isinstance(unsh, Err) or unsh != b:
            return "hunks: roundtrip: text after unshelve differs from the work text (%r)" % (unsh,)
        if all(ans) and shelf_lines != b:
            return "hunks: shelf text is not the work text although every hunk was shelved"
        return None
    # tree
    offered, err, after, shelves, ures, unsh = obs
    basis, wtree = inp["basis"], inp["wt"]
    sel = [tuple(x) for x in inp["sel"]]
    bm, wm = tmap(basis), tmap(wtree)
    for e in bm.values():
        e[4] = bytes(e[4])
    for e in wm.values():
        e[4] = bytes(e[4])
    exp_w, exp_s = spec_shelve(basis, wtree, sel)
    if isinstance(after, Err):
        return "tree: corrupt: working tree unreadable after shelve (%s)" % after
    am = tmap(after)
    if err is not None:
        # a failed shelve must leave the changes where they were: in the tree
        if am != wm:
            return ("tree: lost: shelve raised %s after changing the tree (shelves left: %r): the removed changes "
                    "are neither in the tree nor on a usable shelf" % (err, shelves))
        if shelves:
            return "tree: stale-shelf: shelve raised %s but left shelf file(s) %r behind" % (err, shelves)
        if inp.get("fault") is not None:
            return None          # the injected write fault is a legitimate reason to refuse
        if wf(exp_w):
            return "tree: refused: shelve raised %s although the selected changes can be removed on their own" % err
        return None
    if inp.get("fault") is not None:
        return "tree: fault: the shelf file could not be written but shelve_changes reported success"
    want = delta(bm, wm) - {(i, FIELD[t]) for t, i in sel}
    got = delta(bm, am)
    if got != want:
        only_exec = all(f == "exec" for _, f in got ^ want)
        return "tree: %sshelve does not remove exactly the selected changes: differences to basis %r, expected %r" % (
            "exec: " if only_exec else "", sorted(got), sorted(want))
    if shelves != [1]:
        return "tree: shelf ids after the first shelve: %r" % (shelves,)
    if isinstance(ures, Err):
        return "tree: unshelve-error: unshelving onto the unchanged tree raised %s" % ures
    if isinstance(unsh, Err):
        return "tree: corrupt: working tree unreadable after unshelve (%s)" % unsh
    um = tmap(unsh)
    if um != wm:
        diff = [i for i in set(um) | set(wm) if um.get(i) != wm.get(i)]
        only_exec = all(i in um and i in wm and um[i][:5] == wm[i][:5] for i in diff)
        return "tree: %sroundtrip: tree after unshelve differs from the tree before shelve at ids %r" % (
            "exec: " if only_exec else "", sorted(diff))
    if ures != 0:
        return "tree: unshelve-conflicts: %d conflicts reported although the tree was restored" % ures
    return None


def _touched_exec(inp):
    touched = {i for _, i in inp["sel"]}
    # with an intermediate commit the dirstate's recorded bit comes from rev-2 (mid)
    return any(e[0] in touched and e[3] == "f" and e[5]
               for e in list(inp["basis"]) + list(inp["wt"]) + list(inp.get("mid") or []))


def finding_matches(fid, inp, obs, why):
    why = why or ""
    if inp["kind"] != "tree":
        return False
    if fid == "C15-exec-bit":
        return why.startswith("tree: exec: ") and _touched_exec(inp)
    if fid == "C15-open-selection":
        return (not _shelf_wf(inp)) and (why.startswith("tree: unshelve") or "roundtrip" in why
                                         or why.startswith("tree: corrupt") or why.startswith("tree: refused"))
    return False


# ----------------------------------------------------------------------------- generators
POOL = ["shelf-1", "shelf-2", "shelf-10", "shelf-9", "shelf-11", "shelf-01", "shelf-0", "shelf-", "shelf-1x", "shelf-12.bak",
        "xshelf-1", "Shelf-1", "shelf-007", "shelf-3~", "shelf--1", "shelf-20"]
NAMES = ["a", "b", "c"]

ALLKINDS_BASIS = [[1, 0, "m", "f", b"1\n2\n3\n", False], [2, 0, "d", "d", b"", False], [3, 2, "r", "f", b"r\n", False],
                  [4, 0, "k", "f", b"k\n", False], [5, 0, "l", "l", b"t1", False], [6, 0, "x", "f", b"x\n", False],
                  [7, 2, "g", "f", b"g\n", False]]
ALLKINDS_WT = [[1, 0, "m", "f", b"1\nX\n3\n", False], [2, 0, "d", "d", b"", False], [3, 0, "r2", "f", b"r\n", False],
               [4, 0, "k", "d", b"", False], [5, 0, "l", "l", b"t2", False], [6, 0, "x", "f", b"x\n", True],
               [8, 2, "n", "f", b"n\n", False]]


ALLKINDS_MID = [[1, 0, "m", "f", b"1\n2\n3\n4\n", False], [2, 0, "d", "d", b"", False], [3, 2, "r", "f", b"r\n", False],
                [4, 0, "k", "f", b"k\n", False], [5, 0, "l", "l", b"t1", False], [6, 0, "x", "f", b"x\n", False],
                [7, 2, "gg", "f", b"g\n", False], [9, 0, "z", "f", b"z\n", False]]


def _many(n):
    return ["shelf-%d" % k for k in range(1, n + 1)]


def corpus():
    out = []
    # >= 10 live shelves: ids must be compared as numbers, not as names
    out.append({"kind": "ids", "names": ["shelf-9", "shelf-10"]})
    out.append({"kind": "ids", "names": _many(11)})
    out.append({"kind": "idops", "names": [], "ops": [["new"]] * 12 + [["read", 10], ["del", 12], ["new"], ["del", 9], ["new"]]})
    out.append({"kind": "idops", "names": _many(10), "ops": [["new"], ["read", 10], ["new"], ["del", 11], ["del", 12], ["new"]]})
    # the shelf file cannot be written (ENOSPC at the first / a later write): nothing may be lost
    for room in (0, 60):
        out.append({"kind": "tree", "basis": ALLKINDS_BASIS, "wt": ALLKINDS_WT, "fault": room,
                    "sel": [list(x) for x in spec_offered(ALLKINDS_BASIS, ALLKINDS_WT)]})
    out.append({"kind": "tree", "basis": [[1, 0, "m", "f", b"1\n2\n", False]], "wt": [[1, 0, "m", "f", b"1\nX\n", False]],
                "sel": [["text", 1]], "fault": 0})
    # write_shelf itself raises (open selection, C15-open-selection): the tree must stay as it was
    out.append({"kind": "tree", "basis": [[1, 0, "c", "d", b"", False], [2, 1, "a", "l", b"t1", False]],
                "wt": [[1, 0, "c", "f", b"k\n", False]], "sel": [["kind", 1]]})
    # shelve -r rev-1 with a newer basis rev-2: the shelf must be based on the TARGET revision
    out.append({"kind": "tree", "basis": [[1, 0, "m", "f", b"1\n2\n", False]], "mid": [[1, 0, "m", "f", b"1\n2\n3\n", False]],
                "wt": [[1, 0, "m", "f", b"0\n1\n2\n3\n", False]], "sel": [["text", 1]], "textmode": "lines"})
    out.append({"kind": "tree", "basis": [[1, 0, "a", "f", b"a\n", False]],
                "mid": [[1, 0, "b", "f", b"a\n", False], [2, 0, "n", "f", b"n\n", False]],
                "wt": [[1, 0, "c", "f", b"a\n", False], [2, 0, "n", "f", b"n\n", False]], "sel": [["ren", 1]]})
    # finding witnesses / regression inputs
    out.append({"kind": "ids", "names": ["shelf-1", "shelf-1x"]})
    out.append({"kind": "tree", "basis": [], "wt": [[1, 0, "n", "f", b"#!\n", True]], "sel": [["add", 1]]})
    out.append({"kind": "tree", "basis": [[1, 0, "x", "f", b"a\n", True]], "wt": [], "sel": [["del", 1]]})
    out.append({"kind": "tree", "basis": [[1, 0, "b", "f", b"1\n", False]], "wt": [[10, 0, "b", "f", b"n\n", False]],
                "sel": [["add", 10], ["del", 1]]})
    out.append({"kind": "tree", "basis": [[2, 0, "b", "f", b"1\n", False], [3, 0, "a", "f", b"1\n", False]],
                "wt": [[2, 0, "a", "f", b"1\n", False]], "sel": [["del", 3]]})
    out.append({"kind": "tree", "basis": [], "wt": [[1, 0, "d", "d", b"", False], [2, 1, "f", "f", b"f\n", False]],
                "sel": [["add", 2]]})
    out.append({"kind": "tree",
                "basis": [[1, 0, "b", "f", b"2\n", False], [2, 0, "c", "d", b"", False], [3, 2, "b", "l", b"t2", False],
                          [4, 2, "a", "l", b"t1", False]],
                "wt": [[1, 2, "b", "l", b"t5", False], [2, 0, "a", "d", b"", False], [4, 2, "a", "l", b"t1", False]],
                "sel": [["del", 3], ["kind", 1], ["ren", 1]]})
    out.append({"kind": "tree", "basis": [[1, 0, "a", "d", b"", False], [2, 1, "b", "d", b"", False]],
                "wt": [[2, 0, "b", "d", b"", False], [1, 2, "a", "d", b"", False]], "sel": [["ren", 2]]})
    return out


def _wf_list(t):
    return wf(tmap(t))


def gen_tree(rng, n):
    t = []
    for i in range(1, n + 1):
        dirs = [0] + [e[0] for e in t if e[3] == "d"]
        for _ in range(20):
            p, nm = rng.choice(dirs), rng.choice(NAMES)
            if not any(e[1] == p and e[2] == nm for e in t):
                break
        else:
            continue
        k = rng.choice("ffdl")
        c = {"f": rng.choice([b"1\n", b"2\n", b"1\n2\n"]), "d": b"", "l": rng.choice([b"t1", b"t2"])}[k]
        t.append([i, p, nm, k, c, k == "f" and rng.random() < 0.25])
    return t


def mutate(rng, basis, nmut, nextid):
    t = [list(e) for e in basis]
    bm = tmap(basis)
    for _ in range(nmut):
        for _try in range(10):
            c = [list(e) for e in t]
            op = rng.choice(["ren", "text", "kind", "del", "add", "target", "ren", "exec"])
            if op == "add":
                dirs = [0] + [e[0] for e in c if e[3] == "d"]
                k = rng.choice("ffdl")
                c.append([nextid, rng.choice(dirs), rng.choice(NAMES), k, {"f": b"n\n", "d": b"", "l": b"t3"}[k],
                          k == "f" and rng.random() < 0.25])
            elif not c:
                continue
            else:
                e = rng.choice(c)
                if op == "ren":
                    dirs = [0] + [x[0] for x in c if x[3] == "d" and x[0] != e[0]]
                    e[1], e[2] = rng.choice(dirs), rng.choice(NAMES)
                elif op == "text":
                    if e[3] != "f":
                        continue
                    e[4] = rng.choice([b"3\n", b"1\n3\n", b"1\n"])
                elif op == "target":
                    if e[3] != "l":
                        continue
                    e[4] = rng.choice([b"t4", b"t1"])
                elif op == "kind":
                    k = rng.choice("fdl")
                    e[3], e[4] = k, {"f": b"k\n", "d": b"", "l": b"t5"}[k]
                    e[5] = k == "f" and rng.random() < 0.25
                elif op == "exec":
                    if e[3] != "f":
                        continue
                    e[5] = not e[5]
                elif op == "del":
                    c.remove(e)
            okb = all(e[1] == 0 or e[1] not in bm or bm[e[1]][3] == "d" for e in c)
            if _wf_list(c) and c != t and okb:
                if op == "add":
                    nextid += 1
                t = c
                break
    return t


def gen_text(rng):
    n = rng.randint(9, 18)
    base = [b"%c\n" % (97 + i) for i in range(n)]
    if rng.random() < 0.4:      # repeated lines (blank lines, braces)
        for _ in range(rng.randint(1, 4)):
            base[rng.randrange(n)] = rng.choice([b"\n", b"}\n", b"x\n"])
    w = list(base)
    for p in sorted(rng.sample(range(n), rng.randint(1, 4)), reverse=True):
        r = rng.random()
        if r < 0.4:
            w[p] = rng.choice([b"X\n", b"Y\n", b"\n"])
        elif r < 0.7:
            w.insert(p, rng.choice([b"X\n", b"x\n", b"}\n"]))
        else:
            del w[p]
    if rng.random() < 0.15 and w:
        w[-1] = w[-1].rstrip(b"\n") or b"z"       # no final newline
    return base, w


def _nhunks(a, b):
    import patiencediff
    m = patiencediff.PatienceSequenceMatcher(None, a, b)
    return len(list(m.get_grouped_opcodes(3)))


def cases(rng, tier):
    quick = tier == "quick"
    # ---- ids
    for r in range(0, 3 if quick else 4):
        for sub in itertools.combinations(POOL, r):
            yield {"kind": "ids", "names": list(sub)}
    # ---- idops: exhaustive short sequences from the empty directory and from {1,3}
    alphabet = [["new"], ["del", 1], ["del", 2], ["read", 1], ["del", 3]]
    for L in range(1, 4 if quick else 5):
        for seq in itertools.product(alphabet, repeat=L):
            yield {"kind": "idops", "names": [], "ops": [list(o) for o in seq]}
    for _ in range(60 if quick else 600):
        names = rng.sample(["shelf-1", "shelf-2", "shelf-3", "shelf-5", "shelf-10"], rng.randint(0, 3))
        if rng.random() < 0.15:
            names.append(rng.choice(["shelf-7x", "shelf-0", "junk"]))
        ops = []
        for _ in range(rng.randint(3, 9)):
            r = rng.random()
            ops.append(["new"] if r < 0.45 else [rng.choice(["del", "del", "read"]), rng.choice([1, 2, 3, 4, 5, 6, 10, 11])])
        yield {"kind": "idops", "names": names, "ops": ops}
    for _ in range(25 if quick else 250):
        n0 = rng.randint(8, 13)
        names = _many(n0)
        for k in rng.sample(range(1, n0 + 1), rng.randint(0, 2)):
            names.remove("shelf-%d" % k)
        ops = []
        for _ in range(rng.randint(3, 8)):
            r = rng.random()
            ops.append(["new"] if r < 0.5 else [rng.choice(["del", "del", "read"]), rng.randint(max(1, n0 - 4), n0 + 3)])
        yield {"kind": "idops", "names": names, "ops": ops}
    # ---- hunks
    nh = 0
    target = 45 if quick else 220
    while nh < target:
        a, b = gen_text(rng)
        if a == b:
            continue
        k = _nhunks(a, b)
        if k > 4 or (k < 2 and rng.random() < 0.7):
            continue
        nh += 1
        masks = list(itertools.product([False, True], repeat=k))
        if quick and len(masks) > 4:
            masks = [masks[0], masks[-1]] + rng.sample(masks[1:-1], 3)
        for m in masks:
            yield {"kind": "hunks", "a": a, "b": b, "answers": list(m), "invert": False}
        yield {"kind": "hunks", "a": a, "b": b, "answers": list(rng.choice(masks)), "invert": True}
    # ---- tree: every subset of the changes of the all-kinds tree
    off = spec_offered(ALLKINDS_BASIS, ALLKINDS_WT)
    subsets = [list(c) for r in range(1, len(off) + 1) for c in itertools.combinations(off, r)]
    if quick:
        subsets = subsets[:7] + rng.sample(subsets[7:], 30) + [subsets[-1]]
    for s in subsets:
        yield {"kind": "tree", "basis": ALLKINDS_BASIS, "wt": ALLKINDS_WT, "sel": [list(x) for x in s],
               "textmode": rng.choice(["lines", "content"])}
    # ---- tree: the same with an intermediate commit (shelve -r rev-1)
    for s in (rng.sample(subsets, 8) if quick else subsets[::3]) + [subsets[-1]]:
        yield {"kind": "tree", "basis": ALLKINDS_BASIS, "mid": ALLKINDS_MID, "wt": ALLKINDS_WT, "sel": [list(x) for x in s],
               "textmode": rng.choice(["lines", "content"])}
    for _ in range(30 if quick else 300):
        basis = gen_tree(rng, rng.randint(1, 4))
        mid = mutate(rng, basis, rng.randint(1, 2), 10)
        wt = mutate(rng, mid, rng.randint(1, 3), 20)
        off = spec_offered(basis, wt)
        if not off or len(off) > 6 or mid == basis:
            continue
        s = off if rng.random() < 0.5 else sorted(rng.sample(off, rng.randint(1, len(off))))
        yield {"kind": "tree", "basis": basis, "mid": mid, "wt": wt, "sel": [list(x) for x in s],
               "textmode": rng.choice(["lines", "content"])}
    # ---- tree: random pairs
    for _ in range(110 if quick else 700):
        basis = gen_tree(rng, rng.randint(1, 5))
        wt = mutate(rng, basis, rng.randint(1, 5), 10)
        off = spec_offered(basis, wt)
        if not off or len(off) > 6:
            continue
        if rng.random() < 0.35:
            sels = [off]
        else:
            sels = [sorted(rng.sample(off, rng.randint(1, len(off)))) for _ in range(2 if quick else 3)]
        for s in sels:
            case = {"kind": "tree", "basis": basis, "wt": wt, "sel": [list(x) for x in s],
                    "textmode": rng.choice(["lines", "content"])}
            if rng.random() < 0.12:
                case["fault"] = rng.choice([0, 0, 60])
            yield case


def nontrivial(inp, obs):
    if inp["kind"] == "ids":
        return len(inp["names"]) > 0
    if inp["kind"] == "idops":
        return any(o[0] == "new" for o in inp["ops"])
    if inp["kind"] == "hunks":
        return any(inp["answers"])
    return len(inp["sel"]) > 0


def distribution(inputs, observations):
    d = {}
    for i, o in zip(inputs, observations):
        d[i["kind"]] = d.get(i["kind"], 0) + 1
        if i["kind"] == "tree" and not isinstance(o, Err):
            key = "tree_" + ("refused" if o[1] is not None else "shelved")
            d[key] = d.get(key, 0) + 1
            for t, _ in i["sel"]:
                d["sel_" + t] = d.get("sel_" + t, 0) + 1
        if i["kind"] == "hunks" and not isinstance(o, Err):
            key = "hunks_%d" % len(o[0])
            d[key] = d.get(key, 0) + 1
    return d


def shrink(inp, fails):
    if inp["kind"] != "tree":
        return inp
    cur = inp
    changed = True
    while changed:
        changed = False
        for j in range(len(cur["sel"])):
            cand = dict(cur, sel=cur["sel"][:j] + cur["sel"][j + 1:])
            if cand["sel"] and fails(cand):
                cur, changed = cand, True
                break
    return cur
