"""Real-history side of C40: generated histories with renames, exec changes, symlinks, binary
files, merges and odd names are materialised in real repositories through a working tree;
bundles (formats 4 / 0.9 / 0.8) are written, installed, merged and tampered with.

A history spec is JSON-like:
  {"g": [[parents]...], "fmt": "2a"|"pack-0.92", "style": 0|1|2, "ops": [[op...] per revision],
   "meta": [[message, committer, ts_secs, ts_ms, tz, props] per revision]}
ops (applied to the tree state of the left-hand parent; a root starts from the empty tree):
  ["add", fid, parent_fid|None, name, kind, data, exec]   data = content bytes / symlink target str / None
  ["mod", fid, data]   ["exec", fid, bool]   ["mv", fid, parent_fid|None, name]   ["rm", fid]
  ["take", fid, k]     take the entry's state from parent number k (if it has the file)
  ["merge", k]         what a real merge does with parent k: its entries that are missing here are added
                       (same ids, where the place is free), entries present on both sides take its content
"""
import json
import os
import shutil
import tempfile
from io import BytesIO

ROOT_ID = b"root-id"
_state = {"tmp": None, "own_tmp": False, "cache": {}, "n": 0}


def set_scratch(path):
    _state["tmp"] = path
    _state["own_tmp"] = False


def scratch():
    if _state["tmp"] is None or not os.path.isdir(_state["tmp"]):
        _state["tmp"] = tempfile.mkdtemp(prefix="c40-")
        _state["own_tmp"] = True
    return _state["tmp"]


def cleanup():
    for v in _state["cache"].values():
        shutil.rmtree(v["path"], ignore_errors=True)
    _state["cache"].clear()
    if _state["own_tmp"] and _state["tmp"]:
        shutil.rmtree(_state["tmp"], ignore_errors=True)
    _state["tmp"] = None
    _state["own_tmp"] = False


def fresh_dir(prefix):
    while True:
        _state["n"] += 1
        p = os.path.join(scratch(), "%s%d" % (prefix, _state["n"]))
        if not os.path.exists(p):
            os.makedirs(p)
            return p


# ---------------------------------------------------------------------------------------------
# revision ids
# ---------------------------------------------------------------------------------------------
STYLES = [b"r%d", b"u/ser@host-%d", "rév-%d".encode("utf-8")]


def rid(spec, i):
    if i >= len(spec["g"]):
        return b"ghost-%d" % i
    return STYLES[spec["style"]] % i


def ridx(spec, revid):
    for i in range(len(spec["g"])):
        if rid(spec, i) == revid:
            return i
    if revid.startswith(b"ghost-"):
        return int(revid[6:])
    raise ValueError("foreign revision id %r" % (revid,))


# ---------------------------------------------------------------------------------------------
# tree states
# ---------------------------------------------------------------------------------------------
def _apply_ops(state, ops, parent_states):
    st = {k: dict(v) for k, v in state.items()}
    for op in ops:
        what = op[0]
        if what == "add":
            _, fid, par, name, kind, data, ex = op
            if fid in st or (par is not None and (par not in st or st[par]["kind"] != "directory")):
                continue
            if any(e["parent"] == par and e["name"] == name for e in st.values()):
                continue
            st[fid] = {"parent": par, "name": name, "kind": kind, "data": data, "exec": bool(ex) and kind == "file"}
        elif what == "mod":
            _, fid, data = op
            if fid in st and st[fid]["kind"] in ("file", "symlink") and type(data) is type(st[fid]["data"]):
                st[fid]["data"] = data
        elif what == "exec":
            _, fid, ex = op
            if fid in st and st[fid]["kind"] == "file":
                st[fid]["exec"] = bool(ex)
        elif what == "mv":
            _, fid, par, name = op
            if fid not in st or (par is not None and (par not in st or st[par]["kind"] != "directory")):
                continue
            # no cycles, no collisions
            p, cyc = par, False
            while p is not None:
                if p == fid:
                    cyc = True
                    break
                p = st[p]["parent"]
            if cyc or any(k != fid and e["parent"] == par and e["name"] == name for k, e in st.items()):
                continue
            st[fid]["parent"], st[fid]["name"] = par, name
        elif what == "rm":
            _, fid = op
            if fid not in st:
                continue
            doomed = {fid}
            changed = True
            while changed:
                changed = False
                for k, e in st.items():
                    if k not in doomed and e["parent"] in doomed:
                        doomed.add(k)
                        changed = True
            for k in doomed:
                del st[k]
        elif what == "merge":
            _, k = op
            if k >= len(parent_states):
                continue
            other = parent_states[k]
            for fid in _depth_order(other):
                e = other[fid]
                if fid in st:
                    if e["kind"] == st[fid]["kind"] and e["kind"] != "directory":
                        st[fid]["data"], st[fid]["exec"] = e["data"], e["exec"]
                    continue
                par = e["parent"]
                if par is not None and (par not in st or st[par]["kind"] != "directory"):
                    continue
                if any(x["parent"] == par and x["name"] == e["name"] for x in st.values()):
                    continue
                st[fid] = dict(e)
        elif what == "take":
            _, fid, k = op
            if k < len(parent_states) and fid in parent_states[k] and fid in st:
                src = parent_states[k][fid]
                if src["kind"] == st[fid]["kind"]:
                    st[fid]["data"] = src["data"]
                    st[fid]["exec"] = src["exec"]
    return st


def tree_states(spec):
    g = spec["g"]
    out = []
    for i, ps in enumerate(g):
        present = [p for p in ps if p < len(g)]
        base = out[present[0]] if present and ps[0] < len(g) else {}
        out.append(_apply_ops(base, spec["ops"][i], [out[p] for p in present]))
    return out


def _path(st, fid):
    parts = []
    while fid is not None:
        parts.append(st[fid]["name"])
        fid = st[fid]["parent"]
    return "/".join(reversed(parts))


def _depth_order(st):
    def depth(fid):
        d = 0
        while st[fid]["parent"] is not None:
            fid = st[fid]["parent"]
            d += 1
        return d
    return sorted(st, key=lambda f: (depth(f), _path(st, f)))


# ---------------------------------------------------------------------------------------------
# materialisation
# ---------------------------------------------------------------------------------------------
def _lefthand_len(g, r):
    n = 0
    while r is not None and r < len(g):
        n += 1
        r = g[r][0] if g[r] else None
    return n


def _write_entry(wt, st, fid):
    e = st[fid]
    full = os.path.join(wt.basedir, _path(st, fid))
    if e["kind"] == "directory":
        os.mkdir(full)
    elif e["kind"] == "file":
        with open(full, "wb") as f:
            f.write(e["data"])
        os.chmod(full, 0o755 if e["exec"] else 0o644)
    else:
        os.symlink(e["data"], full)


def _depth(st, fid):
    d = 0
    while st[fid]["parent"] is not None:
        fid = st[fid]["parent"]
        d += 1
    return d


def _morph_tree(wt, cur, tgt):
    """Turn the working tree from state cur into state tgt with ordinary working-tree operations
    (unversion, rename_one, add); cur is updated in place."""
    # 2. + 3. target order, parents first: create what is new, put what moved in its place; an
    # entry that still occupies a wanted path is parked under a temporary name in the root
    ntmp = [0]

    def free(par, name, fid):
        for k, e in cur.items():
            if k != fid and e["parent"] == par and e["name"] == name:
                ntmp[0] += 1
                tmp = "__c40_tmp_%d" % ntmp[0]
                wt.rename_one(_path(cur, k), tmp)
                e["parent"], e["name"] = None, tmp
                return

    for fid in _depth_order(tgt):
        if fid not in cur:
            free(tgt[fid]["parent"], tgt[fid]["name"], fid)
            cur[fid] = dict(tgt[fid])
            _write_entry(wt, cur, fid)
            wt.add([_path(cur, fid)], ids=[fid], kinds=[cur[fid]["kind"]])
        elif (cur[fid]["parent"], cur[fid]["name"]) != (tgt[fid]["parent"], tgt[fid]["name"]):
            free(tgt[fid]["parent"], tgt[fid]["name"], fid)
            old = _path(cur, fid)
            cur[fid]["parent"], cur[fid]["name"] = tgt[fid]["parent"], tgt[fid]["name"]
            wt.rename_one(old, _path(cur, fid))
    # 3b. removals last (survivors have left the doomed directories), deepest first
    for fid in sorted([f for f in cur if f not in tgt], key=lambda f: -_depth(cur, f)):
        p = _path(cur, fid)
        wt.unversion([p])
        full = os.path.join(wt.basedir, p)
        if cur[fid]["kind"] == "directory":
            os.rmdir(full)
        else:
            os.unlink(full)
        del cur[fid]
    # 4. contents
    for fid, e in tgt.items():
        c = cur[fid]
        if (c["data"], c["exec"]) != (e["data"], e["exec"]):
            full = os.path.join(wt.basedir, _path(cur, fid))
            if e["kind"] == "file":
                with open(full, "wb") as f:
                    f.write(e["data"])
                os.chmod(full, 0o755 if e["exec"] else 0o644)
            elif e["kind"] == "symlink":
                os.unlink(full)
                os.symlink(e["data"], full)
            c["data"], c["exec"] = e["data"], e["exec"]


def build(spec):
    """-> {"path", "branch", "states"}; cached per spec (at most 2 histories kept on disk)."""
    import breezy.bzr  # noqa: F401
    from breezy import controldir
    key = json.dumps(_jsonable(spec), sort_keys=True)
    c = _state["cache"]
    if key in c:
        return c[key]
    if len(c) >= 2:
        for v in c.values():
            shutil.rmtree(v["path"], ignore_errors=True)
        c.clear()
    path = fresh_dir("h")
    fmt = controldir.format_registry.make_controldir(spec["fmt"])
    wt = controldir.ControlDir.create_standalone_workingtree(os.path.join(path, "src"), format=fmt)
    g = spec["g"]
    states = tree_states(spec)
    wt.lock_write()
    try:
        wt.set_root_id(ROOT_ID)
        cur = {}
        for i, ps in enumerate(g):
            pids = [rid(spec, p) for p in ps]
            if ps:
                wt.branch.set_last_revision_info(_lefthand_len(g, ps[0]), pids[0])
            else:
                wt.branch.set_last_revision_info(0, b"null:")
            wt.set_parent_ids(pids, allow_leftmost_as_ghost=True)
            _morph_tree(wt, cur, states[i])
            msg, committer, secs, ms, tz, props = spec["meta"][i]
            wt.commit(message=msg, rev_id=rid(spec, i), timestamp=secs + ms / 1000.0, timezone=tz,
                      committer=committer, revprops=dict(props), allow_pointless=True)
    finally:
        wt.unlock()
    br = wt.branch
    br.lock_read()
    try:
        pm = br.repository.get_graph().get_parent_map([rid(spec, i) for i in range(len(g))])
    finally:
        br.unlock()
    for i, ps in enumerate(g):
        got = [p for p in pm.get(rid(spec, i), ()) if p != b"null:"]
        if got != [rid(spec, p) for p in ps]:
            raise AssertionError("history not materialised as given: %d has %r, wanted %r" % (i, got, ps))
    c[key] = {"path": path, "branch": br, "states": states}
    return c[key]


def _jsonable(v):
    if isinstance(v, bytes):
        return {"hex": v.hex()}
    if isinstance(v, (list, tuple)):
        return [_jsonable(x) for x in v]
    if isinstance(v, dict):
        return {str(k): _jsonable(x) for k, x in v.items()}
    return v


# ---------------------------------------------------------------------------------------------
# graph helpers (oracle vocabulary)
# ---------------------------------------------------------------------------------------------
def ancestors(g, seeds):
    seen, todo = set(), list(seeds)
    while todo:
        r = todo.pop()
        if r in seen:
            continue
        seen.add(r)
        if r < len(g):
            todo.extend(g[r])
    return seen


def present_ancestors(g, seeds):
    return {r for r in ancestors(g, seeds) if r < len(g)}


# ---------------------------------------------------------------------------------------------
# what a revision carries (compared between the source and the receiving repository)
# ---------------------------------------------------------------------------------------------
def revision_facts(repo, revid):
    """testament + everything the testament does not pin down by content"""
    from breezy.bzr.testament import StrictTestament3
    t = StrictTestament3.from_revision(repo, revid)
    rev = repo.get_revision(revid)
    tree = repo.revision_tree(revid)
    files = {}
    for path, e in tree.iter_entries_by_dir():
        if e.kind == "file":
            files[path] = (e.file_id, "file", tree.get_file_text(path), bool(e.executable), e.revision)
        elif e.kind == "symlink":
            files[path] = (e.file_id, "symlink", tree.get_symlink_target(path), False, e.revision)
        else:
            files[path] = (e.file_id, e.kind, None, False, e.revision)
    # the per-file graph and the inventory graph are stored next to the texts but attested by nothing
    keys = [(v[0], v[4]) for v in files.values() if v[4] == revid]
    tparents = {k: tuple(v) for k, v in repo.texts.get_parent_map(keys).items()}
    iparents = {k: tuple(v) for k, v in repo.inventories.get_parent_map([(revid,)]).items()}
    return {"text_parents": tparents, "inventory_parents": iparents,
            "testament": t.as_short_text(), "text": t.as_text(), "message": rev.message, "committer": rev.committer,
            "timestamp": rev.timestamp, "timezone": rev.timezone, "parents": list(rev.parent_ids),
            "props": dict(rev.properties), "files": files}


def diff_facts(a, b, graphs=True):
    """graphs=False: the per-file / inventory graphs are not compared (the patch-based formats
    0.8/0.9 do not carry them; install_revision re-derives them from the parent inventories)"""
    for k in a:
        if not graphs and k in ("text_parents", "inventory_parents"):
            continue
        if a[k] != b[k]:
            if k == "files":
                for p in sorted(set(a[k]) | set(b[k])):
                    if a[k].get(p) != b[k].get(p):
                        return "files[%r]: %r != %r" % (p, a[k].get(p), b[k].get(p))
            return "%s: %r != %r" % (k, a[k], b[k])
    return None


def new_repo(fmt, prefix="d"):
    from breezy import controldir
    path = fresh_dir(prefix)
    cd = controldir.ControlDir.create(path, format=controldir.format_registry.make_controldir(fmt))
    return cd.create_repository(), path


def all_ids(spec, repo):
    with repo.lock_read():
        return sorted(ridx(spec, r) for r in repo.all_revision_ids())


# ---------------------------------------------------------------------------------------------
# generation of history specs
# ---------------------------------------------------------------------------------------------
FIDS = [b"f1", b"f2", b"f3", b"b/id", "fé-id".encode("utf-8"), b"d1", b"d2", b"l1", b"l2", b"f4"]
NAMES = ["a", "b.txt", "dir", "sub", "été", "é", "with space", "Z", "n1", "n2"]
ODD_NAMES = ["a => b", ": colon", "#hash", "trailing ", "file-id:x", "=> b", "executable:yes", "x\\y"]
TEXTS = [b"", b"line\n", b"l1\nl2\nl3\n", b"l1\nchanged\nl3\nl4\n", b"no newline", b"crlf\r\nline\r\n",
         b"\x00\xff\x01binary\n", b"\x00other binary", b"caf\xc3\xa9\n", b"=== modified file 'x'\n--- x\n+++ x\n",
         b"# Begin bundle\n", b"a\n" * 40]
TARGETS = ["tgt", "t\u00e4rget", "a b", "../up", "\u00e9", "e\u0301 nfd", "trailing ", " lead", "x\\y"]
MESSAGES = ["msg", "two\nlines", "unicode \u00e9 \u4e2d", "trailing newline\n", " leading", "tab\there", "", "x" * 120,
            "nfd e\u0301", "trailing blank "]
COMMITTERS = ["Joe <joe@example.com>", "J\u00f6e B\u00e4r <j@x>", "nomail", "Nfd e\u0301 <n@x> "]


def long_side_graph(rng, side):
    """trunk 0-1, a side branch of `side` commits off 1, then a merge on the UNMOVED trunk (parents [1, tip]),
    optionally some more trunk / a second merge: the left-hand parent of the merge was installed more than
    `side` inventories ago (RevisionInstaller keeps 10 inventories in memory)"""
    g = [[], [0]]
    tip = 1
    for _ in range(side):
        g.append([tip])
        tip = len(g) - 1
    g.append([1, tip])
    m = len(g) - 1
    if rng.random() < 0.5:
        g.append([m])
    if rng.random() < 0.4:
        g.append([0, len(g) - 1])          # an even older left-hand parent
    return g


def gen_spec(rng, n, fmt, odd=False, ghosts=False, big=False, ml_props=False, shape="random"):
    import daglib
    if shape == "longside":
        g = long_side_graph(rng, max(n, 11))
        n = len(g)
    else:
        g = daglib.gen_dag(rng, n, p_merge=0.4, p_ghost=0.08 if ghosts else 0.0, p_left_ghost=0.0, p_root=0.04)
    # WorkingTree.set_parent_ids keeps only heads (the left-hand parent always stays)
    for i, ps in enumerate(g):
        keep = []
        for p in ps:
            others = [q for q in ps if q != p]
            if p == ps[0] or p >= n or not any(p in ancestors(g[:i], [q]) for q in others if q < n):
                keep.append(p)
        g[i] = keep
    names = NAMES + (ODD_NAMES if odd else [])
    texts = TEXTS + ([b"big line\n" * 9000] if big else [])
    ops_all, states = [], []
    for i, ps in enumerate(g):
        present = [p for p in ps if p < n]
        st = states[present[0]] if present and ps[0] < n else {}
        pstates = [states[p] for p in present]
        ops = []
        k = rng.choice([1, 1, 2, 2, 3, 4]) if st else rng.choice([2, 3, 4])
        for _ in range(k):
            cur = _apply_ops(st, ops, pstates)
            dirs = [None] + [f for f, e in cur.items() if e["kind"] == "directory"]
            files = [f for f, e in cur.items() if e["kind"] == "file"]
            links = [f for f, e in cur.items() if e["kind"] == "symlink"]
            free = [f for f in FIDS if f not in cur]
            r = rng.random()
            if (r < 0.3 or not cur) and free:
                fid = rng.choice(free)
                kind = "directory" if fid.startswith(b"d") else "symlink" if fid.startswith(b"l") else "file"
                data = rng.choice(texts) if kind == "file" else rng.choice(TARGETS) if kind == "symlink" else None
                ex = rng.random() < 0.4
                if kind == "file" and ex and rng.random() < 0.4:
                    data = rng.choice([b"\x00\xff\x01binary\n", b"\x00other binary"])      # executable AND binary
                ops.append(["add", fid, rng.choice(dirs), rng.choice(names), kind, data, ex])
            elif r < 0.5 and files:
                ops.append(["mod", rng.choice(files), rng.choice(texts)])
            elif r < 0.58 and links:
                ops.append(["mod", rng.choice(links), rng.choice(TARGETS)])
            elif r < 0.68 and files:
                ops.append(["exec", rng.choice(files), rng.random() < 0.5])
            elif r < 0.86 and cur:
                fid = rng.choice(sorted(cur))
                ops.append(["mv", fid, rng.choice(dirs), rng.choice(names)])
                kids = [f for f in files if cur[f]["parent"] == fid]
                if kids and rng.random() < 0.6:
                    # a child changed in place below a directory that moves in the same revision
                    kid = rng.choice(kids)
                    ops.append(rng.choice([["mod", kid, rng.choice(texts)], ["exec", kid, not cur[kid]["exec"]]]))
            elif r < 0.92 and cur:
                ops.append(["rm", rng.choice(sorted(cur))])
            elif len(present) > 1 and cur:
                ops.append(["take", rng.choice(sorted(cur)), rng.randrange(1, len(present))])
        if len(present) > 1 and (shape == "longside" or rng.random() < 0.5):
            ops.insert(0, ["merge", rng.randrange(1, len(present))])
        ops_all.append(ops)
        states.append(_apply_ops(st, ops, pstates))
    meta = []
    for i in range(n):
        props = rng.choice([[], [], [["branch-nick", "né"]], [["k", "multi\nline" if ml_props else "single"], ["z", ""]]])
        meta.append([rng.choice(MESSAGES), rng.choice(COMMITTERS), 1700000000 + 1000 * i + rng.randrange(1000),
                     rng.choice([0, 0, 500, 250]), rng.choice([0, 3600, 19800, -12600, -18000, 45900]), props])
    return {"g": g, "fmt": fmt, "style": rng.randrange(3), "ops": ops_all, "meta": meta}


def dir_rename_hits_chk(spec, base, tgt):
    """the known C10 defect reached from the 0.9 writer: in a CHK (2a) repository an entry that is
    unchanged but sits below a renamed/moved directory is reported with the new path on both sides"""
    g, n = spec["g"], len(spec["g"])
    states = tree_states(spec)
    revs = sorted(present_ancestors(g, [tgt]) - (ancestors(g, [base]) if base is not None else set()))
    for r in revs:
        b = base if r == tgt else (g[r][-1] if g[r] else None)
        if b is None or b >= n:
            continue
        old, new = states[b], states[r]
        for fid in new:
            if fid in old and (old[fid]["parent"], old[fid]["name"]) == (new[fid]["parent"], new[fid]["name"]) \
                    and old[fid]["data"] == new[fid]["data"] and old[fid]["exec"] == new[fid]["exec"] \
                    and _path(old, fid) != _path(new, fid):
                return True
    return False


# ---------------------------------------------------------------------------------------------
# drivers
# ---------------------------------------------------------------------------------------------
def _quiet():
    import logging
    logging.getLogger("brz").setLevel(logging.CRITICAL)


class _Cwd:
    """0.9 installs write ',,bogus-inv' into the current directory on an inventory sha mismatch"""

    def __enter__(self):
        self.old = os.getcwd()
        os.chdir(scratch())

    def __exit__(self, *a):
        os.chdir(self.old)


HANG_SECONDS = 30          # first attempt; a second, four times longer one decides (a loaded machine is no hang)


def _in_child(fn, seconds):
    """run fn() in a forked child; -> ("ok", result) | ("hang", None).  An endless loop inside a
    compiled extension cannot be interrupted from Python, so the child is killed instead."""
    import pickle
    import select
    import signal
    r, w = os.pipe()
    pid = os.fork()
    if pid == 0:
        status = 1
        try:
            os.close(r)
            with os.fdopen(w, "wb") as f:
                pickle.dump(fn(), f)
            status = 0
        except BaseException as e:   # noqa: BLE001
            try:
                os.write(2, ("c40 child: %r\n" % (e,)).encode())
            except OSError:
                pass
        finally:
            os._exit(status)
    os.close(w)
    data = b""
    deadline = seconds
    import time
    t0 = time.time()
    hung = False
    with os.fdopen(r, "rb") as f:
        while True:
            left = deadline - (time.time() - t0)
            if left <= 0:
                hung = True
                break
            ready, _, _ = select.select([f], [], [], left)
            if not ready:
                hung = True
                break
            chunk = os.read(f.fileno(), 1 << 16)
            if not chunk:
                break
            data += chunk
    if hung:
        os.kill(pid, signal.SIGKILL)
        os.waitpid(pid, 0)
        return "hang", None
    os.waitpid(pid, 0)
    if not data:
        raise RuntimeError("c40 child died without a result")
    return "ok", pickle.loads(data)


def _rev(spec, i):
    return b"null:" if i is None else rid(spec, i)


def _seed_repo(spec, src, fmt, base, extra):
    dst, path = new_repo(fmt)
    for r in ([base] if base is not None else []) + list(extra):
        dst.fetch(src, rid(spec, r))
    return dst, path


def _bundle_text(spec, src, base, tgt, bfmt):
    from breezy.bzr.bundle.serializer import write_bundle
    out = BytesIO()
    with src.lock_read():
        ids = write_bundle(src, rid(spec, tgt), _rev(spec, base), out, bfmt)
    return out.getvalue(), ids


def _compare(spec, src, dst, revids, graphs=True):
    with src.lock_read(), dst.lock_read():
        for r in revids:
            d = diff_facts(revision_facts(src, r), revision_facts(dst, r), graphs)
            if d:
                return "revision %d: %s" % (ridx(spec, r), d)
    return None


def run_bundle(inp):
    """-> observation {"ids", "after", "fetch", "problem"} (problem = what the oracle reports)"""
    from breezy.bzr.bundle.serializer import read_bundle
    _quiet()
    spec, base, tgt, bfmt = inp["h"], inp["base"], inp["tgt"], inp["bfmt"]
    try:
        h = build(spec)
    except Exception as e:   # noqa: BLE001  (dirstate trouble while MATERIALISING: not the code under test)
        return {"build": type(e).__name__}
    src = h["branch"].repository
    dfmt = inp.get("dfmt") or spec["fmt"]
    with _Cwd():
        try:
            text, ids = _bundle_text(spec, src, base, tgt, bfmt)
        except Exception as e:   # noqa: BLE001
            return {"write_error": type(e).__name__}
        dst, dpath = _seed_repo(spec, src, dfmt, base, inp["extra"])
        dst2, dpath2 = _seed_repo(spec, src, dfmt, base, inp["extra"])
        try:
            try:
                info = read_bundle(BytesIO(text))
                if bfmt == "4":
                    info.install_revisions(dst, stream_input=inp.get("stream", True))
                else:
                    info.install_revisions(dst)
            except Exception as e:   # noqa: BLE001
                return {"ids": sorted(ridx(spec, r) for r in ids), "install_error": type(e).__name__}
            dst2.fetch(src, rid(spec, tgt))
            return {"ids": sorted(ridx(spec, r) for r in ids), "after": all_ids(spec, dst),
                    "fetch": all_ids(spec, dst2), "problem": _compare(spec, src, dst, ids, graphs=(bfmt == "4"))}
        finally:
            shutil.rmtree(dpath, ignore_errors=True)
            shutil.rmtree(dpath2, ignore_errors=True)


def run_btamper(inp):
    """one byte of the bundle text changed -> {"rejected": bool, "after": ids or None, "problem"}"""
    from breezy.bzr.bundle.serializer import read_bundle
    _quiet()
    spec, base, tgt, bfmt = inp["h"], inp["base"], inp["tgt"], inp["bfmt"]
    try:
        h = build(spec)
    except Exception as e:   # noqa: BLE001
        return {"build": type(e).__name__}
    src = h["branch"].repository
    with _Cwd():
        try:
            text, ids = _bundle_text(spec, src, base, tgt, bfmt)
        except Exception as e:   # noqa: BLE001
            return {"write_error": type(e).__name__}
        pos = inp["pos"] % len(text)
        if inp.get("zone") == "old":
            # only the sections of the OLDER revisions of a 0.8/0.9 bundle (they follow the target's section)
            second = text.find(b"\n# message:", text.find(b"\n# message:") + 1)
            if second > 0:
                pos = second + inp["pos"] % (len(text) - second)
        if inp.get("find"):
            at = text.rfind(inp["find"])
            if at >= 0:
                pos = at + inp.get("off", 0)
        t = bytearray(text)
        if inp.get("cut"):
            pos = max(0, len(text) - inp["cut"])          # truncation: the last `cut` bytes are missing
            t = t[:pos]
        elif t[pos] == inp["byte"]:
            t[pos] = (inp["byte"] + 1) % 256
        else:
            t[pos] = inp["byte"]
        dst, dpath = _seed_repo(spec, src, spec["fmt"], base, [])
        before = all_ids(spec, dst)
        try:
            stream = inp.get("stream", True)

            def attempt():
                try:
                    info = read_bundle(BytesIO(bytes(t)))
                    if bfmt == "4":
                        info.install_revisions(dst, stream_input=stream)
                    else:
                        info.install_revisions(dst)
                    rejected = None
                except Exception as e:   # noqa: BLE001  (any refusal counts as detection)
                    rejected = type(e).__name__
                with dst.lock_read():
                    now = list(dst.all_revision_ids())
                foreign = [r for r in now if not any(r == rid(spec, i) for i in range(len(spec["g"])))]
                if foreign:
                    problem = "revisions the source does not have: %r" % (foreign,)
                else:
                    problem = _compare(spec, src, dst, now, graphs=(bfmt == "4"))
                after = sorted(ridx(spec, r) for r in now) if not foreign else None
                return {"rejected": rejected, "before": before, "after": after, "problem": problem,
                        "where": pos, "len": len(text), "hang": False}

            how, res = _in_child(attempt, HANG_SECONDS)
            if how == "hang":
                how, res = _in_child(attempt, 4 * HANG_SECONDS)
            if how == "hang":
                return {"rejected": "Hang", "before": before, "after": before, "problem": None,
                        "where": pos, "len": len(text), "hang": True}
            return res
        finally:
            shutil.rmtree(dpath, ignore_errors=True)


def _snapshot(wt):
    out = {}
    with wt.lock_read():
        for path, e in wt.iter_entries_by_dir():
            full = os.path.join(wt.basedir, path)
            if e.kind == "file":
                with open(full, "rb") as f:
                    data = f.read()
                out[path] = (e.file_id, "file", data, bool(os.stat(full).st_mode & 0o100))
            elif e.kind == "symlink":
                out[path] = (e.file_id, "symlink", os.readlink(full), False)
            else:
                out[path] = (e.file_id, e.kind, None, False)
        extra = sorted(n for n in os.listdir(wt.basedir) if n != ".bzr" and n not in out)
        return {"entries": out, "parents": list(wt.get_parent_ids()),
                "conflicts": sorted(str(c) for c in wt.conflicts()), "unversioned": extra}


def _do_merge(merger):
    from breezy.merge import Merge3Merger
    if merger.base_rev_id == merger.other_rev_id:
        return "nothing"
    merger.merge_type = Merge3Merger
    merger.do_merge()
    merger.set_pending()
    return "merged"


def run_merge(inp):
    """merge revision tgt into a tree at revision `submit`: through a merge directive (A) and
    directly from the branch (B)"""
    from breezy.merge import Merger
    from breezy.merge_directive import MergeDirective, MergeDirective2
    _quiet()
    spec, submit, tgt, mode = inp["h"], inp["submit"], inp["tgt"], inp["mode"]
    try:
        h = build(spec)
    except Exception as e:   # noqa: BLE001
        return {"build": type(e).__name__}
    srcb = h["branch"]
    pa, pb = fresh_dir("ma"), fresh_dir("mb")
    with _Cwd():
        try:
            wta = srcb.controldir.sprout(pa, revision_id=rid(spec, submit)).open_workingtree()
            wtb = srcb.controldir.sprout(pb, revision_id=rid(spec, submit)).open_workingtree()
            try:
                if mode[0] == "2":
                    md = MergeDirective2.from_objects(
                        repository=srcb.repository, revision_id=rid(spec, tgt), time=1700000000.25, timezone=19800,
                        target_branch=wta.branch.base, local_target_branch=wta.branch,
                        include_patch="patch" in mode, include_bundle="bundle" in mode,
                        public_branch=srcb.base if "public" in mode else None, message=inp.get("msg"))
                else:
                    with srcb.repository.lock_write():      # the caller (cmd_send) holds the lock
                        md = MergeDirective.from_objects(
                            srcb.repository, rid(spec, tgt), 1700000000.25, 3600, wta.branch.base,
                            patch_type="bundle" if "bundle" in mode else "diff", local_target_branch=wta.branch,
                            public_branch=srcb.base if "public" in mode else None, message=inp.get("msg"))
                text = b"".join(md.to_lines())
            except Exception as e:   # noqa: BLE001
                return {"directive_error": type(e).__name__}
            try:
                md2 = MergeDirective.from_lines(BytesIO(text))
                wta.lock_write()
                try:
                    merger, verified = Merger.from_mergeable(wta, md2)
                    how_a = _do_merge(merger)
                finally:
                    wta.unlock()
            except Exception as e:   # noqa: BLE001
                return {"merge_error": type(e).__name__, "detail": str(e)[:200]}
            wtb.lock_write()
            try:
                merger = Merger.from_revision_ids(wtb, rid(spec, tgt), other_branch=srcb)
                how_b = _do_merge(merger)
            finally:
                wtb.unlock()
            sa, sb = _snapshot(wta), _snapshot(wtb)
            problem = None
            if how_a != how_b:
                problem = "directive merge %s, branch merge %s" % (how_a, how_b)
            else:
                for k in sa:
                    if sa[k] != sb[k]:
                        problem = "%s differ: %r vs %r" % (k, sa[k], sb[k])
                        break
            return {"ids": all_ids(spec, wta.branch.repository), "verified": verified, "how": how_a,
                    "problem": problem, "same_fields": _dir_fields(md) == _dir_fields(md2),
                    "fields": [_dir_fields(md), _dir_fields(md2)]}
        finally:
            shutil.rmtree(pa, ignore_errors=True)
            shutil.rmtree(pb, ignore_errors=True)


def _dir_fields(md):
    t = md.time
    return [md.revision_id, md.testament_sha1, int(t // 1), md.timezone, md.target_branch, md.source_branch,
            md.message, getattr(md, "base_revision_id", None), md.patch, md.bundle]


def bundled_revs(spec, base, tgt):
    g = spec["g"]
    return sorted(present_ancestors(g, [tgt]) - (ancestors(g, [base]) if base is not None else set()))


def has_multiline_prop(spec, revs):
    return any("\n" in v for r in revs for _k, v in spec["meta"][r][5])


def arrow_rename(spec, base, tgt):
    """some bundled revision moves an entry to a path starting with '=> ' (0.8/0.9 reader strips it)"""
    g, n = spec["g"], len(spec["g"])
    states = tree_states(spec)
    for r in bundled_revs(spec, base, tgt):
        b = base if r == tgt else (g[r][-1] if g[r] else None)
        if b is None or b >= n:
            continue
        old, new = states[b], states[r]
        for fid in new:
            if fid in old and (old[fid]["parent"], old[fid]["name"]) != (new[fid]["parent"], new[fid]["name"]) \
                    and _path(new, fid).startswith("=> "):
                return True
    return False


def non_ascii(spec):
    if spec["style"] == 2:
        return True
    for ops in spec["ops"]:
        for op in ops:
            for x in op[1:]:
                if isinstance(x, str) and not x.isascii():
                    return True
                if isinstance(x, bytes) and op[0] == "add" and x is op[1] and not x.isascii():
                    return True
    return any(not m[1].isascii() for m in spec["meta"])
