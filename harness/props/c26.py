"""C26 -- Directory locks provide mutual exclusion (tie H: model schedules replayed on real LockDir objects)."""
import itertools

from vlib import Err

from props import _lockdir_common as K
from props._lockdir_common import P, case, OURS, DEADW

PROP = "C26"
COQ = {
    "property_file": "Properties/C26.v",
    "imports": "From BV Require Import Lib.SchedLD Model.LockDir.",
}
RUST_PACKAGES = ["cmd-py"]
SHARD = 120
META = {
    "level": "proof",
    "title": "Directory locks provide mutual exclusion",
    "technique": ("Coq invariants over all schedules of any number of lockers (hand model of breezy/lockdir.py, one step = one "
                  "transport operation) + replay of model schedules on real LockDir objects through a cooperative-scheduling "
                  "proxy transport, state compared after every step; dead-holder predicate compared with the Rust function"),
    "level_text": ("partial (P-core): mutual exclusion / no loss without a break of a live holder, at-most-one observable, "
                   "steal-only-known-dead and the guarded break-only-examined statement are theorems over ALL schedules of the "
                   "hand model; break-only-examined at full strength is refuted in Coq and on the real code (force_break race). "
                   "The model is tied to lockdir.py/lockdir.rs by bounded replay (Memory and Local transports)."),
    "level_note": ("Trusted: Coq kernel, vm_compute, hand model coq/Model/LockDir.v, the replay harness; environment: rename onto a "
                   "non-empty directory fails, rand_chars names/nonces never collide, attempt_lock is not called on a LockDir that is_held, "
                   "no token locking (lock_write(token))."),
    "design_ref": "DESIGN.md §5 C26",
    "trusted_base": ["hand model coq/Model/LockDir.v of breezy/lockdir.py and src/lockdir.rs:is_lock_holder_known_dead",
                     "replay harness harness/props/_lockdir_common.py (proxy transport, thread scheduler)"],
    "assumptions": ["transport.rename(dir, held) fails when held exists and is non-empty (dromedary Memory/Local transports, exercised)",
                    "rand_chars() tmp names and nonces never collide (modelled as (locker, counter))",
                    "attempt_lock is not called on a LockDir object whose is_held is True; no token locks",
                    "an injected transport fault has no effect on the directory",
                    "is_local_pid_dead is a fixed set of dead pids during a run"],
    "rule": ("2-4 lockers running attempt/unlock/confirm/peek/force_break/force_break_corrupt/steal programs under generated "
             "interleavings (exhaustive for small configurations, random bursty otherwise); non-trivial = at least two lockers took steps"),
}


def setup(scratch):
    K.setup(scratch)


def teardown():
    K.teardown()


RACE = case([P(["attempt", "unlock"]), P(["peek", "forcebreak"]), P(["attempt"]), P(["attempt"])],
            [0] * 4 + [1, 1] + [0] * 4 + [2] * 4 + [1, 1] + [3] * 4)


def corpus():
    out = [RACE, dict(RACE, transport="local")]
    # two lockers renaming onto an empty held
    out.append(case([P(["attempt", "unlock"]), P(["attempt", "unlock"])], [0, 1, 0, 1, 0, 1, 0, 1, 0, 1, 0, 1, 0, 1, 0, 1, 0, 1, 1]))
    # break of a live holder, then the victim's stale unlock removes a third locker's lock
    out.append(case([P(["attempt", "unlock"]), P(["peek", "forcebreak"]), P(["attempt", "confirm"])],
                    [0] * 4 + [1] + [0] + [1] * 5 + [2] * 4 + [0] * 3 + [2]))
    # a break and a re-acquisition between a locker's rename into place and its confirming peek (nonce check)
    out.append(case([P(["attempt", "confirm"]), P(["peek", "forcebreak"]), P(["attempt"])], [0] * 3 + [1] * 6 + [2] * 4 + [0] * 2 + [2]))
    out.append(case([P(["attempt", "confirm"]), P(["peek", "forcebreak"]), P(["attempt"])], [0] * 3 + [1] * 6 + [2] * 4 + [0] * 2 + [2],
                    transport="local"))
    out.extend(steal_race_family(None, 0))
    out.extend(relock_family(None, 0))
    # steal from a dead holder
    out.append(case([P(["attempt", "crash"], wid=DEADW), P(["attempt", "unlock"])], [0] * 4 + [1] * 16, steal=True))
    out.append(case([P(["attempt", "crash"], wid=DEADW), P(["attempt", "unlock"])], [0] * 4 + [1] * 16, steal=False))
    out.append(case([P(["attempt"], wid=DEADW), P(["attempt", "unlock"]), P(["attempt"])],
                    [0] * 4 + [1] * 5 + [0] * 0 + [2] * 4 + [1] * 12, steal=True, transport="local"))
    # externally held: dead / empty / corrupt
    out.append(case([P(["attempt", "unlock"])], [0] * 14, steal=True, h0=dict(DEADW, c="info")))
    out.append(case([P(["peek", "forcebreak", "attempt"])], [0] * 12, h0={"c": "empty"}))
    out.append(case([P(["peek", "forcebreak", "breakcorrupt", "attempt"])], [0] * 12, h0={"c": "corrupt"}))
    out.append(case([P(["unlock", "confirm", "forcebreak", "breakcorrupt", "attempt", "attempt", "forcebreak", "unlock", "unlock"])], [0] * 12))
    for h in ("ours", "localhost", "other", None):
        for u in ("ours", "other", None):
            for pd in ("alive", "dead", None):
                out.append({"kind": "dead", "host": h, "user": u, "pid": pd})
    return out


def steal_race_family(rng, nrandom):
    """Two (or three) lockers race to steal ONE stale lock left by a dead external holder: the second one steals
    and acquires between the first one's examination of the holder and its break.  Unless the breaker still
    compares with the holder it EXAMINED, it removes the winner's live lock (two live holders)."""
    dead = dict(DEADW, c="info")
    out = []
    for tr in ("memory", "local"):
        for k in (4, 5, 6):      # B stops after its contention peek / after re-reading held / just before the rename
            out.append(case([P(["attempt"]), P(["attempt"])], [0] * k + [1] * 14 + [0] * 14, transport=tr, steal=True, h0=dead))
        out.append(case([P(["attempt", "confirm"]), P(["attempt", "confirm"]), P(["attempt"])],
                        [0] * 4 + [1] * 4 + [2] * 14 + [1] * 14 + [0] * 14 + [2, 1, 0], transport=tr, steal=True, h0=dead))
    for _ in range(nrandom):
        n = rng.choice([2, 2, 3])
        procs = [P(rng.choice([["attempt"], ["attempt", "confirm"], ["attempt", "unlock"]])) for _ in range(n)]
        sched = []
        for p in rng.sample(range(n), n):              # everybody examines the dead holder first ...
            sched += [p] * rng.choice([4, 4, 5, 6])
        sched += bursty(rng, n, 16 * n)                 # ... then they break / acquire in a random interleaving
        out.append(case(procs, sched, transport=rng.choice(["memory", "local"]), steal=True, h0=dead))
    return out


def relock_family(rng, nrandom):
    """One LockDir OBJECT acquires, releases and acquires again while another locker breaks with the holder info it
    peeked during the FIRST acquisition: the break must fail (LockBreakMismatch) -- every acquisition has its own nonce."""
    out = []
    for tr in ("memory", "local"):
        out.append(case([P(["attempt", "unlock", "attempt", "confirm"]), P(["peek", "forcebreak", "attempt"])],
                        [0] * 4 + [1] + [0] * 8 + [1] * 9 + [0], transport=tr))
        out.append(case([P(["attempt", "unlock", "attempt", "confirm"]), P(["peek", "forcebreak"]), P(["attempt"])],
                        [0] * 4 + [1] + [0] * 8 + [1] * 5 + [2] * 4 + [0], transport=tr))
        # the holder is "dead" by identity (pid reuse), the other locker steals with what it examined before the re-lock
        out.append(case([P(["attempt", "unlock", "attempt", "confirm"], wid=DEADW), P(["attempt"])],
                        [0] * 4 + [1] * 4 + [0] * 8 + [1] * 8 + [0], transport=tr, steal=True))
    for _ in range(nrandom):
        a = ["attempt", "unlock", "attempt"] + rng.choice([[], ["confirm"], ["unlock", "attempt"]])
        x = rng.choice([["peek", "forcebreak", "attempt"], ["peek", "forcebreak"], ["peek", "peek", "forcebreak", "attempt"]])
        procs = [P(a), P(x)] + ([P(["attempt"])] if rng.random() < 0.4 else [])
        n = len(procs)
        sched = [0] * 4 + [1] * rng.choice([1, 1, 2]) + [0] * rng.choice([4, 8, 8, 8]) + bursty(rng, n, 10 * n)
        out.append(case(procs, sched, transport=rng.choice(["memory", "local"])))
    return out


PROGS = [
    ["attempt", "unlock"], ["attempt", "unlock"], ["attempt", "confirm", "unlock"], ["attempt"],
    ["attempt", "unlock", "attempt", "unlock"], ["peek", "forcebreak"], ["peek", "forcebreak", "attempt"],
    ["peek", "forcebreak", "attempt", "unlock"], ["attempt", "crash"], ["peek", "breakcorrupt"], ["attempt", "confirm"],
    ["unlock"], ["confirm"], ["peek", "peek", "forcebreak"], ["attempt", "unlock", "peek", "forcebreak"],
]


def bursty(rng, n, total):
    s = []
    while len(s) < total:
        p = rng.randrange(n)
        s.extend([p] * rng.choice([1, 1, 1, 2, 3, 4, 5]))
    return s[:total]


def interleavings(counts):
    """all interleavings of sequences with the given lengths (as pid lists)"""
    items = [p for p, c in enumerate(counts) for _ in range(c)]
    seen = set()
    for perm in _multiset_perms(sorted(items)):
        if perm not in seen:
            seen.add(perm)
            yield list(perm)


def _multiset_perms(items):
    if not items:
        yield ()
        return
    prev = None
    for i, x in enumerate(items):
        if x == prev:
            continue
        prev = x
        for rest in _multiset_perms(items[:i] + items[i + 1:]):
            yield (x,) + rest


def cases(rng, tier):
    quick = tier == "quick"
    tr = ["memory", "local"]
    # exhaustive small configurations
    # (a) two lockers attempt concurrently: all interleavings of 4+4 steps (+ tail so that contention cleanup finishes)
    k = 0
    for il in interleavings([4, 4]):
        yield case([P(["attempt", "unlock"]), P(["attempt", "unlock"])], il + [0, 1] * 4, transport=tr[k % 2])
        k += 1
    # (b) breaker (peek, force_break: 6 steps) against holder's unlock (4 steps) and a third locker's acquisition (as one burst)
    pre = [0] * 4
    for il in interleavings([4, 6, 1]):
        sched = pre + [x if x != 2 else -1 for x in il]
        sched = [y for x in sched for y in ([2] * 4 if x == -1 else [x])]
        if quick and k % 12:
            k += 1
            continue
        yield case([P(["attempt", "unlock"]), P(["peek", "forcebreak"]), P(["attempt", "confirm"]), P(["attempt"])],
                   sched + [3] * 4 + [2], transport=tr[k % 2])
        k += 1
    # (c) steal from a dead-identity holder that is in fact still running (pid reuse / shared hostname)
    for il in interleavings([4, 5] if quick else [5, 8]):
        yield case([P(["attempt", "unlock"], wid=DEADW), P(["attempt", "unlock"]), P(["attempt"])],
                   [0] * 4 + [1] * 4 + il + [1] * 6 + [2] * 6 + [0] * 3, steal=True, transport=tr[k % 2])
        k += 1
    # (d) two stealers on one dead holder's lock; (e) re-lock through the same LockDir object vs a break with old info
    for c in steal_race_family(rng, 25 if quick else 400):
        yield c
    for c in relock_family(rng, 25 if quick else 400):
        yield c
    # random
    nrand = 250 if quick else 6000
    wids = [OURS, OURS, OURS, DEADW, {"host": "localhost", "user": "ours", "pid": "dead"},
            {"host": "ours", "user": "other", "pid": "dead"}, {"host": "other", "user": "ours", "pid": "dead"},
            {"host": "ours", "user": "ours", "pid": None}]
    for i in range(nrand):
        n = rng.choice([2, 2, 3, 3, 3, 4])
        steal = rng.random() < 0.4
        procs = []
        for _ in range(n):
            if rng.random() < 0.75:
                prog = list(rng.choice(PROGS))
            else:
                prog = [rng.choice(list(K.CMDS)[:6]) for _ in range(rng.randint(1, 4))]
            wid = rng.choice(wids) if steal else OURS
            fault = rng.randrange(8) if rng.random() < 0.08 else None
            procs.append(P(prog, fault=fault, wid=wid))
        total = min(44, sum(sum(min(K.ops_of(c), 6) for c in p["prog"]) for p in procs) + 2)
        h0 = None
        r = rng.random()
        if r < 0.10:
            h0 = dict(rng.choice([DEADW, OURS]), c="info")
        elif r < 0.14:
            h0 = {"c": "empty"}
        elif r < 0.18:
            h0 = {"c": "corrupt"}
        yield case(procs, bursty(rng, n, total), transport=rng.choice(tr), steal=steal, h0=h0)
    # the dead-holder predicate against the Rust function: whole domain is in corpus()


def impl(inp):
    if inp["kind"] == "dead":
        return K.run_dead(inp)
    return K.run_sched(inp)


def impl_obs(inp, obs):
    if inp["kind"] == "dead" or isinstance(obs, Err):
        return obs
    return K.model_obs(obs)


def model_term(inp):
    if inp["kind"] == "dead":
        return K.dead_term(inp)
    return K.sched_term(inp)


RACE_MSG = "force_break removed a lock other than the one whose holder info was examined"


def oracle(inp, obs):
    if isinstance(obs, Err):
        return "driver error " + str(obs)
    if inp["kind"] == "dead":
        expect = (inp["host"] == "ours" and K._state["host"] != "localhost" and inp["user"] == "ours" and inp["pid"] == "dead")
        if bool(obs) != expect:
            return "is_lock_holder_known_dead(%r) = %r" % (inp, obs)
        return None
    if obs["mutex_bad"]:
        return obs["mutex_bad"]
    if obs["max_observable"] > 1:
        return "more than one locker is_held with its nonce in held/info"
    if obs["steal_bad"]:
        return obs["steal_bad"] + ("; " + obs["two_holders"] if obs["two_holders"] else "")
    if obs["flags"][1]:
        return RACE_MSG + " (the rename moved a later holder's lock into broken.*.tmp; LockBreakMismatch is raised only afterwards and nothing is put back)"
    if obs["later_bad"]:
        return ("a break removed the lock of a later holder than the one whose info was examined: " + obs["later_bad"]
                + ("; " + obs["two_holders"] if obs["two_holders"] else ""))
    if obs["nonce_reuse"]:
        return "two acquisitions carry the same nonce: " + obs["nonce_reuse"]
    return None


def search(hint_inputs, rng):
    """Wider search for a schedule on which the PROPERTY fails on the implementation (used when the tie breaks)."""
    cands = []
    cands += steal_race_family(rng, 150)
    cands += relock_family(rng, 150)
    for h in hint_inputs:
        if h.get("kind") != "sched":
            continue
        n = len(h["procs"])
        for _ in range(6):
            cands.append(dict(h, sched=list(h["sched"]) + bursty(rng, n, 12 * n)))
            cands.append(dict(h, sched=bursty(rng, n, len(h["sched"]) + 8 * n)))
    for c in cands:
        try:
            o = impl(c)
        except Exception:
            continue
        why = oracle(c, o)
        if why and not finding_matches("C26-force-break-race", c, o, why):
            return (c, o, why)
    return None


def race_window(events):
    """a break rename by q with another locker's successful rename-into-place since q's last read of held/info"""
    for j, e in enumerate(events):
        if not e or e.get("k") != "rename_out" or e.get("to") != "broken" or e["res"] != "ok":
            continue
        q = e["pid"]
        i = max([x for x in range(j) if events[x] and events[x]["pid"] == q and events[x].get("k") == "get_held"] or [-1])
        if any(events[x] and events[x]["pid"] != q and events[x].get("k") == "rename_in" and events[x]["res"] == "ok"
               for x in range(i + 1, j)):
            return True
    return False


def finding_matches(fid, inp, obs, why):
    if fid == "C26-force-break-race":
        return (inp.get("kind") == "sched" and isinstance(obs, dict) and (why or "").startswith(RACE_MSG)
                and race_window(obs["events"]))
    return False


def nontrivial(inp, obs):
    if inp["kind"] == "dead" or isinstance(obs, Err):
        return True
    return len({e["pid"] for e in obs["events"] if e}) >= 2


def distribution(inputs, observations):
    d = {"sched": 0, "dead": 0, "memory": 0, "local": 0, "steps": 0, "live_break": 0, "wrong_break": 0, "steal_steps": 0,
         "two_or_more_active": 0, "results": {}}
    for i, o in zip(inputs, observations):
        d[i["kind"]] += 1
        if i["kind"] != "sched" or isinstance(o, Err):
            continue
        d[i["transport"]] += 1
        d["steps"] += len([e for e in o["events"] if e])
        d["live_break"] += bool(o["flags"][0])
        d["wrong_break"] += bool(o["flags"][1])
        d["steal_steps"] += len([e for e in o["events"] if e and e.get("steal")])
        d["two_or_more_active"] += len({e["pid"] for e in o["events"] if e}) >= 2
        for lg in o["logs"]:
            for r in lg:
                k = str(r) if not isinstance(r, list) else "saw"
                d["results"][k] = d["results"].get(k, 0) + 1
    return d


def _verdict_class(inp):
    try:
        o = impl(inp)
    except Exception:
        return None
    why = oracle(inp, o)
    if not why:
        return None
    return (why.split(":")[0], "believe they hold" in why)


def shrink(inp, fails):
    """drop schedule steps while the SAME kind of violation (incl. its two-holders consequence) is still observed"""
    if inp.get("kind") != "sched":
        return inp
    want = _verdict_class(inp)
    s = list(inp["sched"])
    changed = True
    while changed and len(s) > 1:
        changed = False
        for i in range(len(s) - 1, -1, -1):
            cand = dict(inp, sched=s[:i] + s[i + 1:])
            if _verdict_class(cand) == want and fails(cand):
                s = cand["sched"]
                changed = True
                break
    return dict(inp, sched=s)
