"""C20 -- Conflict and merge-hash records persist and resolve faithfully (tie H).

Case kinds
  stanza   one conflict            -> pairs of Conflict.as_stanza() + Conflict.factory() of that stanza
  factory  arbitrary stanza pairs  -> ConflictList.from_stanzas([stanza]) (or the exception class)
  persist  conflict list           -> wt.set_conflicts(); re-open; wt.conflicts()
  select   tree, paths, recurse, conflict list
                                   -> ConflictList.select_conflicts() and, on the real tree,
                                      set_conflicts(); conflicts.resolve(action="done"); re-open; conflicts()
  mm       tree, {path: sha1}      -> wt.set_merge_modified(); re-open; wt.merge_modified()
"""
import hashlib
import os
import shutil

from vlib import Err, coq_bytes, coq_list, coq_option, coq_bool

PROP = "C20"
COQ = {
    "property_file": "Properties/C20.v",
    "imports": "From BV Require Import Lib.Bytes Model.ConflictStanza.",
}
META = {
    "level": "proof",
    "title": "Conflict and merge-hash records persist and resolve faithfully",
    "technique": ("Coq theorems over a hand model of bzr/conflicts.py stanza (de)serialisation, select_conflicts, "
                  "resolve(done) and workingtree set_conflicts/conflicts/set_merge_modified/merge_modified "
                  "+ correspondence on real 2a working trees that are re-opened before reading back"),
    "level_text": ("Partial (P-core). Proved for every conflict of each of the ten registered classes and every "
                   "field combination: factory(as_stanza c) = c; as_stanza raises exactly for a HandledPathConflict "
                   "without conflict_path; stored lists read back identically under the executable guard 'no value "
                   "has a CR directly before LF or at its end' (the unguarded statement is refuted by a "
                   "machine-checked witness, reproduced on the real code: rio drops that CR); select_conflicts "
                   "is an order-preserving partition whose membership is exactly the documented rule (path equal, "
                   "inside when recursing, or file id of a selected path); resolve(done) keeps exactly the rest; "
                   "merge_modified(set_merge_modified d) = the entries of d whose path is versioned and whose "
                   "hash is current. rio and Path::starts_with are modelled environment, validated by the run."),
    "level_note": ("Trusted: Coq kernel, vm_compute, the hand model's correspondence (bounded sampling), the rio "
                   "value model (CR loss) and the path-component model of is_inside as exercised."),
    "design_ref": "DESIGN.md §5 C20",
    "trusted_base": ["hand model coq/Model/ConflictStanza.v of breezy/bzr/conflicts.py, breezy/conflicts.py:resolve, "
                     "breezy/bzr/workingtree.py (conflicts, merge-hashes)",
                     "correspondence harness harness/props/c20.py"],
    "assumptions": ["bzrformats.rio write+read preserves tags, order and values except that a CR directly before a "
                    "line end is dropped (modelled as rio_value; validated on every persist/select/mm case)",
                    "osutils.is_inside_any = component-wise prefix (Rust Path::starts_with; modelled as components)",
                    "paths are str without lone surrogates or NUL; file ids are valid UTF-8 bytes",
                    "tree.path2id / id2path are mutually inverse on versioned paths; format 2a working tree"],
    "rule": ("structured conflicts over pools of plain, unicode, whitespace, newline and CR paths x all ten classes x "
             "optional fields; selections over a small path universe so that hits are frequent; non-trivial = "
             "a non-empty conflict list / at least one selected conflict / a non-empty merge-hash dict"),
}

KINDS = {
    "text conflict": ("CText", 1),
    "path conflict": ("KPath", 2), "contents conflict": ("KContents", 2),
    "unversioned parent": ("KUnversionedParent", 3), "missing parent": ("KMissingParent", 3),
    "deleting parent": ("KDeletingParent", 3), "non-directory parent": ("KNonDirParent", 3),
    "duplicate id": ("KDuplicateID", 4), "duplicate": ("KDuplicateEntry", 4), "parent loop": ("KParentLoop", 4),
}
KIND_LIST = list(KINDS)

# the trees used by select / mm cases: (path, kind, file id, content)
TREES = {
    "t0": [("", "d", b"root-id", None), ("a", "f", b"a-id", b"A\n"), ("b", "f", b"b-id", b"B\n"),
           ("d", "d", b"d-id", None), ("d/x", "f", b"x-id", b"X\n"), ("d/y", "f", b"y-id", b"Y\n"),
           ("dx", "f", b"dx-id", b"DX\n"), ("é", "f", "é-id".encode(), b"E\n")],
    "t1": [("", "d", b"TREE_ROOT", None), ("a", "d", b"dir-a", None), ("a/b", "d", b"ab", None),
           ("a/b/c", "f", b"abc", b"c\n"), ("e f", "f", b"ef-id", b"")],
}
PATH_POOL = ["a", "b", "d", "d/x", "d/y", "dx", "d/x/z", "é", "e f", "", "d/", "d//x", "a/b", "a/b/c",
             "nope", "a.THIS", "d/x.OTHER"]
ODD_PATHS = ["a\nb", " a", "a ", "\n", "a\n", "\ta", "a: b", " ", "\x85", "a\\b", "d/./x", "./d", "a/.",
             "中文/文", "a\n\nb", "x\ry", "\U0001f600"]
CR_PATHS = ["x\r\ny", "x\r", "\r", "\r\n", "d/x\r", "a\r\n\r\nb"]
ID_POOL = [b"a-id", b"b-id", b"d-id", b"x-id", b"y-id", b"dx-id", "é-id".encode(), b"root-id", b"other-id",
           b"", b"id with space", b"abc", b"ab", b"dir-a", b"TREE_ROOT", b"ef-id"]
ACTIONS = ["Moved existing file to", "Created directory", "Not deleting", "Cancelled move", "", "x\ny", "é"]

_state = {}


# ---------------------------------------------------------------- setup

def setup(scratch):
    import breezy
    import breezy.bzr  # noqa
    os.environ.setdefault("BRZ_EMAIL", "verif <verif@example.com>")
    _state["dir"] = scratch
    _state["trees"] = {}


def teardown():
    _state.clear()


def _tree(name):
    from breezy import controldir
    if name in _state["trees"]:
        return _state["trees"][name].controldir.open_workingtree()
    base = os.path.join(_state["dir"], "tree-" + name)
    wt = controldir.ControlDir.create_standalone_workingtree(
        base, format=controldir.format_registry.make_controldir("2a"))
    paths, ids = [], []
    for p, k, fid, content in TREES[name]:
        if p == "":
            wt.set_root_id(fid)
            continue
        full = os.path.join(base, p)
        if k == "d":
            os.mkdir(full)
        else:
            with open(full, "wb") as f:
                f.write(content)
        paths.append(p)
        ids.append(fid)
    wt.add(paths, ids=ids)
    _state["trees"][name] = wt
    return wt.controldir.open_workingtree()


def _norm(p):
    """what InventoryTree.path2id does to its argument before the lookup (probed: 'd/' and '/a' are found)"""
    q = p
    while q.startswith("/"):
        q = q[1:]
    while q.endswith("/"):
        q = q[:-1]
    return q


def _p2i(tree, paths):
    m = {p: fid for p, k, fid, c in TREES[tree]}
    out = []
    for p in paths:
        if any(x[0] == p for x in out):
            continue
        q = _norm(p)
        if "//" in q or q.startswith("./") or "/./" in q or q.endswith("/.") or q == ".":
            fid = None
        else:
            fid = m.get(q)
        if fid is not None:
            out.append([p, fid])
    return out


# ---------------------------------------------------------------- conflicts

def _mk(c):
    from breezy.bzr import conflicts as C
    cls = C.ctype[c["k"]]
    shape = KINDS[c["k"]][1]
    if shape == 1:
        return cls(c["path"], c["fid"])
    if shape == 2:
        return cls(c["path"], c["cpath"], c["fid"])
    if shape == 3:
        return cls(c["action"], c["path"], c["fid"])
    return cls(c["action"], c["path"], c["cpath"], c["fid"], c["cfid"])


def _tuple(c):
    return [c.typestring, c.path, c.file_id, getattr(c, "action", None),
            getattr(c, "conflict_path", None), getattr(c, "conflict_file_id", None)]


def _as_tuple(c):
    """the input record in the same shape as _tuple (what reading back must give)"""
    shape = KINDS[c["k"]][1]
    return [c["k"], c["path"], c["fid"], c["action"] if shape >= 3 else None,
            c["cpath"] if shape in (2, 4) else None, c["cfid"] if shape == 4 else None]


def _ob(v):
    return coq_option(v, coq_bytes)


def _coq_conflict(c):
    name, shape = KINDS[c["k"]]
    if shape == 1:
        return f"(CText {coq_bytes(c['path'])} {_ob(c['fid'])})"
    if shape == 2:
        return f"(CPath {name} {coq_bytes(c['path'])} {_ob(c['cpath'])} {_ob(c['fid'])})"
    if shape == 3:
        return f"(CHandled {name} {coq_bytes(c['action'])} {coq_bytes(c['path'])} {_ob(c['fid'])})"
    return (f"(CHandledPath {name} {coq_bytes(c['action'])} {coq_bytes(c['path'])} {_ob(c['cpath'])} "
            f"{_ob(c['fid'])} {_ob(c['cfid'])})")


def _coq_alist(pairs):
    return coq_list([f"({coq_bytes(k)}, {coq_bytes(v)})" for k, v in pairs])


def _gen_conflict(rng, paths, ids, odd=0.0, cr=0.0, none4=0.0):
    def path():
        r = rng.random()
        if r < cr:
            return rng.choice(CR_PATHS)
        if r < cr + odd:
            if rng.random() < 0.3:
                return "".join(rng.choice("ab/ \n\té中.:") for _ in range(rng.randint(0, 6)))
            return rng.choice(ODD_PATHS)
        return rng.choice(paths)

    def fid():
        if rng.random() < 0.3:
            return None
        if rng.random() < cr / 2:
            return b"id\r"
        return rng.choice(ids)
    k = rng.choice(KIND_LIST)
    shape = KINDS[k][1]
    c = {"k": k, "path": path(), "fid": fid(), "cpath": None, "action": None, "cfid": None}
    if shape == 2:
        c["cpath"] = None if rng.random() < 0.4 else path()
    if shape >= 3:
        c["action"] = rng.choice(ACTIONS) if rng.random() > cr / 2 else "act\r"
    if shape == 4:
        c["cpath"] = None if rng.random() < none4 else path()
        c["cfid"] = fid()
    return c


def _has_cr_loss(v):
    if v is None:
        return False
    if isinstance(v, str):
        v = v.encode("utf-8")
    return b"\r\n" in v or v.endswith(b"\r")


def _conflict_cr(c):
    return any(_has_cr_loss(c[k]) for k in ("path", "fid", "cpath", "action", "cfid"))


# ---------------------------------------------------------------- cases

def corpus():
    out = []
    # the rio CR finding witnesses
    out.append({"kind": "persist", "cs": [{"k": "text conflict", "path": "x\r\ny", "fid": b"i", "cpath": None,
                                           "action": None, "cfid": None}]})
    out.append({"kind": "persist", "cs": [{"k": "text conflict", "path": "x\r", "fid": None, "cpath": None,
                                           "action": None, "cfid": None}]})
    # every class with every optional field present / absent, plain values
    for k in KIND_LIST:
        shape = KINDS[k][1]
        for fid in (None, b"f-id"):
            for cp in ((None, "q") if shape in (2, 4) else (None,)):
                for cf in ((None, b"c-id") if shape == 4 else (None,)):
                    c = {"k": k, "path": "p", "fid": fid, "cpath": cp, "cfid": cf,
                         "action": "Moved existing file to" if shape >= 3 else None}
                    out.append({"kind": "stanza", "c": c})
                    out.append({"kind": "persist", "cs": [c]})
    out.append({"kind": "persist", "cs": []})
    return out


def cases(rng, tier):
    quick = tier == "quick"
    # 1 stanzas of single conflicts (odd values)
    for _ in range(150 if quick else 2000):
        yield {"kind": "stanza", "c": _gen_conflict(rng, PATH_POOL, ID_POOL, odd=0.5, cr=0.05, none4=0.1)}
    # 2 factory on arbitrary stanzas
    tags = ["type", "path", "file_id", "action", "conflict_path", "conflict_file_id", "hash", "x"]
    for _ in range(200 if quick else 3000):
        chosen = [t for t in tags if rng.random() < (0.75 if t in ("type", "path") else 0.35)]
        rng.shuffle(chosen)
        pairs = []
        for t in chosen:
            if t == "type":
                v = rng.choice(KIND_LIST + ["nope", "", "Text Conflict"]) if rng.random() < 0.9 else "duplicate "
            elif t in ("file_id", "conflict_file_id"):
                v = rng.choice(ID_POOL).decode("utf-8")
            else:
                v = rng.choice(PATH_POOL + ODD_PATHS)
            pairs.append([t, v])
        if not pairs:
            pairs = [["path", "p"]]
        yield {"kind": "factory", "pairs": pairs}
    # 3 persisted lists
    for i in range(120 if quick else 1500):
        n = rng.choice([0, 1, 1, 2, 3, 5, 8]) if i % 10 else rng.randint(9, 20)
        yield {"kind": "persist",
               "cs": [_gen_conflict(rng, PATH_POOL, ID_POOL, odd=0.4, cr=0.02 if i % 4 == 0 else 0.0,
                                    none4=0.02 if i % 7 == 0 else 0.0) for _ in range(n)]}
    # 4 selections
    for i in range(150 if quick else 3000):
        tree = rng.choice(list(TREES))
        npaths = rng.choice([0, 1, 1, 2, 3])
        paths = [rng.choice(PATH_POOL if rng.random() < 0.85 else ODD_PATHS[:12]) for _ in range(npaths)]
        n = rng.choice([0, 1, 2, 3, 4, 6])
        # Conflict.cleanup() only suppresses FileNotFoundError: a helper path below a regular file makes
        # resolve raise NotADirectoryError (observed; outside the property) -- not generated
        files = [e[0] for e in TREES[tree] if e[1] == "f"]
        pool = [p for p in PATH_POOL if not any(p.startswith(f + "/") for f in files)]
        cs = [_gen_conflict(rng, pool, ID_POOL, odd=0.1, cr=0.01 if i % 5 == 0 else 0.0) for _ in range(n)]
        yield {"kind": "select", "tree": tree, "paths": paths, "recurse": rng.random() < 0.5, "cs": cs,
               "p2i": _p2i(tree, paths)}
    # 4b selections where exactly one channel (path, conflict_path, file_id, conflict_file_id) can hit
    for i in range(120 if quick else 2000):
        tree = rng.choice(list(TREES))
        versioned = [e for e in TREES[tree] if e[0] != ""]
        picked = rng.sample(versioned, rng.randint(1, 2))
        paths = [e[0] for e in picked]
        recurse = rng.random() < 0.5
        cs = []
        for _ in range(rng.randint(1, 4)):
            chan = rng.choice(["path", "cpath", "fid", "cfid"])
            hit = rng.random() < 0.6
            c = {"k": rng.choice([k for k in KIND_LIST if KINDS[k][1] == 4]) if chan in ("cpath", "cfid") or rng.random() < 0.4
                 else rng.choice(KIND_LIST),
                 "path": "zz", "fid": rng.choice([None, b"other-id"]), "cpath": None, "action": None, "cfid": None}
            shape = KINDS[c["k"]][1]
            if shape >= 3:
                c["action"] = rng.choice(ACTIONS)
            if shape == 4:
                c["cpath"] = "zz/q"
                c["cfid"] = rng.choice([None, b"other-id"])
            e = rng.choice(picked)
            if hit:
                if chan == "path":
                    c["path"] = e[0] if (not recurse or e[1] != "d" or rng.random() < 0.5) else e[0] + "/below"
                elif chan == "cpath" and shape in (2, 4):
                    c["cpath"] = e[0] if (not recurse or e[1] != "d" or rng.random() < 0.5) else e[0] + "/below"
                elif chan == "fid":
                    c["fid"] = e[2]
                elif chan == "cfid" and shape == 4:
                    c["cfid"] = e[2]
            cs.append(c)
        yield {"kind": "select", "tree": tree, "paths": paths, "recurse": recurse, "cs": cs, "p2i": _p2i(tree, paths)}
    # 5 merge-modified dicts
    for _ in range(60 if quick else 1000):
        tree = rng.choice(list(TREES))
        entries = TREES[tree]
        d = []
        for p in rng.sample([e[0] for e in entries] + ["nope", "d/zz", "a/"], rng.randint(0, 5)):
            content = next((e[3] for e in entries if e[0] == p), None)
            good = hashlib.sha1(content).hexdigest().encode() if content is not None else None
            h = good if (good and rng.random() < 0.7) else hashlib.sha1(p.encode() + b"?").hexdigest().encode()
            d.append([p, h])
        yield {"kind": "mm", "tree": tree, "d": d}


# ---------------------------------------------------------------- implementation driver

def _reopen(wt):
    return wt.controldir.open_workingtree()


def impl(inp):
    from breezy.bzr import conflicts as C
    from breezy import conflicts as BC
    from bzrformats import rio
    kind = inp["kind"]
    if kind == "stanza":
        c = _mk(inp["c"])
        try:
            s = c.as_stanza()
        except TypeError:
            return Err("TypeError")
        pairs = [[k, v] for k, v in s.iter_pairs()]
        back = C.ConflictList.from_stanzas([s])
        return [pairs, _tuple(back[0])]
    if kind == "factory":
        s = rio.Stanza()
        for k, v in inp["pairs"]:
            s.add(k, v)
        try:
            r = C.ConflictList.from_stanzas([s])
        except TypeError:
            return Err("TypeError")
        except KeyError:
            return Err("KeyError")
        return _tuple(r[0])
    if kind == "persist":
        wt = _tree("t0")
        wt.set_conflicts([])
        try:
            wt.set_conflicts([_mk(c) for c in inp["cs"]])
        except TypeError:
            return Err("TypeError")
        return [_tuple(c) for c in _reopen(wt).conflicts()]
    if kind == "select":
        wt = _tree(inp["tree"])
        real = [[p, wt.path2id(p)] for p in dict.fromkeys(inp["paths"])]
        real = [x for x in real if x[1] is not None]
        if real != [list(x) for x in inp["p2i"]]:
            raise AssertionError(f"harness path2id table {inp['p2i']!r} differs from the tree's {real!r}")
        cl = C.ConflictList([_mk(c) for c in inp["cs"]])
        new, sel = cl.select_conflicts(wt, list(inp["paths"]), ignore_misses=True, recurse=inp["recurse"])
        wt.set_conflicts([])
        try:
            wt.set_conflicts([_mk(c) for c in inp["cs"]])
            BC.resolve(wt, list(inp["paths"]), ignore_misses=True, recursive=inp["recurse"], action="done")
            after = [_tuple(c) for c in _reopen(wt).conflicts()]
        except TypeError:
            after = Err("TypeError")
        return [[_tuple(c) for c in new], [_tuple(c) for c in sel], after]
    if kind == "mm":
        wt = _tree(inp["tree"])
        wt.set_merge_modified({p: h for p, h in inp["d"]})
        got = _reopen(wt).merge_modified()
        return [[p, h] for p, h in got.items()]
    raise ValueError(kind)


# ---------------------------------------------------------------- model term

def model_term(inp):
    kind = inp["kind"]
    if kind == "stanza":
        return f"run_stanza {_coq_conflict(inp['c'])}"
    if kind == "factory":
        return f"run_factory {_coq_alist(inp['pairs'])}"
    if kind == "persist":
        return f"run_persist {coq_list([_coq_conflict(c) for c in inp['cs']])}"
    if kind == "select":
        return (f"run_select {_coq_alist(inp['p2i'])} {coq_list([coq_bytes(p) for p in inp['paths']])} "
                f"{coq_bool(inp['recurse'])} {coq_list([_coq_conflict(c) for c in inp['cs']])}")
    if kind == "mm":
        entries = TREES[inp["tree"]]
        p2i = [[p, fid] for p, k, fid, c in entries]
        shas = [[p, hashlib.sha1(c).hexdigest().encode()] for p, k, fid, c in entries if c is not None]
        return f"run_merge_modified {_coq_alist(p2i)} {_coq_alist(shas)} {_coq_alist(inp['d'])}"
    raise ValueError(kind)


# ---------------------------------------------------------------- the property itself

def _comps(p):
    """components of a relative or absolute POSIX path as the documented 'is inside' rule sees them"""
    segs = [s for s in p.split("/") if s != ""]
    if p.startswith("/"):
        return ["/"] + [s for s in segs if s != "."]
    return segs[:1] + [s for s in segs[1:] if s != "."]


def _inside(d, f):
    cd, cf = _comps(d), _comps(f)
    return cf[:len(cd)] == cd


def _spec_selected(c, paths, recurse, idset):
    t = _as_tuple(c)
    for p in (t[1], t[4]):
        if p is None:
            continue
        if p in paths or (recurse and any(_inside(d, p) for d in paths)):
            return True
    return any(i is not None and i in idset for i in (t[2], t[5]))


def _writable(c):
    return not (KINDS[c["k"]][1] == 4 and c["cpath"] is None)


def oracle(inp, obs):
    kind = inp["kind"]
    if isinstance(obs, Err) and str(obs).startswith("DRIVER:"):
        return "driver error " + str(obs)
    if kind == "stanza":
        if isinstance(obs, Err):
            return None if not _writable(inp["c"]) else f"as_stanza raised {obs}"
        if not _writable(inp["c"]):
            return "as_stanza accepted a conflict without conflict_path"
        if obs[1] != _as_tuple(inp["c"]):
            return f"factory(as_stanza(c)) = {obs[1]!r} differs from c = {_as_tuple(inp['c'])!r}"
        return None
    if kind == "factory":
        return None     # no property clause: correspondence only
    if kind == "persist":
        want = [_as_tuple(c) for c in inp["cs"]]
        if isinstance(obs, Err):
            return None if not all(_writable(c) for c in inp["cs"]) else f"set_conflicts raised {obs}"
        if obs != want:
            bad = next((i for i, (a, b) in enumerate(zip(obs, want)) if a != b), min(len(obs), len(want)))
            return (f"stored conflict list read back differently after re-open: entry {bad}: stored "
                    f"{want[bad] if bad < len(want) else None!r}, read {obs[bad] if bad < len(obs) else None!r}")
        return None
    if kind == "select":
        new, sel, after = obs
        idset = {fid for p, fid in inp["p2i"]}
        want_sel = [_as_tuple(c) for c in inp["cs"] if _spec_selected(c, inp["paths"], inp["recurse"], idset)]
        want_new = [_as_tuple(c) for c in inp["cs"] if not _spec_selected(c, inp["paths"], inp["recurse"], idset)]
        if sel != want_sel or new != want_new:
            return (f"select_conflicts(paths={inp['paths']!r}, recurse={inp['recurse']}) selected {sel!r}, kept {new!r}; "
                    f"the documented rule selects {want_sel!r}")
        if isinstance(after, Err):
            return None if not all(_writable(c) for c in inp["cs"]) else f"resolve raised {after}"
        if after != want_new:
            return f"after resolve(done) the tree lists {after!r}, expected exactly the unselected {want_new!r}"
        return None
    if kind == "mm":
        entries = {p: (k, c) for p, k, fid, c in TREES[inp["tree"]]}
        want = [[p, h] for p, h in inp["d"]
                if p in entries and entries[p][1] is not None and hashlib.sha1(entries[p][1]).hexdigest().encode() == h]
        if obs != want:
            return f"merge_modified() = {obs!r} after set_merge_modified, expected {want!r}"
        return None
    return "unknown case kind"


def finding_matches(fid, inp, obs, why):
    if fid == "C20-rio-cr-before-line-end":
        # rio (bzrformats) drops a CR that directly precedes a line end: a value containing CR LF or ending in CR
        if inp["kind"] in ("persist", "select"):
            return any(_conflict_cr(c) for c in inp["cs"])
        return False
    return False


def nontrivial(inp, obs):
    k = inp["kind"]
    if k in ("stanza", "factory"):
        return True
    if k == "persist":
        return len(inp["cs"]) > 0
    if k == "select":
        return not isinstance(obs, Err) and len(obs[1]) > 0
    return len(inp["d"]) > 0


def distribution(inputs, observations):
    d = {"by_kind": {}, "by_class": {}, "select_nonempty_selection": 0, "select_nonempty_rest": 0,
         "select_recurse": 0, "errors": 0, "mm_nonempty_result": 0, "with_cr_loss": 0}
    for i, o in zip(inputs, observations):
        d["by_kind"][i["kind"]] = d["by_kind"].get(i["kind"], 0) + 1
        if isinstance(o, Err):
            d["errors"] += 1
        for c in ([i["c"]] if i["kind"] == "stanza" else i.get("cs", [])):
            d["by_class"][c["k"]] = d["by_class"].get(c["k"], 0) + 1
            if _conflict_cr(c):
                d["with_cr_loss"] += 1
        if i["kind"] == "select" and not isinstance(o, Err):
            d["select_nonempty_selection"] += bool(o[1])
            d["select_nonempty_rest"] += bool(o[0])
            d["select_recurse"] += bool(i["recurse"])
        if i["kind"] == "mm" and not isinstance(o, Err):
            d["mm_nonempty_result"] += bool(o)
    return d


# no shrink(): the framework calls it after teardown(), when the scratch trees are gone, so every
# candidate would "fail" with a driver error and the replay input would be shrunk to nonsense.
