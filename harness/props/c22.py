"""C22 -- Revision numbers and revision specifiers resolve consistently (tie H).

Histories are Lib/Dag lists (merges of merges, criss-cross, extra roots, ghosts off
the left-hand history), materialised as real 2a branches; the same list is given to
the Coq model.  Kinds of cases:
  ms     Branch.iter_merge_sorted_revisions() = KnownGraph.merge_sort (compiled vcsgraph,
         environment) vs Lib/DagMergeSort.merge_sort, for every tip of every history
  num    revision_id_to_revno / revision_id_to_dotted_revno for every revision (and a
         ghost and an unknown id), get_rev_id for every number in -1 .. last+2,
         dotted_revno_to_revision_id for every dotted revno of the ancestry and near misses
  iter   iter_merge_sorted_revisions(start, stop, stop_rule, direction): the filters
  spec   RevisionSpec.from_string(s).in_history(branch) and .as_revision_id(branch) for
         enumerated specifier strings (numbers, negative numbers, dotted, revid:, before:,
         last:, tag:, ancestor: with a second real branch, mainline:, nested forms)
  graph  Graph.find_unique_lca / find_lefthand_merger (environment of ancestor:/mainline:)
  seq    questions (specifiers, dotted revnos both ways, revnos) asked of ONE write-locked
         Branch object, interleaved with tip changes (set_last_revision_info, pull --overwrite):
         every answer must be the one for the tip of that moment (no stale cache); and a reader that
         holds one READ lock while another Branch object moves the tip must keep answering for
         the tip it saw first
"""
import daglib
import msortlib
from daglib import rid, idx
from msortlib import ref_merge_sort, good_tips
from vlib import Err, coq_bool, coq_list, coq_option, coq_Z

PROP = "C22"
COQ = {
    "property_file": "Properties/C22.v",
    "imports": "From Coq Require Import ZArith.\nFrom BV Require Import Lib.Dag Lib.DagMergeSort Model.RevSpec.",
}
META = {
    "level": "proof",
    "title": "Revision numbers and revision specifiers resolve consistently",
    "technique": ("Coq theorems over a hand model of BzrBranch8.get_rev_id/revision_id_to_revno, Branch._gen_revno_map/"
                  "_do_dotted_revno_to_revision_id/_do_revision_id_to_dotted_revno/iter_merge_sorted_revisions and the "
                  "RevisionSpec_* classes, on the shared revision-graph library Lib/Dag and a Gallina rendering of the "
                  "merge-sort numbering rules (Lib/DagMergeSort) + correspondence on real 2a branches"),
    "level_text": ("partial (P-core): for every well-formed revision graph (unbounded) revision number n names the n-th "
                   "revision of the left-hand history and number<->id conversions are inverse; the dict/list-filter dotted "
                   "lookups of the code are inverse bijections over ANY merge-sorted list with distinct ids and revnos; the "
                   "Gallina merge sort lists exactly the present ancestors of the tip once, its depth-0 entries are the "
                   "left-hand history numbered 1..n (the same numbers revision_id_to_revno computes), all other entries get "
                   "three-component revnos; each specifier form resolves to the revision its definition names. "
                   "The dotted revnos the numbering rules assign are proved pairwise distinct, so the round trips hold for "
                   "every consistent branch. PARTIAL: the real numbering is computed by compiled vcsgraph (outside /repo); "
                   "its agreement with the Gallina merge sort is a correspondence fact checked for every tip of every "
                   "generated history, not a theorem."),
    "level_note": ("Trusted: Coq kernel, vm_compute, the hand model's correspondence (bounded sampling), vcsgraph merge_sort/"
                   "find_unique_lca/find_lefthand_merger/iter_lefthand_ancestry as modelled (compared on every run). Only "
                   "local bzr 2a branches; RemoteBranch (breezy/bzr/remote.py) and git branches are not exercised; date:, "
                   "branch:, submit:, annotate: and revno:N:branch specifiers are not modelled."),
    "design_ref": "DESIGN.md §5 C22",
    "trusted_base": ["hand model coq/Model/RevSpec.v of breezy/branch.py, breezy/bzr/branch.py, breezy/revisionspec.py",
                     "coq/Lib/DagMergeSort.v as a model of vcsgraph KnownGraph.merge_sort (compiled, outside /repo)",
                     "coq/Lib/Dag.v as a model of vcsgraph graph queries",
                     "correspondence harness harness/props/c22.py, harness/msortlib.py, harness/daglib.py"],
    "assumptions": ["vcsgraph KnownGraph.merge_sort numbers revisions like Lib/DagMergeSort.merge_sort (compared for every tip of every generated history, kind=ms)",
                    "vcsgraph find_unique_lca / find_lefthand_merger / find_unique_ancestors / iter_lefthand_ancestry behave like the Gallina definitions (kind=graph and every spec case)",
                    "the branch records revno = left-hand history length and has no ghost on the left-hand history of its tip (C21 keeps this)",
                    "revision caches of the Branch object do not change answers (kind=seq asks one locked object across tip changes)"],
    "rule": "num/spec/iter cases on histories containing a merge are non-trivial; distinct = distinct (input, observation)",
}
SHARD = 200

_state = {}


def setup(scratch):
    _state["h"] = msortlib.Histories(keep=3)


def teardown():
    h = _state.pop("h", None)
    if h is not None:
        h.close()


# ---- specifier ASTs ---------------------------------------------------------------------------
# ["revno", n, bare]  ["dotted", [a,b,c], bare]  ["revid", r]  ["last", n|None]  ["before", s]
# ["tag", t]  ["ancestor", other_tip|None]  ["mainline", s]

def spec_str(s, other_url=None):
    k = s[0]
    if k == "revno":
        return ("" if s[2] else "revno:") + str(s[1])
    if k == "dotted":
        return ("" if s[2] else "revno:") + ".".join(map(str, s[1]))
    if k == "revid":
        return "revid:" + rid(s[1]).decode()
    if k == "last":
        return "last:" + ("" if s[1] is None else str(s[1]))
    if k == "before":
        return "before:" + spec_str(s[1], other_url)
    if k == "tag":
        return "tag:t%d" % s[1]
    if k == "ancestor":
        return "ancestor:" + other_url
    if k == "mainline":
        return "mainline:" + spec_str(s[1], other_url)
    if k == "revnoat":
        return "revno:%d:%s" % (s[1], other_url)
    raise ValueError(s)


def spec_coq(s):
    k = s[0]
    if k == "revno":
        return f"(SRevno {coq_Z(s[1])})"
    if k == "dotted":
        return f"(SDotted {coq_list(s[1], str)})"
    if k == "revid":
        return f"(SRevid {s[1]})"
    if k == "last":
        return f"(SLast {coq_option(s[1], coq_Z)})"
    if k == "before":
        return f"(SBefore {spec_coq(s[1])})"
    if k == "tag":
        return f"(STag {s[1]})"
    if k == "ancestor":
        return f"(SAncestor {coq_option(s[1], str)})"
    if k == "mainline":
        return f"(SMainline {spec_coq(s[1])})"
    if k == "revnoat":
        return f"(SRevnoAt {coq_Z(s[1])} {coq_option(s[2], str)})"
    raise ValueError(s)


def _other_of(s):
    """(has ancestor:, its tip)"""
    if s[0] == "ancestor":
        return True, s[1]
    if s[0] == "revnoat":
        return True, s[2]
    if s[0] in ("before", "mainline"):
        return _other_of(s[1])
    return False, None


def _specs_for(rng, g, tip, tags, tier):
    n = len(g)
    last = daglib.revno_of(g, tip) or 0
    rmap = msortlib.revno_map(g, tip)
    ghosts = sorted({p for ps in g for p in ps if p >= n})
    out = []
    for k in range(-last - 2, last + 3):
        out.append(["revno", k, k % 2 == 0])
    dotted = [list(d) for d in rmap.values() if len(d) == 3]
    for d in dotted:
        out.append(["dotted", d, rng.random() < 0.5])
    out += [["dotted", [1, 9, 1], True], ["dotted", [1, 1], False], ["dotted", [last, 1, 1], True]]
    some = list(range(n)) + ghosts[:1] + [n + 30]
    for r in some:
        out.append(["revid", r])
    for k in (None, -1, 0, 1, 2, last, last + 1, last + 2):
        out.append(["last", k])
    for t, _ in tags:
        out.append(["tag", t])
    out.append(["tag", 9])
    base = [["revno", k, True] for k in range(0, last + 2)] + [["dotted", d, True] for d in dotted] + \
           [["revid", r] for r in some] + [["tag", t] for t, _ in tags] + [["last", 1], ["revno", -1, True]]
    for s in base:
        if rng.random() < 0.6:
            out.append(["before", s])
        if rng.random() < 0.6:
            out.append(["mainline", s])
    for s in rng.sample(base, min(4, len(base))):
        out.append(["before", ["before", s]])
        out.append(["mainline", ["before", s]])
        out.append(["before", ["mainline", s]])
    others = good_tips(g)
    rng.shuffle(others)
    for o in others[:(2 if tier == "quick" else 4)] + [None]:
        out.append(["ancestor", o])
    if others:
        out.append(["before", ["ancestor", others[0]]])
        out.append(["mainline", ["ancestor", others[0]]])
    # a number resolved in ANOTHER branch (revno:N:LOCATION), alone and under mainline: -- the other
    # branches preferred are those whose tip was merged into this one off the mainline
    anc = msortlib.present_ancestors(g, tip) if tip is not None else set()
    ml = set(_mainline(g, tip))
    merged = [o for o in others if o in anc and o not in ml]
    for o in (merged[:1] + [x for x in others if x not in merged][:1]):
        olast = daglib.revno_of(g, o) or 0
        for k in sorted({1, olast, -1, olast + 1}):
            out.append(["revnoat", k, o])
            out.append(["mainline", ["revnoat", k, o]])
    return out


def _graphs(rng, tier):
    ndag, maxn = (12, 11) if tier == "quick" else (110, 14)
    out = [list(map(list, g)) for g in msortlib.FIXED]
    for i in range(ndag):
        out.append(daglib.gen_dag(rng, rng.randint(3, maxn), p_merge=0.3 + 0.3 * rng.random(),
                                  p_ghost=0.06, p_left_ghost=0.03, p_root=0.06))
    return out


def _dedupe(items):
    seen, out = set(), []
    for x in items:
        k = repr(x)
        if k not in seen:
            seen.add(k)
            out.append(x)
    return out


def _cases_for(rng, g, tier, gi=0):
    n = len(g)
    good = good_tips(g)
    ghosts = sorted({p for ps in g for p in ps if p >= n})
    for tip in good + [None]:
        yield {"kind": "ms", "g": g, "tip": tip}
    if not good:
        return
    tips = list(dict.fromkeys([good[-1]] + rng.sample(good, min(len(good), 1 if tier == "quick" else 2))))
    for tip in tips + [None]:
        last = daglib.revno_of(g, tip) or 0
        rmap = msortlib.revno_map(g, tip)
        ds = [list(d) for d in rmap.values()]
        ds += [[1, 7, 1], [0, 1, 1], [last + 1], [0], [1, 1], [1, 1, 1, 1], [last, 1, 2]]
        yield {"kind": "num", "g": g, "tip": tip, "rs": list(range(n)) + ghosts[:1] + [n + 30],
               "ns": list(range(-1, last + 3)), "ds": ds}
    for tip in tips:
        ms = ref_merge_sort(g, tip)
        ids = [x for x, _d, _r, _e in ms]
        for _ in range(6 if tier == "quick" else 10):
            start = rng.choice(ids + [None, None] + list(range(n)))
            stop = rng.choice(ids + [None])
            rule = rng.choice(["exclude", "include", "with-merges", "with-merges-without-common-ancestry"])
            if rule == "with-merges-without-common-ancestry" and (start is None):
                start = rng.choice(ids)
            yield {"kind": "iter", "g": g, "tip": tip, "start": start, "stop": stop, "rule": rule,
                   "forward": rng.random() < 0.3}
        # every merged revision of the ancestry as a start (the non-ancestor filter)
        for start, d, _r, _e in ms:
            if d > 0 or rng.random() < 0.2:
                yield {"kind": "iter", "g": g, "tip": tip, "start": start, "stop": None, "rule": "exclude", "forward": False}
    for tip in tips[:1] + ([None] if gi % 4 == 0 else []):
        pool = list(range(n)) + ghosts[:1]
        tags = [[t, rng.choice(pool)] for t in range(2)]
        for s in _dedupe(_specs_for(rng, g, tip, tags, tier)):
            yield {"kind": "spec", "g": g, "tip": tip, "tags": tags, "spec": s}
    for _ in range(4):
        yield {"kind": "graph", "g": g, "a": rng.randrange(n), "b": rng.randrange(n), "tip": rng.choice(good)}
    yield from _seq_cases(rng, g, tier)


def _query(rng, g, tip, pool):
    rmap = msortlib.revno_map(g, tip)
    x = rng.random()
    r = rng.choice(pool)
    if x < 0.3:
        return ["dotted", r]
    if x < 0.45:
        return ["revno", r]
    if x < 0.65 and rmap:
        return ["id", list(rng.choice(list(rmap.values())))]
    if x < 0.85 and rmap:
        d = list(rng.choice(list(rmap.values())))
        return ["spec", ["dotted", d, False] if len(d) == 3 else ["revno", d[0], rng.random() < 0.5]]
    return ["spec", rng.choice([["revid", r], ["before", ["revid", r]], ["mainline", ["revid", r]],
                                ["revno", -1, True], ["last", 2]])]


def _seq_cases(rng, g, tier):
    """Questions asked of one locked Branch object while its tip moves."""
    n = len(g)
    good = good_tips(g)
    if len(good) < 2:
        return
    # targeted: resolve the dotted revno of X under tip A (that caches X -> (a,b,c)), move to a
    # tip B whose left-hand history runs through X, ask for X again; and back
    done = 0
    for a in reversed(good):
        rm = msortlib.revno_map(g, a)
        for x, d in rm.items():
            if len(d) != 3:
                continue
            bs = [b for b in good if b != a and x in daglib.lefthand(g, b)]
            if not bs:
                continue
            b = rng.choice(bs)
            how = "pull" if rng.random() < 0.6 else "tip"
            yield {"kind": "seq", "g": g, "tip": a, "tags": [],
                   "steps": [["spec", ["dotted", list(d), False]], ["dotted", x], [how, b], ["dotted", x],
                             ["revno", x], ["spec", ["revid", x]], ["id", list(d)], ["tip", a], ["dotted", x],
                             ["id", list(d)]]}
            done += 1
            break
        if done >= (2 if tier == "quick" else 4):
            break
    # a reader holds ONE read lock and keeps resolving numbers while another Branch object moves
    # the tip: the reader must keep answering for the tip it saw first (a consistent snapshot)
    for _ in range(3 if tier == "quick" else 6):
        tip = rng.choice(good)
        pool = list(range(n))
        last = daglib.revno_of(g, tip) or 0
        steps = [["spec", ["revno", rng.randint(1, max(1, last)), True]], ["revno", rng.choice(pool)]]
        for _k in range(rng.randint(1, 2)):
            steps.append(["wtip", rng.choice([t for t in good if t != tip] or good)])
            for _q in range(rng.randint(3, 5)):
                x = rng.random()
                if x < 0.35:
                    steps.append(["spec", rng.choice([["revno", rng.randint(0, last + 1), rng.random() < 0.5],
                                                      ["revno", -rng.randint(1, last + 1), True],
                                                      ["last", rng.randint(1, last + 1)],
                                                      ["before", ["revno", rng.randint(1, max(1, last)), True]]])])
                elif x < 0.55:
                    steps.append(["id", [rng.randint(1, max(1, last))]])
                else:
                    steps.append(_query(rng, g, tip, pool))
        yield {"kind": "seq", "lock": "read", "g": g, "tip": tip, "tags": [], "steps": steps}
    for _ in range(2 if tier == "quick" else 5):
        tip = rng.choice(good)
        t0 = tip
        steps = []
        for _k in range(rng.randint(6, 12)):
            if rng.random() < 0.3:
                tip = rng.choice(good + [None]) if rng.random() < 0.15 else rng.choice(good)
                steps.append(["pull" if tip is not None and rng.random() < 0.5 else "tip", tip])
            else:
                pool = list(range(n))
                steps.append(_query(rng, g, tip, pool))
        yield {"kind": "seq", "g": g, "tip": t0, "tags": [], "steps": steps}


def corpus():
    return []


def cases(rng, tier):
    for gi, g in enumerate(_graphs(rng, tier)):
        yield from _cases_for(rng, g, tier, gi)


# ---- implementation driver ----------------------------------------------------------------------

EXPECTED = ("NoSuchRevision", "RevnoOutOfBounds", "InvalidRevisionSpec", "NoSuchTag", "NoCommits",
            "NoCommonAncestor")


def _catch(f):
    try:
        return f()
    except Exception as e:
        if type(e).__name__ not in EXPECTED:
            raise
        return Err(type(e).__name__)


def _ms_obs(it):
    return [[idx(r), d, list(rv), bool(e)] for r, d, rv, e in it]


RULES = {"exclude": "Exclude", "include": "Include", "with-merges": "WithMerges",
         "with-merges-without-common-ancestry": "WithMergesNoCommon"}


def impl(inp):
    import breezy.bzr  # noqa: F401
    h = _state["h"]
    g, kind = inp["g"], inp["kind"]
    if kind == "graph":
        import vcsgraph.errors
        br = h.source(g)
        with br.lock_read():
            gr = br.repository.get_graph()
            try:
                lca = gr.find_unique_lca(rid(inp["a"]), rid(inp["b"]))
            except vcsgraph.errors.NoCommonAncestor:
                # histories that do not even share the null revision (a ghost at the bottom of
                # one of them): the same "nothing in common" as null:
                lca = b"null:"
            mg = gr.find_lefthand_merger(rid(inp["a"]), rid(inp["tip"]))
        return [idx(lca), None if mg is None else idx(mg)]
    br = h.at_tip(g, inp["tip"])
    if kind == "ms":
        with br.lock_read():
            return _ms_obs(br.iter_merge_sorted_revisions())
    if kind == "iter":
        with br.lock_read():
            return _ms_obs(br.iter_merge_sorted_revisions(
                start_revision_id=None if inp["start"] is None else rid(inp["start"]),
                stop_revision_id=None if inp["stop"] is None else rid(inp["stop"]),
                stop_rule=inp["rule"], direction="forward" if inp["forward"] else "reverse"))
    if kind == "num":
        with br.lock_read():
            a = [[_catch(lambda: br.revision_id_to_revno(rid(r))),
                  _catch(lambda: list(br.revision_id_to_dotted_revno(rid(r))))] for r in inp["rs"]]
            b = [_catch(lambda: idx(br.get_rev_id(n))) for n in inp["ns"]]
            c = [_catch(lambda: idx(br.dotted_revno_to_revision_id(tuple(d)))) for d in inp["ds"]]
        return [a, b, c]
    if kind == "seq":
        return _impl_seq(inp, br)
    # kind == "spec"
    from breezy.revisionspec import RevisionSpec
    with br.lock_write():
        br.tags._set_tag_dict({"t%d" % t: rid(r) for t, r in inp["tags"]})
    has_other, otip = _other_of(inp["spec"])
    url = h.other_branch(g, otip).base if has_other else None
    text = spec_str(inp["spec"], url)

    def in_history():
        info = RevisionSpec.from_string(text).in_history(br)
        return [info.revno, idx(info.rev_id)]
    with br.lock_read():
        o1 = _catch(in_history)
        o2 = _catch(lambda: idx(RevisionSpec.from_string(text).as_revision_id(br)))
    return [o1, o2]


def _impl_seq(inp, br):
    from breezy.revisionspec import RevisionSpec
    from vlib import Tag
    h, g = _state["h"], inp["g"]
    others = {st[1]: h.other_branch(g, st[1]) for st in inp["steps"] if st[0] == "pull"}
    out = []
    read = inp.get("lock") == "read"
    with (br.lock_read() if read else br.lock_write()):
        if read:
            br.last_revision_info()          # the reader's snapshot starts here
        for st in inp["steps"]:
            what = st[0]
            if what == "wtip":
                from breezy.branch import Branch
                msortlib.set_tip(Branch.open(br.base), g, st[1])     # another Branch object, its own write lock
                out.append(Tag("tip"))
            elif what == "tip":
                if st[1] is None:
                    br.set_last_revision_info(0, b"null:")
                else:
                    br.set_last_revision_info(daglib.revno_of(g, st[1]), rid(st[1]))
                out.append(Tag("tip"))
            elif what == "pull":
                br.pull(others[st[1]], overwrite=True)
                out.append(Tag("tip"))
            elif what == "spec":
                text = spec_str(st[1])

                def in_history():
                    info = RevisionSpec.from_string(text).in_history(br)
                    return [info.revno, idx(info.rev_id)]
                out.append([_catch(in_history), _catch(lambda: idx(RevisionSpec.from_string(text).as_revision_id(br)))])
            elif what == "dotted":
                out.append(_catch(lambda: list(br.revision_id_to_dotted_revno(rid(st[1])))))
            elif what == "id":
                out.append(_catch(lambda: idx(br.dotted_revno_to_revision_id(tuple(st[1])))))
            elif what == "revno":
                out.append(_catch(lambda: br.revision_id_to_revno(rid(st[1]))))
            else:
                raise ValueError(st)
    return out


# ---- model term -----------------------------------------------------------------------------------

def _o(v):
    return coq_option(v, str)


def model_term(inp):
    g, kind = daglib.coq_dag(inp["g"]), inp["kind"]
    if kind == "graph":
        return f"run_graph {g} {inp['a']} {inp['b']} (Some {inp['tip']})"
    tip = _o(inp["tip"])
    if kind == "ms":
        return f"run_ms {g} {tip}"
    if kind == "iter":
        return f"run_iter {g} {tip} {_o(inp['start'])} {_o(inp['stop'])} {RULES[inp['rule']]} {coq_bool(inp['forward'])}"
    if kind == "num":
        return (f"run_num {g} {tip} {coq_list(inp['rs'], str)} {coq_list(inp['ns'], coq_Z)} "
                f"{coq_list([coq_list(d, str) for d in inp['ds']])}")
    tags = coq_list([f"({t}, {r})" for t, r in inp["tags"]])
    if kind == "seq":
        def step(st):
            if st[0] in ("tip", "pull"):
                return f"(SetTip {_o(st[1])})"
            if st[0] == "wtip":
                return f"(OtherTip {_o(st[1])})"
            if st[0] == "spec":
                return f"(QSpec {spec_coq(st[1])})"
            if st[0] == "dotted":
                return f"(QDotted {st[1]})"
            if st[0] == "id":
                return f"(QId {coq_list(st[1], str)})"
            return f"(QRevno {st[1]})"
        return f"run_seq {g} {tip} {tags} {coq_list([step(st) for st in inp['steps']])}"
    return f"run_spec {g} {tip} {tags} {spec_coq(inp['spec'])}"


# ---- the property itself, on the implementation's observation ------------------------------------

def _mainline(g, tip):
    return [] if tip is None else list(reversed(daglib.lefthand(g, tip)))     # oldest first


def _expect_spec(g, tip, tags, s, real_map):
    """What the definition of the specifier names: ('ok', rev|None) or ('err',) or ('any',).
    real_map: dotted revno -> rev as observed on the implementation's merge-sorted list."""
    n = len(g)
    ml = _mainline(g, tip)
    k = s[0]
    if k == "revno":
        v = s[1]
        if v < 0:
            v = 1 if -v >= len(ml) else len(ml) + v + 1
        if v == 0:
            return ("ok", None)
        return ("ok", ml[v - 1]) if 1 <= v <= len(ml) else ("err",)
    if k == "revnoat":
        return _expect_spec(g, s[2], tags, ["revno", s[1], False], {})
    if k == "dotted":
        r = real_map.get(tuple(s[1]))
        return ("ok", r) if r is not None else ("err",)
    if k == "revid":
        return ("ok", s[1])
    if k == "last":
        if s[1] is None:
            return ("ok", ml[-1]) if ml else ("err",)
        if s[1] <= 0:
            return ("err",)
        v = len(ml) - s[1] + 1
        if v == 0:
            return ("ok", None)
        return ("ok", ml[v - 1]) if 1 <= v <= len(ml) else ("err",)
    if k == "tag":
        d = dict(map(tuple, tags))
        return ("ok", d[s[1]]) if s[1] in d else ("err",)
    if k == "before":
        e = _expect_spec(g, tip, tags, s[1], real_map)
        if e[0] == "lca":
            return ("any",)
        if e[0] != "ok":
            return e
        if e[1] is None or e[1] >= n:
            return ("err",)
        return ("ok", g[e[1]][0] if g[e[1]] else None)
    if k == "ancestor":
        if tip is None or s[1] is None:
            return ("err",)
        return ("lca", tip, s[1])
    if k == "mainline":
        e = _expect_spec(g, tip, tags, s[1], real_map)
        if e[0] == "lca":
            return ("any",)
        if e[0] != "ok":
            return e
        if e[1] is None:
            return ("ok", None)       # "null:" is the origin of every left-hand history
        cands = [r for r in ml if daglib.is_ancestor(g, e[1], r)]
        return ("ok", cands[0]) if cands else ("err",)
    raise ValueError(s)


def _unique_lca(g, a, b):
    """The definition of Graph.find_unique_lca: the lowest common ancestor; when there are
    several, the lowest common ancestor of those (repeated); None when they share nothing."""
    keys = {a, b}
    for _ in range(len(g) + 3):
        ca = None
        for k in keys:
            ak = daglib.ancestors(g, [k])
            ca = ak if ca is None else ca & ak
        lcas = daglib.heads(g, ca)
        if not lcas:
            return None
        if len(lcas) == 1:
            return next(iter(lcas))
        keys = lcas
    raise AssertionError("find_unique_lca reference does not terminate")


def _check_lca(g, a, b, r):
    want = _unique_lca(g, a, b)
    if r != want:
        return f"the unique lowest common ancestor of {a} and {b} is {want}, got {r}"
    if r is not None and not (daglib.is_ancestor(g, r, a) and daglib.is_ancestor(g, r, b)):
        return f"ancestor: gave {r}, which is not a common ancestor of {a} and {b}"
    return None


def oracle(inp, obs):
    if isinstance(obs, Err):
        return "driver error " + str(obs)
    g, kind = inp["g"], inp["kind"]
    n = len(g)
    if kind == "graph":
        return _check_lca(g, inp["a"], inp["b"], obs[0])
    tip = inp["tip"]
    if kind == "ms":
        ids = [e[0] for e in obs]
        revnos = [tuple(e[2]) for e in obs]
        if len(set(ids)) != len(ids):
            return "a revision is listed twice in the merge-sorted list"
        if set(ids) != msortlib.present_ancestors(g, tip):
            return f"merge-sorted ids {sorted(ids)} are not the ancestry of the tip {sorted(msortlib.present_ancestors(g, tip))}"
        if len(set(revnos)) != len(revnos):
            return "two revisions share a dotted revno"
        pos = {x: i for i, x in enumerate(ids)}
        for x in ids:
            for p in g[x]:
                if p < n and pos[p] < pos[x]:
                    return f"parent {p} is listed before its child {x}"
        ml = [] if tip is None else daglib.lefthand(g, tip)
        if [e[0] for e in obs if e[1] == 0] != ml:
            return "the depth-0 entries are not the left-hand history"
        for e in obs:
            if e[1] == 0 and e[2] != [len(ml) - ml.index(e[0])]:
                return f"mainline revision {e[0]} is numbered {e[2]}"
            if e[1] != 0 and len(e[2]) != 3:
                return f"merged revision {e[0]} is numbered {e[2]}"
        return None
    if kind == "iter":
        ids = [e[0] for e in obs]
        if len(set(ids)) != len(ids):
            return "a revision is yielded twice"
        if inp["forward"]:
            ids = ids[::-1]
        if inp["start"] is not None and ids and ids[0] != inp["start"]:
            return f"the walk starts at {ids[0]}, not at the start revision"
        if inp["start"] is not None:
            anc = daglib.ancestors(g, [inp["start"]])
            bad = [x for x in ids if x not in anc]
            if bad:
                return f"revisions {bad} are not in the ancestry of the start revision {inp['start']}"
            if inp["stop"] is None:
                full = [x for x, _d, _r, _e in ref_merge_sort(g, tip)]
                if inp["start"] in full:
                    want = [x for x in full[full.index(inp["start"]):] if x in anc]
                    if ids != want:
                        return f"walk from {inp['start']} gave {ids}, its merge-sorted ancestry is {want}"
        if inp["stop"] is not None and inp["rule"] == "exclude" and inp["stop"] in ids:
            return "the excluded stop revision is yielded"
        return None
    if kind == "num":
        a, b, c = obs
        ml = _mainline(g, tip)
        anc = msortlib.present_ancestors(g, tip)
        dotted_of = {}
        for r, (rn, dt) in zip(inp["rs"], a):
            want = ml.index(r) + 1 if r in ml else None
            got = None if isinstance(rn, Err) else rn
            if got != want:
                return f"revision_id_to_revno({r}) = {rn!r}, its position in the left-hand history is {want}"
            if (r in anc) != (not isinstance(dt, Err)):
                return f"revision_id_to_dotted_revno({r}) = {dt!r} but membership in the ancestry is {r in anc}"
            if r in ml and dt != [want]:
                return f"mainline revision {r} has dotted revno {dt}"
            if not isinstance(dt, Err):
                dotted_of[r] = tuple(dt)
        if len(set(dotted_of.values())) != len(dotted_of):
            return "two revisions share a dotted revno"
        for k, got in zip(inp["ns"], b):
            want = None if k == 0 else (ml[k - 1] if 1 <= k <= len(ml) else "err")
            g2 = "err" if isinstance(got, Err) else got
            if g2 != want:
                return f"get_rev_id({k}) = {got!r}, the {k}-th revision of the left-hand history is {want}"
        back = {d: r for r, d in dotted_of.items()}
        for d, got in zip(inp["ds"], c):
            d = tuple(d)
            if d == (0,):
                want = None
            else:
                want = back.get(d, "err")
            g2 = "err" if isinstance(got, Err) else got
            if g2 != want:
                return f"dotted_revno_to_revision_id({d}) = {got!r} but revision_id_to_dotted_revno maps {want} to it"
        return None
    if kind == "seq":
        return _oracle_seq(inp, obs)
    return _oracle_spec(g, tip, inp["tags"], inp["spec"], obs)


def _oracle_spec(g, tip, tags, spec, obs):
    n = len(g)
    inp = {"spec": spec, "tags": tags}
    o1, o2 = obs
    real_map = {rv: x for x, _d, rv, _e in ref_merge_sort(g, tip)}
    e = _expect_spec(g, tip, inp["tags"], inp["spec"], real_map)
    if e[0] == "any":
        return None
    for name, o, rev in (("in_history", o1, None if isinstance(o1, Err) else o1[1]), ("as_revision_id", o2, o2)):
        failed = isinstance(o, Err)
        if e[0] == "err":
            if not failed:
                return f"{name} of {spec_str(inp['spec'], 'OTHER')!r} gave {o!r} but the specifier names no revision"
            continue
        if e[0] == "lca":
            if failed:
                if str(o) != "NoCommonAncestor" or _unique_lca(g, e[1], e[2]) is not None:
                    return f"{name} of ancestor: failed with {o} although the unique LCA is {_unique_lca(g, e[1], e[2])}"
                continue
            why = _check_lca(g, e[1], e[2], rev)
            if why:
                return why
            continue
        # e = ("ok", rev): in_history may additionally reject a revision that is not in the repository
        if failed:
            if name == "in_history" and (e[1] is not None and e[1] >= n):
                continue
            if inp["spec"][0] == "before" and _unchecked_before(inp["spec"], n, g, tip, inp["tags"], real_map):
                continue
            return f"{name} of {spec_str(inp['spec'], 'OTHER')!r} failed with {o} but the specifier names {e[1]}"
        if rev != e[1]:
            return f"{name} of {spec_str(inp['spec'], 'OTHER')!r} gave {rev}, the specifier names {e[1]}"
    if not isinstance(o1, Err):
        ml = _mainline(g, spec[2] if spec[0] == "revnoat" else tip)     # revno:N:LOCATION counts in that branch
        want = 0 if o1[1] is None else (ml.index(o1[1]) + 1 if o1[1] in ml else None)
        if o1[0] != want:
            return f"in_history reports revno {o1[0]} for revision {o1[1]} whose mainline number is {want}"
    return None


def _oracle_seq(inp, obs):
    """Every answer must be the answer for the tip of that moment."""
    g, tip = inp["g"], inp["tip"]
    for k, (st, o) in enumerate(zip(inp["steps"], obs)):
        what = st[0]
        if what in ("tip", "pull"):
            tip = st[1]
            continue
        if what == "wtip":
            continue             # another object moved the tip: this reader's lock still shows the old one
        where = f"step {k} (tip {tip} after {[x for x in inp['steps'][:k] if x[0] in ('tip', 'pull')]})"
        ml = _mainline(g, tip)
        rmap = msortlib.revno_map(g, tip)
        if what == "spec":
            why = _oracle_spec(g, tip, inp["tags"], st[1], o)
            if why:
                return f"{where}: {why}"
        elif what == "dotted":
            r = st[1]
            want = [ml.index(r) + 1] if r in ml else (list(rmap[r]) if r in rmap else "err")
            got = "err" if isinstance(o, Err) else o
            if got != want:
                return f"{where}: revision_id_to_dotted_revno({r}) = {o!r}, its dotted revno is {want}"
        elif what == "id":
            d = tuple(st[1])
            back = {tuple(v): x for x, v in rmap.items()}
            want = None if d == (0,) else back.get(d, "err")
            got = "err" if isinstance(o, Err) else o
            if got != want:
                return f"{where}: dotted_revno_to_revision_id({d}) = {o!r}, that revno belongs to {want}"
        elif what == "revno":
            r = st[1]
            want = ml.index(r) + 1 if r in ml else "err"
            got = "err" if isinstance(o, Err) else o
            if got != want:
                return f"{where}: revision_id_to_revno({r}) = {o!r}, its position in the left-hand history is {want}"
    return None


def _unchecked_before(s, n, g, tip, tags, real_map):
    """before:X where X itself is not in the repository: the definition has no parent to name."""
    e = _expect_spec(g, tip, tags, s[1], real_map)
    return e[0] == "ok" and e[1] is not None and e[1] >= n


def finding_matches(fid, inp, obs, why):
    return False


def nontrivial(inp, obs):
    return inp["kind"] in ("num", "spec", "iter", "seq") and any(len(ps) > 1 for ps in inp["g"])


def distribution(inputs, observations):
    d = {"kinds": {}, "spec_forms": {}, "spec_errors": 0, "graph_size": {}, "max_depth": {}, "rules": {}}
    seen = set()
    for i, o in zip(inputs, observations):
        d["kinds"][i["kind"]] = d["kinds"].get(i["kind"], 0) + 1
        if i["kind"] == "spec":
            f = i["spec"][0]
            d["spec_forms"][f] = d["spec_forms"].get(f, 0) + 1
            d["spec_errors"] += (not isinstance(o, Err)) and isinstance(o[0], Err)
        if i["kind"] == "iter":
            d["rules"][i["rule"]] = d["rules"].get(i["rule"], 0) + 1
        if i["kind"] == "ms" and i["tip"] is not None and not isinstance(o, Err):
            k = str(max([e[1] for e in o] + [0]))
            d["max_depth"][k] = d["max_depth"].get(k, 0) + 1
        key = str(i["g"])
        if key not in seen:
            seen.add(key)
            k = str(len(i["g"]))
            d["graph_size"][k] = d["graph_size"].get(k, 0) + 1
    d["histories"] = len(seen)
    return d
