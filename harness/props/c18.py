"""C18 -- merge decision rules (tie T: model generated from breezy/merge.py on every run)."""
import itertools

from vlib import Tag, Err, coq_list, coq_nat
import py2coq

PROP = "C18"
COQ = {
    "property_file": "Properties/C18.v",
    "imports": "From BV Require Import Lib.PyPrim Gen.ThreeWay Model.ThreeWayRun.",
}
META = {
    "level": "proof",
    "title": "Merge decision rules are symmetric and consistent with their LCA extension",
    "technique": "Coq theorems over a model regenerated from merge.py by a Python-ast translator (py2coq) on every run",
    "level_text": ("_three_way and _lca_multi_way are translated from the current source into Gallina on every run; symmetry, "
                   "LCA consistency and 'an unchanged side never wins' are proved for every value type with decidable equality "
                   "and any number of LCAs. The translator is validated on every run against the Python functions on an "
                   "exhaustive 4-value domain."),
    "level_note": "Trusted: Coq kernel, py2coq translator (validated per run by exhaustive comparison), Python == modelled as a decidable equality.",
    "design_ref": "DESIGN.md §5 C18",
    "trusted_base": ["tools/py2coq.py (translator; validated on this run against the Python functions)",
                     "Python == on the compared attribute values is an equivalence decided by A_eqb (Section hypothesis A_eqb_spec)"],
    "assumptions": ["values compared by the merge rules have a reflexive, symmetric, transitive =="],
    "rule": "all assignments of 4 values to base/this/other and up to 3 LCAs, both allow_overriding_lca settings; non-trivial = this != other",
}

SPECS = [
    dict(qualname="Merge3Merger._three_way", coq_name="three_way",
         params={"base": "A", "other": "A", "this": "A"}, returns="winner"),
    dict(qualname="Merge3Merger._lca_multi_way", coq_name="lca_multi_way",
         params={"bases": "A * list A", "other": "A", "this": "A", "allow_overriding_lca": "bool"},
         returns="winner", defaults={"allow_overriding_lca": True}),
]
COMMON = {
    "strings": {"this": "W_this", "other": "W_other", "conflict": "W_conflict"},
    "calls": {"Merge3Merger._three_way": ("three_way", "enum")},
}
HEADER = "From Coq Require Import List Bool Arith.\nImport ListNotations.\nFrom BV Require Import Lib.PyPrim."


def translate(repo, coqdir):
    import os
    return py2coq.translate_functions(repo, "breezy/merge.py", SPECS, COMMON, HEADER,
                                      os.path.join(coqdir, "Gen", "ThreeWay.v"))


def cases(rng, tier):
    maxl = 3 if tier == "quick" else 4
    vals = range(4)
    for b, o, t in itertools.product(vals, repeat=3):
        yield {"fn": "three_way", "base": b, "other": o, "this": t}
    for n in range(maxl + 1):
        for b, o, t in itertools.product(vals, repeat=3):
            for lcas in itertools.product(vals, repeat=n):
                for allow in (True, False):
                    yield {"fn": "lca", "base": b, "lcas": list(lcas), "other": o, "this": t, "allow": allow}
    for _ in range(200 if tier == "quick" else 5000):
        n = rng.randint(4, 8)
        yield {"fn": "lca", "base": rng.randrange(5), "lcas": [rng.randrange(5) for _ in range(n)],
               "other": rng.randrange(5), "this": rng.randrange(5), "allow": rng.random() < 0.5}


def _call(inp):
    from breezy.merge import Merge3Merger
    if inp["fn"] == "three_way":
        return Merge3Merger._three_way(inp["base"], inp["other"], inp["this"])
    return Merge3Merger._lca_multi_way((inp["base"], list(inp["lcas"])), inp["other"], inp["this"],
                                       allow_overriding_lca=inp["allow"])


def impl(inp):
    return Tag(_call(inp))


def model_term(inp):
    if inp["fn"] == "three_way":
        return f"run_three_way {coq_nat(inp['base'])} {coq_nat(inp['other'])} {coq_nat(inp['this'])}"
    return (f"run_lca {coq_nat(inp['base'])} {coq_list(inp['lcas'], coq_nat)} {coq_nat(inp['other'])} "
            f"{coq_nat(inp['this'])} {'true' if inp['allow'] else 'false'}")


SWAP = {"this": "other", "other": "this", "conflict": "conflict"}


def oracle(inp, obs):
    """The three clauses of the property on the real functions."""
    if isinstance(obs, Err):
        return "driver error " + str(obs)
    r = str(obs)
    if r not in SWAP:
        return f"result {r!r} is not one of this/other/conflict"
    sw = dict(inp, this=inp["other"], other=inp["this"])
    r2 = _call(sw)
    if inp["this"] == inp["other"]:
        if r != "this":
            return f"tie-break violated: this == other but result {r}"
    elif SWAP[r] != r2:
        return f"not symmetric: {r} but swapped gives {r2}"
    if inp["fn"] == "lca":
        from breezy.merge import Merge3Merger
        lcas = list(inp["lcas"])
        if lcas and all(l == lcas[0] for l in lcas):
            tw = Merge3Merger._three_way(lcas[0], inp["other"], inp["this"])
            if tw != r:
                return f"LCA-inconsistent: all LCAs equal {lcas[0]} but lca={r}, three_way={tw}"
        anc = [inp["base"]] + lcas
        if inp["this"] in anc and inp["other"] not in anc and r == "this":
            return "unchanged THIS won against changed OTHER"
        if inp["other"] in anc and inp["this"] not in anc and r == "other":
            return "unchanged OTHER won against changed THIS"
    else:
        if inp["this"] == inp["base"] and inp["other"] != inp["base"] and r == "this":
            return "unchanged THIS won against changed OTHER"
        if inp["other"] == inp["base"] and inp["this"] != inp["base"] and r == "other":
            return "unchanged OTHER won against changed THIS"
    return None


def search(hint_inputs, rng):
    """Complete search of the 4-value domain (up to 4 LCAs) on the implementation."""
    for inp in cases(rng, "thorough"):
        o = impl(inp)
        v = oracle(inp, o)
        if v:
            return inp, o, v
    return None


def nontrivial(inp, obs):
    return inp["this"] != inp["other"]


def distribution(inputs, observations):
    d = {}
    for i, o in zip(inputs, observations):
        k = f"{i['fn']}:{len(i.get('lcas', []))}lcas:{o}"
        d[k] = d.get(k, 0) + 1
    return d
